#!/usr/bin/env python3
"""Second-opinion run of dumped obligations.

    VERIF_DUMP_SMT=/tmp/smt /verif/check C02          # dumps the first 2 decided queries of every unit as SMT-LIB2
    python3 /verif/crosscheck.py /tmp/smt [--per-solver-timeout 30]

Each file is re-decided by the system z3 (4.8.12, /usr/bin/z3) and by the cvc5 binary; an answer different from the
recorded one is a DISAGREEMENT (exit 1), `unknown`/time-outs/`(error` lines are counted as inconclusive."""
import glob
import os
import subprocess
import sys
import json


def run(cmd, timeout):
    try:
        p = subprocess.run(cmd, capture_output=True, text=True, timeout=timeout + 5)
        out = (p.stdout + p.stderr).strip().split('\n')
        if any('(error' in l for l in out):
            return 'error'
        for l in out:
            if l.strip() in ('sat', 'unsat', 'unknown'):
                return l.strip()
        return 'unknown'
    except subprocess.TimeoutExpired:
        return 'timeout'


def main():
    d = sys.argv[1]
    T = int(sys.argv[3]) if len(sys.argv) > 3 else 30
    files = sorted(glob.glob(os.path.join(d, '**', '*.smt2'), recursive=True))
    stats = {'z3-4.8.12': {}, 'cvc5': {}}
    dis = []
    for f in files:
        exp = open(f).readline().split(':')[1].strip()
        for name, cmd in (('z3-4.8.12', ['/usr/bin/z3', '-T:%d' % T, f]), ('cvc5', ['cvc5', '--tlimit=%d' % (T * 1000), f])):
            r = run(cmd, T)
            key = 'agree' if r == exp else ('inconclusive' if r in ('unknown', 'timeout', 'error') else 'DISAGREE')
            stats[name][key] = stats[name].get(key, 0) + 1
            if key == 'DISAGREE':
                dis.append((name, f, exp, r))
    print(json.dumps(dict(files=len(files), **stats)))
    for x in dis:
        print('DISAGREEMENT', x)
    return 1 if dis else 0


if __name__ == '__main__':
    sys.exit(main())
