#!/verif/.venv/bin/python
"""Entry point:  check.py <property-id> [--tier quick|thorough] [--replay path] [--only unit-substring]"""
import os
import sys

sys.path.insert(0, os.path.dirname(os.path.abspath(__file__)))
os.environ.setdefault('OMP_NUM_THREADS', '1')
os.environ.setdefault('OPENBLAS_NUM_THREADS', '1')
sys.setrecursionlimit(20000)


def main():
    if len(sys.argv) < 2:
        print(__doc__)
        return 2
    prop = sys.argv[1].upper()
    from engine import harness
    return harness.main_check(prop, 'checks.%s' % prop.lower(), sys.argv[2:])


if __name__ == '__main__':
    sys.exit(main())
