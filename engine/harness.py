"""Check harness: units, symbolic/concrete environments, obligation accounting, parallel run,
counterexample replay, known findings, evidence, exit codes.

A *unit* is one harness: `body(env)` calls the real dadi code on inputs obtained from `env` and
states obligations with `env.eq / env.holds / env.raises`.  The same body runs

* symbolically (SymEnv): inputs are `Sym`, every feasible path is explored, every obligation
  is decided by z3 under  pre ∧ path-condition ∧ denominators≠0  (unsat = holds for all values),
* concretely (ConcEnv): inputs are float64 values taken from a solver model; the *real* code
  (real NumPy floats, C sources of the current tree compiled with gcc) is run and the same
  obligations are evaluated with a relative tolerance.  This is the replay that must reproduce
  a counterexample before it is reported.

Exit codes: 0 all obligations discharged (or only listed known findings), 1 reproduced
violation, 3 inconclusive / harness error (never reported as success or as violation).
"""
import hashlib
import json
import multiprocessing as mp
import os
import subprocess
import sys
import time
import traceback
from fractions import Fraction as Fr

import numpy as np
import z3

from . import symreal as S
from .symreal import Sym, SymBool

VERIF = os.path.dirname(os.path.dirname(os.path.abspath(__file__)))
REPO = os.environ.get('DADI_REPO', '/repo')


class Unit:
    def __init__(self, name, body, params=None, pre=None, min_obligations=1, timeout_s=300,
                 stretch=False, maxpaths=2000, replay=None, query_timeout_ms=60000, setup=None,
                 expect_paths=None, catch=(Exception,)):
        self.name = name
        self.body = body
        self.params = params or {}
        self.min_obligations = min_obligations
        self.timeout_s = timeout_s
        self.stretch = stretch
        self.maxpaths = maxpaths
        self.replay = replay
        self.query_timeout_ms = query_timeout_ms
        self.setup = setup
        self.expect_paths = expect_paths
        self.catch = catch


class PrefixedEnv:
    """Env proxy that prefixes variable names and obligation labels: lets several unit bodies run one after the other
    in ONE process and ONE symbolic path set (call histories: state kept between calls shows up as a failed obligation
    of a later body)."""
    def __init__(self, env, prefix):
        self._e, self._p = env, prefix
        self.symbolic = env.symbolic

    def __getattr__(self, k):
        return getattr(self._e, k)

    def real(self, name, *a, **kw):
        return self._e.real(self._p + name, *a, **kw)

    def pos(self, name, *a, **kw):
        return self._e.pos(self._p + name, *a, **kw)

    def array(self, name, *a, **kw):
        return self._e.array(self._p + name, *a, **kw)

    def grid(self, name, *a, **kw):
        return self._e.grid(self._p + name, *a, **kw)

    def eq(self, label, *a, **kw):
        return self._e.eq(self._p + label, *a, **kw)

    def holds(self, label, *a, **kw):
        return self._e.holds(self._p + label, *a, **kw)

    def eq_struct(self, label, *a, **kw):
        return self._e.eq_struct(self._p + label, *a, **kw)

    def same(self, label, *a, **kw):
        return self._e.same(self._p + label, *a, **kw)

    def fail(self, label, *a, **kw):
        return self._e.fail(self._p + label, *a, **kw)


def chain(name, units, **kw):
    """One unit that runs the bodies of `units` in sequence in the same process (fresh, independently named inputs for
    each; every body's obligations are kept).  Chaining a unit with itself checks that a call does not depend on an
    earlier call with the same shapes but different values (memoisation keyed too coarsely, buffers reused)."""
    units = list(units)
    setups = []
    for u in units:
        if u.setup is not None and u.setup not in setups:
            setups.append(u.setup)
    if len(setups) > 1:
        raise ValueError('chain %s: units with different setup functions' % name)
    if any(u.replay is not None for u in units):
        raise ValueError('chain %s: units with a custom replay' % name)

    def body(env):
        for i, u in enumerate(units):
            u.body(PrefixedEnv(env, 'call%d.' % i))
    exp = 1
    for u in units:
        exp = None if (exp is None or u.expect_paths is None) else exp * u.expect_paths
    mp = 1
    for u in units:
        mp = min(mp * max(u.maxpaths, 1), 100000)
    args = dict(params=dict(history=[u.name for u in units]), min_obligations=sum(u.min_obligations for u in units),
                timeout_s=sum(u.timeout_s for u in units), maxpaths=mp, setup=setups[0] if setups else None,
                query_timeout_ms=max(u.query_timeout_ms for u in units), expect_paths=exp,
                catch=units[0].catch, stretch=all(u.stretch for u in units))
    args.update(kw)
    return Unit(name, body, **args)


def chains_by_name(us, specs, prefix='hist-chain'):
    """specs: list of lists of unit names (a single name = that unit twice).  Unknown names are an error (a renamed
    unit must not silently drop its history check).  Names missing because the tier does not build them are skipped
    only when given as '?name'."""
    by = {u.name: u for u in us}
    out = []
    for k, spec in enumerate(specs):
        names = [spec, spec] if isinstance(spec, str) else list(spec)
        shown = [n.lstrip('?') for n in names]
        sel, skip = [], False
        for n in names:
            opt = n.startswith('?')
            n = n[1:] if opt else n
            u_ = by.get(n)
            if u_ is None:
                # not an exact name: a regular expression (unit names may depend on the run's seed); first match in
                # unit order that this chain has not used yet, else first match
                import re as _re
                try:
                    rx = _re.compile(n)
                except _re.error:
                    rx = None
                cands = [x for x in us if rx is not None and rx.fullmatch(x.name)]
                fresh_ = [x for x in cands if x not in sel]
                u_ = (fresh_ or cands or [None])[0]
            if u_ is None:
                if opt:
                    skip = True
                    break
                raise KeyError('history chain: no unit named / matching %r' % n)
            sel.append(u_)
        shown = [x.name for x in sel] if not skip else shown
        if skip:
            continue
        out.append(chain('%s-%d-%s' % (prefix, k, '+'.join(shown if len(set(shown)) > 1 else shown[:1])[:120]), sel))
    return out


def _with_histories(prop_id, units):
    """Append the call-history chains registered for this property (checks/histories.py)."""
    try:
        from checks.histories import HIST
    except ImportError:
        return units
    return list(units) + chains_by_name(units, HIST.get(prop_id, []))


class Mismatch(Exception):
    pass


class _Ob:
    __slots__ = ('label', 'kind', 'a', 'b', 'slack', 'scale', 'extra_pre')

    def __init__(self, label, kind, a, b=None, slack=None, scale=None, extra_pre=()):
        self.label = label
        self.kind = kind
        self.a = a
        self.b = b
        self.slack = slack
        self.scale = scale
        self.extra_pre = extra_pre


class SymEnv:
    symbolic = True

    def __init__(self, unit):
        self.unit = unit
        self.pre = []
        self.obs = []
        self.vars = {}
        self.notes = []

    # ---- inputs
    def real(self, name, lo=None, hi=None, lo_open=False, hi_open=False, nonzero=False):
        if name in self.vars:
            return self.vars[name]
        v = S.R(name)
        self.vars[name] = v
        if lo is not None:
            self.pre.append(v.t > S.tz(lo) if lo_open else v.t >= S.tz(lo))
        if hi is not None:
            self.pre.append(v.t < S.tz(hi) if hi_open else v.t <= S.tz(hi))
        if nonzero:
            self.pre.append(v.t != 0)
        return v

    def pos(self, name):
        return self.real(name, lo=0, lo_open=True)

    def array(self, name, shape, lo=None):
        a = np.empty(shape, dtype=object)
        for idx in np.ndindex(*a.shape):
            a[idx] = self.real(name + '_' + '_'.join(map(str, idx)), lo=lo)
        return a

    def const(self, v):
        return S.C(v)

    def constarray(self, vals):
        return S.constarray(vals)

    def grid(self, name, L, symbolic=True, points=None):
        """Grid on [0,1]: symbolic interior points (strictly increasing) or given rationals."""
        if not symbolic:
            return S.constarray(points)
        xs = [S.C(0)] + [self.real('%s%d' % (name, i)) for i in range(1, L - 1)] + [S.C(1)]
        for i in range(L - 1):
            c = xs[i] < xs[i + 1]
            if isinstance(c, SymBool):
                self.pre.append(c.t)
        g = np.empty(L, dtype=object)
        for i in range(L):
            g[i] = xs[i]
        return g

    def assume(self, cond):
        if isinstance(cond, SymBool):
            if S.CUR is not None and self._running:
                S.CUR.assume(cond.t)
            self.pre.append(cond.t)
        elif isinstance(cond, z3.BoolRef):
            if S.CUR is not None and self._running:
                S.CUR.assume(cond)
            self.pre.append(cond)
        elif not cond:
            raise S.PathInfeasible()

    _running = False

    # ---- obligations
    def eq(self, label, a, b, slack=None, scale=None, pre=()):
        self.obs.append(_Ob(label, 'eq', a, b, slack, scale, pre))

    def holds(self, label, cond, pre=()):
        self.obs.append(_Ob(label, 'holds', cond, extra_pre=pre))

    def eq_struct(self, label, a, b):
        """a == b established through congruence: matching UF applications / divisions are peeled and
        the arguments compared (sufficient condition)."""
        a, b = Sym.lift(a), Sym.lift(b)
        if a.c is not None or b.c is not None:
            return self.eq(label, a, b)
        prs = S.struct_pairs(a.t, b.t)
        if not prs:
            return self.eq(label, a, a)
        for i, (x, y) in enumerate(prs):
            self.eq('%s/part%d' % (label, i), Sym(x), Sym(y))

    def same(self, label, a, b):
        """a and b are arrays: elementwise eq."""
        a = np.asarray(a, dtype=object)
        b = np.asarray(b, dtype=object)
        if a.shape != b.shape:
            self.obs.append(_Ob(label + ':shape', 'holds', False))
            return
        for idx in np.ndindex(*a.shape):
            self.eq('%s%s' % (label, list(idx)), a[idx], b[idx])

    def note(self, s):
        self.notes.append(s)

    def fail(self, label, why='', hard=False):
        # hard=True: decided under pre & path-condition ALONE (no "divisors occurring in the query are non-zero"
        # hypothesis): for failures that are themselves about a divisor being zero on the path
        self.obs.append(_Ob(label + (':' + why if why else ''), 'hard' if hard else 'holds', False))


class ConcEnv:
    symbolic = False

    def __init__(self, unit, values, rtol=1e-7):
        self.unit = unit
        self.values = values
        self.failed = []
        self.checked = 0
        self.rtol = rtol
        self.domain_ok = True
        self.notes = []

    def _v(self, name, lo=None, hi=None, lo_open=False, hi_open=False):
        """Model value; variables the model leaves free (they did not occur in the failing obligation) get a
        deterministic generic value inside their declared bounds (not 0, which would hide most effects)."""
        if name in self.values and self.values[name] is not None:
            return float(Fr(self.values[name]))
        u = (int(hashlib.sha256(name.encode()).hexdigest()[:8], 16) % 9973) / 9973.0  # in [0,1)
        u = 0.05 + 0.9 * u
        if lo is not None and hi is not None:
            return float(Fr(lo)) + (float(Fr(hi)) - float(Fr(lo))) * u
        if lo is not None:
            return float(Fr(lo)) + 0.25 + u
        if hi is not None:
            return float(Fr(hi)) - 0.25 - u
        return 0.25 + u

    def real(self, name, lo=None, hi=None, lo_open=False, hi_open=False, nonzero=False):
        return self._v(name, lo, hi)

    def pos(self, name):
        return self._v(name, 0, None)

    def array(self, name, shape, lo=None):
        a = np.empty(shape, dtype=np.float64)
        for idx in np.ndindex(*a.shape):
            a[idx] = self._v(name + '_' + '_'.join(map(str, idx)), lo)
        return a

    def const(self, v):
        return float(Fr(v)) if not isinstance(v, float) else v

    def constarray(self, vals):
        return np.array([[float(Fr(x))] if False else float(Fr(x)) for x in np.ravel(np.asarray(vals, dtype=object))],
                        dtype=np.float64).reshape(np.shape(vals))

    def grid(self, name, L, symbolic=True, points=None):
        if not symbolic:
            return self.constarray(points)
        g = [0.0] + [None] * (L - 2) + [1.0]
        for i in range(1, L - 1):
            k = '%s%d' % (name, i)
            if k in self.values and self.values[k] is not None:
                g[i] = float(Fr(self.values[k]))
        for i in range(1, L - 1):  # free interior points: spread between the neighbours that are fixed
            if g[i] is None:
                j = next(q for q in range(i + 1, L) if g[q] is not None)
                g[i] = g[i - 1] + (g[j] - g[i - 1]) / (j - i + 1)
        return np.array(g)

    def assume(self, cond):
        if not bool(cond):
            self.domain_ok = False

    def eq(self, label, a, b, slack=None, scale=None, pre=()):
        self.checked += 1
        a = float(a)
        b = float(b)
        if not (np.isfinite(a) and np.isfinite(b)):
            if not (a == b):  # nan or mismatching infinities: a failure, never within tolerance
                self.failed.append((label, a, b))
            return
        tol = self.rtol * max(abs(a), abs(b), 1e-300)
        if slack is not None:
            tol = max(tol, 2 * float(slack) * abs(float(scale)))
        if not (abs(a - b) <= tol) :
            self.failed.append((label, a, b))

    def holds(self, label, cond, pre=()):
        self.checked += 1
        if not bool(cond):
            self.failed.append((label, None, None))

    def eq_struct(self, label, a, b):
        self.eq(label, a, b)

    def same(self, label, a, b):
        a = np.asarray(a, dtype=float)
        b = np.asarray(b, dtype=float)
        if a.shape != b.shape:
            self.failed.append((label + ':shape', None, None))
            return
        for idx in np.ndindex(*a.shape):
            self.eq('%s%s' % (label, list(idx)), a[idx], b[idx])

    def note(self, s):
        self.notes.append(s)

    def fail(self, label, why='', hard=False):
        self.checked += 1
        self.failed.append((label + (':' + why if why else ''), None, None))


# --------------------------------------------------------------------------------------------
def _smt2(constraints, maxlen=1500):
    s = z3.Solver()
    for c in constraints:
        s.add(c)
    txt = s.to_smt2()
    return txt if len(txt) <= maxlen else txt[:maxlen] + ' ...[truncated]'


def run_unit_symbolic(unit):
    """Runs in a worker process.  Returns a JSON-able result dict."""
    t0 = time.time()
    res = dict(unit=unit.name, params=unit.params, paths=0, raised_paths=0, obligations=0,
               discharged=0, syntactic=0, unknown=[], cex=[], queries=0, feas_queries=0,
               solver_s=0.0, samples=[], error=None, stretch=unit.stretch, notes=[],
               distinct=0)
    seen_ob = set()
    nopc = {}   # (ids of the two terms) -> terms, for obligations already proved WITHOUT the path condition
    try:
        if unit.setup:
            unit.setup()
        env = SymEnv(unit)
        # a first dry pass collects preconditions declared by env.real/grid before exploring:
        holder = {}

        def fn():
            env.obs = []
            env._running = True
            try:
                r = unit.body(env)
            finally:
                env._running = False
            holder['obs'] = env.obs
            return r

        # Preconditions are declared while the body runs; to make them available to the
        # feasibility checks of the *first* path too, declare-on-first-use adds them to the
        # live executor as well.
        orig_real = env.real

        def real(name, **kw):
            fresh = name not in env.vars
            n0 = len(env.pre)
            v = orig_real(name, **kw)
            if fresh and S.CUR is not None and env._running:
                for p in env.pre[n0:]:
                    S.CUR.solver.add(p)
            return v
        env.real = real
        orig_grid = env.grid

        def grid(name, L, symbolic=True, points=None):
            n0 = len(env.pre)
            g = orig_grid(name, L, symbolic, points)
            if S.CUR is not None and env._running:
                for p in env.pre[n0:]:
                    S.CUR.solver.add(p)
            return g
        env.grid = grid

        class _PreList(list):
            pass
        # explore() copies `pre` at Executor creation: pass the live list so later paths see
        # all preconditions declared so far.
        paths = []
        stack = [[]]
        deadline = time.time() + unit.timeout_s
        while stack:
            dec = stack.pop()
            ex = S.Executor(list(env.pre), dec, timeout_ms=20000, deadline=deadline)
            S.CUR = ex
            try:
                try:
                    r = fn()
                except S.Realised:
                    raise
                except unit.catch as e:
                    r = S.Raised(e)
                    holder['obs'] = env.obs
            except S.PathInfeasible:
                continue
            finally:
                S.CUR = None
            for i in range(len(dec), len(ex.trace)):
                cond, taken, forced = ex.trace[i]
                if forced is False:
                    stack.append(ex.decisions[:i] + [not taken])
            pc = [c if t else z3.Not(c) for c, t, _ in ex.trace]
            # Vacuity guard for the "divisors occurring in the query are non-zero" hypothesis: unit-wide preconditions
            # (axioms recorded on OTHER paths) may mention a divisor that this path forces to zero; with the hypothesis
            # added, every obligation of this path would then hold vacuously.  Such preconditions are dropped for this
            # path (dropping hypotheses is sound; the terms they talk about do not exist on this path).
            path_pre = list(env.pre)
            pd_ = {}
            for d_ in S.collect_denominators(path_pre):
                pd_[d_.get_id()] = d_
            if pd_:
                vv = S.check_sat(path_pre + pc + [d_ != 0 for d_ in pd_.values()], 5000)
                res['feas_queries'] += 1
                res['solver_s'] += vv.seconds
                if vv.status == 'unsat':
                    path_pre = [p_ for p_ in path_pre if not S.collect_denominators([p_])]
                    res['paths_with_zero_divisor_preconditions_dropped'] = \
                        res.get('paths_with_zero_divisor_preconditions_dropped', 0) + 1
            res['paths'] += 1
            res['feas_queries'] += ex.nqueries
            res['solver_s'] += ex.qtime
            if isinstance(r, S.Raised):
                res['raised_paths'] += 1
                if not getattr(unit, 'raises_ok', False):
                    # an unexpected exception on a feasible path is itself an obligation failure
                    holder['obs'] = list(holder.get('obs', [])) + [
                        _Ob('unexpected-exception:%s:%s' % (r.type, str(r.exc)[:160]), 'holds', False)]
            if res['paths'] > unit.maxpaths:
                raise S.ExplorationLimit('more than %d paths' % unit.maxpaths)
            denoms = list(ex.denoms.values())
            for ob in holder.get('obs', []):
                res['obligations'] += 1
                if time.time() > deadline:
                    raise S.ExplorationLimit('unit time cap (%ds) hit while discharging' % unit.timeout_s)
                pre = list(path_pre) + list(ob.extra_pre)
                if ob.kind == 'eq':
                    a, b = Sym.lift(ob.a), Sym.lift(ob.b)
                    if ob.slack is not None:
                        sc = Sym.lift(ob.scale)
                        d = a - b
                        claim = z3.And(S.tz(d) <= S.tz(ob.slack) * S.tz(sc), -S.tz(d) <= S.tz(ob.slack) * S.tz(sc))
                        v = S.prove(claim, pre, pc, denoms, unit.query_timeout_ms)
                        terms = [claim]
                    else:
                        ck = (a.t.get_id(), b.t.get_id()) if (a.c is None or b.c is None) else None
                        if ck is not None and ck in nopc and not ob.extra_pre:
                            v = S.Verdict('unsat', None, 0.0, 'syntactic')  # proved on an earlier path under pre alone
                        else:
                            v = None
                            if len(pc) > 0 and res['paths'] > 1 and ck is not None and not ob.extra_pre:
                                v0 = S.prove_eq(a, b, pre, [], denoms, min(unit.query_timeout_ms, 10000))
                                if v0.status == 'unsat':
                                    nopc[ck] = (a.t, b.t)
                                    v = v0
                                else:
                                    res['solver_s'] += v0.seconds
                            if v is None:
                                v = S.prove_eq(a, b, pre, pc, denoms, unit.query_timeout_ms)
                        terms = [a.t, b.t]
                elif ob.kind == 'hard':
                    v = S.check_sat(list(pre) + list(pc), unit.query_timeout_ms)
                    terms = [z3.BoolVal(False)]
                else:
                    c = ob.a
                    if isinstance(c, SymBool):
                        c = c.t
                    elif not isinstance(c, z3.BoolRef):
                        c = z3.BoolVal(bool(c))
                    v = S.prove(c, pre, pc, denoms, unit.query_timeout_ms)
                    terms = [c]
                res['solver_s'] += v.seconds
                if v.reason in ('syntactic', 'constants') and v.status == 'unsat':
                    res['syntactic'] += 1
                else:
                    res['queries'] += 1
                key = hash(tuple(t.get_id() if hasattr(t, 'get_id') else hash(t) for t in terms))
                if key not in seen_ob and v.reason not in ('syntactic',):
                    seen_ob.add(key)
                    res['distinct'] += 1
                if v.status == 'unsat':
                    res['discharged'] += 1
                    if len(res['samples']) < 2 and v.reason not in ('syntactic', 'constants') and ob.kind == 'eq':
                        res['samples'].append(dict(label=ob.label, verdict='unsat', seconds=round(v.seconds, 4),
                                                   lhs=str(z3.simplify(terms[0]))[:300] if len(terms) > 1 else '',
                                                   rhs=str(z3.simplify(terms[1]))[:300] if len(terms) > 1 else ''))
                elif v.status == 'sat':
                    allterms = terms + pre + pc
                    vals = S.model_values(v.model, allterms) if v.model is not None else {}
                    res['cex'].append(dict(label=ob.label, unit=unit.name, params=unit.params,
                                           values={k: (str(x) if x is not None else None) for k, x in vals.items()},
                                           lhs=str(z3.simplify(terms[0]))[:400],
                                           rhs=str(z3.simplify(terms[1]))[:400] if len(terms) > 1 else '',
                                           reason=v.reason, probe=(ob.kind == 'hard')))
                    if len(res['cex']) >= 5:
                        break
                else:
                    res['unknown'].append(dict(label=ob.label, reason=v.reason, seconds=round(v.seconds, 2)))
            if len(res['cex']) >= 5:
                break
        res['notes'] = env.notes[:10]
        if unit.expect_paths is not None and res['paths'] < unit.expect_paths and not res['cex']:
            res['error'] = 'vacuity guard: %d paths explored, at least %d expected' % (res['paths'], unit.expect_paths)
        if res['obligations'] < unit.min_obligations and not res['cex'] and not res['error']:
            res['error'] = 'vacuity guard: %d obligations reached, at least %d expected' % (
                res['obligations'], unit.min_obligations)
    except S.ExplorationLimit as e:
        res['error'] = 'inconclusive: %s' % e
    except BaseException as e:  # harness error
        res['error'] = 'harness error: %s: %s\n%s' % (type(e).__name__, e, traceback.format_exc(limit=6))
    res['wall_s'] = round(time.time() - t0, 3)
    return res


def run_unit_concrete(unit, values):
    if unit.replay is not None:
        return unit.replay(values)
    env = ConcEnv(unit, values)
    try:
        unit.body(env)
    except unit.catch as e:
        if not getattr(unit, 'raises_ok', False):
            env.failed.append(('unexpected-exception:%s:%s' % (type(e).__name__, str(e)[:160]), None, None))
    return dict(reproduced=bool(env.failed), failed=[(l, a, b) for l, a, b in env.failed[:10]],
                checked=env.checked, domain_ok=env.domain_ok)


# --------------------------------------------------------------------------------------------
def source_hashes(relpaths):
    out = {}
    for p in relpaths:
        fp = os.path.join(REPO, p)
        try:
            out[p] = hashlib.sha256(open(fp, 'rb').read()).hexdigest()[:16]
        except OSError:
            out[p] = 'missing'
    return out


def load_known_findings():
    p = os.path.join(VERIF, 'known_findings.json')
    if not os.path.exists(p):
        return []
    return json.load(open(p))


def _worker(args):
    modname, idx, tier, seed = args
    import importlib
    mod = importlib.import_module(modname)
    units = _with_histories(modname.split('.')[-1].upper(), mod.units(tier, seed))
    u = units[idx]
    dd = os.environ.get('VERIF_DUMP_SMT')
    if dd:
        import re as _re
        S.DUMP = dict(dir=os.path.join(dd, modname.split('.')[-1].upper(), _re.sub(r'[^A-Za-z0-9_.-]', '_', u.name)[:80]),
                      limit=int(os.environ.get('VERIF_DUMP_SMT_N', '2')), n=0)
    return run_unit_symbolic(u)


def main_check(prop, modname, argv):
    import argparse
    import importlib
    ap = argparse.ArgumentParser()
    ap.add_argument('--tier', default=os.environ.get('VERIF_TIER', 'quick'))
    ap.add_argument('--replay')
    ap.add_argument('--jobs', type=int, default=int(os.environ.get('VERIF_JOBS', '16')))
    ap.add_argument('--only')
    a = ap.parse_args(argv)
    tier = a.tier if a.tier in ('quick', 'thorough') else 'quick'
    seed = int(os.environ.get('VERIF_SEED', '0') or 0)
    mod = importlib.import_module(modname)
    if a.replay:
        return do_replay(prop, mod, a.replay, tier, seed)
    t0 = time.time()
    units = _with_histories(prop, mod.units(tier, seed))
    sel = [i for i, u in enumerate(units) if not a.only or a.only in u.name]
    ctx = mp.get_context('fork')

    def _dead(u, why):
        return dict(unit=u.name, params=u.params, paths=0, obligations=0, discharged=0, syntactic=0, unknown=[], cex=[],
                    queries=0, feas_queries=0, solver_s=0.0, samples=[], error=why, stretch=u.stretch,
                    wall_s=u.timeout_s, raised_paths=0, notes=[], distinct=0)

    def _child(conn, idx):
        try:
            r = _worker((modname, idx, tier, seed))
        except BaseException as e:  # noqa
            r = _dead(units[idx], 'harness error: %s: %s' % (type(e).__name__, e))
        try:
            conn.send(r)
        finally:
            conn.close()
    # one process per unit, at most `jobs` at a time, each with its own wall-clock cap (a worker stuck inside the
    # solver is killed and the unit reported inconclusive; it never delays or hides the other units)
    pending = list(sel)
    running = {}
    done = {}
    jobs = max(1, min(a.jobs, len(sel) or 1))
    while pending or running:
        while pending and len(running) < jobs:
            idx = pending.pop(0)
            pc_, cc_ = ctx.Pipe(duplex=False)
            p = ctx.Process(target=_child, args=(cc_, idx), daemon=True)
            p.start()
            cc_.close()
            running[idx] = (p, pc_, time.time())
        progressed = False
        for idx, (p, conn, ts) in list(running.items()):
            u = units[idx]
            r = None
            if conn.poll():
                try:
                    r = conn.recv()
                except (EOFError, OSError):
                    r = _dead(u, 'harness error: worker died without a result')
            elif not p.is_alive():
                r = _dead(u, 'harness error: worker died without a result (exit code %s)' % p.exitcode)
            elif time.time() - ts > u.timeout_s + 120:
                p.kill()
                r = _dead(u, 'inconclusive: worker time cap (%ds)' % (u.timeout_s + 120))
            if r is not None:
                p.join(timeout=5)
                if p.is_alive():
                    p.kill()
                conn.close()
                done[idx] = r
                del running[idx]
                progressed = True
        if not progressed:
            time.sleep(0.05)
    results = [done[i_] for i_ in sel]
    return finish(prop, mod, tier, seed, units, results, time.time() - t0)


def do_replay(prop, mod, path, tier, seed):
    cex = json.load(open(path))
    units = _with_histories(prop, mod.units(cex.get('tier', tier), cex.get('seed', seed)))
    u = [x for x in units if x.name == cex['unit']]
    if not u:
        print('replay: unit %s not found' % cex['unit'])
        return 3
    if hasattr(mod, 'concrete_setup'):
        mod.concrete_setup()
    r = run_unit_concrete(u[0], cex['values'])
    print(json.dumps(r, default=str))
    print('REPRODUCED' if r['reproduced'] else 'NOT-REPRODUCED')
    return 1 if r['reproduced'] else 0


def finish(prop, mod, tier, seed, units, results, wall):
    known = [k for k in load_known_findings() if k.get('property') == prop and k.get('kind') == 'known']
    os.makedirs(os.path.join(VERIF, 'replay'), exist_ok=True)
    os.makedirs(os.path.join(VERIF, 'evidence'), exist_ok=True)
    violations = []
    known_hits = []
    inconclusive = []
    stretch_inconclusive = []
    probes_clean = []
    nprobes = [0]
    for r in results:
        if r['error']:
            (stretch_inconclusive if r['stretch'] else inconclusive).append('%s: %s' % (r['unit'], r['error']))
        for uk in r['unknown']:
            (stretch_inconclusive if r['stretch'] else inconclusive).append(
                '%s: %s: solver unknown (%s)' % (r['unit'], uk['label'], uk['reason']))
        ordered = [c_ for c_ in r['cex'] if not c_.get('probe')] + [c_ for c_ in r['cex'] if c_.get('probe')]
        for ci, cex in enumerate(ordered):
            if cex.get('probe'):
                if nprobes[0] >= 8 or sum(1 for c_ in ordered[:ci] if c_.get('probe')) >= 1:
                    continue  # float probes: one per unit, eight per run; they never use up the counterexample budget
                nprobes[0] += 1
            elif ci >= 2 or len(violations) + len(known_hits) >= 12:
                continue  # replay at most two counterexamples per unit / a dozen per run (they are sequential)
            cex['tier'] = tier
            cex['seed'] = seed
            cex['property'] = prop
            h = hashlib.sha256(json.dumps(cex, sort_keys=True).encode()).hexdigest()[:10]
            path = os.path.join(VERIF, 'replay', '%s-%s.json' % (prop, h))
            json.dump(cex, open(path, 'w'), indent=1)
            # replay against the real code in a fresh interpreter (no shims)
            p = subprocess.run([sys.executable, os.path.join(VERIF, 'check.py'), prop, '--replay', path],
                               capture_output=True, text=True, timeout=600)
            reproduced = 'REPRODUCED' in p.stdout.split('\n') or p.stdout.strip().endswith('\nREPRODUCED') \
                or p.stdout.strip() == 'REPRODUCED' or '\nREPRODUCED' in p.stdout
            if 'NOT-REPRODUCED' in p.stdout:
                reproduced = False
            cex['replay_stdout'] = p.stdout[-1500:]
            cex['replay_stderr'] = p.stderr[-800:]
            json.dump(cex, open(path, 'w'), indent=1)
            if reproduced:
                kf = [k for k in known if k.get('unit_prefix') and cex['unit'].startswith(k['unit_prefix'])
                      and (not k.get('label_contains') or k['label_contains'] in cex['label'])]
                if kf:
                    known_hits.append((kf[0], cex, path))
                else:
                    violations.append((cex, path))
            elif cex.get('probe'):
                # a float-semantics probe (env.fail(..., hard=True), e.g. "a divisor is zero on this path"): whether the
                # float code actually fails there is decided by this replay alone; no failure = nothing to report
                probes_clean.append('%s: %s' % (r['unit'], cex['label']))
            else:
                inconclusive.append('%s: %s: counterexample did not reproduce on the real code (encoding error?) see %s'
                                    % (r['unit'], cex['label'], path))
    tot = lambda k: sum(r[k] for r in results)
    samples = []
    for r in results:
        for s in r['samples']:
            if len(samples) < 8:
                samples.append(dict(unit=r['unit'], **s))
    if not samples:
        samples = [dict(unit=r['unit'], params=r['params'], obligations=r['obligations']) for r in results[:5]]
    meta = mod.META
    ev = dict(
        property_id=prop, tier=tier, seed=seed, level='other', wall_s=round(wall, 2),
        violations=len(violations),
        coverage=dict(
            explanation=meta['explanation'],
            technique='symbolic execution of the real code (Python on numpy object arrays of z3 reals; '
                      'C via clang LLVM-IR interpreter) + z3 SMT; unsat = holds for every value within the bounds',
            functions_encoded=meta.get('functions', []),
            source_hashes=source_hashes(meta.get('files', [])),
            bounds=meta.get('bounds', {}).get(tier, meta.get('bounds', {})),
            outside_claim=meta.get('outside', []),
            stubs=meta.get('stubs', []),
            units=len(results),
            paths=tot('paths'), raised_paths=tot('raised_paths'),
            obligations=tot('obligations'), discharged=tot('discharged'),
            discharged_syntactically=tot('syntactic'),
            solver_queries=tot('queries'), feasibility_queries=tot('feas_queries'),
            solver_seconds=round(tot('solver_s'), 2),
            sat=sum(len(r['cex']) for r in results),
            unknown=sum(len(r['unknown']) for r in results),
            inconclusive=inconclusive[:20], stretch_inconclusive=stretch_inconclusive[:20],
            known_findings=[k['text'] for k, _, _ in known_hits],
            float_probes_replayed_without_failure=probes_clean[:20],
            paths_with_zero_divisor_preconditions_dropped=sum(r.get('paths_with_zero_divisor_preconditions_dropped', 0)
                                                              for r in results),
            evaluations=max(1, tot('obligations')),
            distinct_nontrivial=tot('distinct'),
            rule='one evaluation = one obligation (pre ∧ path ∧ ¬claim) decided by z3; distinct_nontrivial counts '
                 'obligations with structurally distinct terms that needed a solver query (not closed syntactically)',
            samples=samples,
            per_unit=[dict(unit=r['unit'], paths=r['paths'], obligations=r['obligations'],
                           discharged=r['discharged'], wall_s=r['wall_s'], error=r['error']) for r in results],
            exhaustive=False,
        ),
        assumptions=meta.get('assumptions', []),
    )
    evdir = os.path.join(VERIF, 'evidence')
    if os.path.realpath(REPO) != '/repo':
        # runs against a scratch copy of the repository (seeded changes, self-tests) must not overwrite the evidence
        evdir = os.path.join('/tmp', 'verif_evidence_scratch')
        os.makedirs(evdir, exist_ok=True)
    json.dump(ev, open(os.path.join(evdir, '%s.json' % prop), 'w'), indent=1, default=str)
    print('%s tier=%s units=%d paths=%d obligations=%d discharged=%d sat=%d unknown=%d solver=%.1fs wall=%.1fs' % (
        prop, tier, len(results), tot('paths'), tot('obligations'), tot('discharged'),
        sum(len(r['cex']) for r in results), sum(len(r['unknown']) for r in results), tot('solver_s'), wall))
    for s in stretch_inconclusive:
        print('STRETCH-INCONCLUSIVE: ' + s.split('\n')[0])
    seen_k = set()
    for k, cex, path in known_hits:
        if k['text'] not in seen_k:
            seen_k.add(k['text'])
            print('KNOWN-FINDING: property=%s %s' % (prop, k['text']))
    if violations:
        for cex, path in violations:
            print('counterexample: unit=%s label=%s' % (cex['unit'], cex['label']))
            print('VIOLATION property=%s replay=%s' % (prop, path))
        return 1
    if inconclusive:
        for s in inconclusive:
            print('INCONCLUSIVE: ' + s)
        return 3
    return 0


def ite(env, cond, a, b):
    """if-then-else usable in obligations: z3 If in symbolic mode (no fork), Python in concrete."""
    if env.symbolic:
        if isinstance(cond, SymBool):
            return Sym(z3.If(cond.t, S.tz(a), S.tz(b)))
        return a if cond else b
    return a if bool(cond) else b
