"""Stand-ins for dadi's Cython extension modules, derived on every run from the tracked sources.

`parse_pyx` reads `/repo/dadi/*.pyx` (the Cython layer is a list of one-line marshalling
wrappers) and `make_module` builds a Python module-like object whose functions marshal their
arguments exactly as the .pyx says and call either

* the LLVM-IR interpreter (`SymBackend`) - symbolic doubles, or
* a gcc-built shared object of the *current* C sources through ctypes (`CBackend`) - float64,
  used for translator validation and for replaying counterexamples.

`<double*> X.data` is modelled as "address of the first element of the view X inside its base
buffer"; the kernel then walks that buffer contiguously (which is what the compiled code does).
"""
import ctypes
import os
import re
import subprocess
import types

import numpy as np

from . import symreal
from .symreal import Sym


class PyxFunc:
    def __init__(self, name, params, pre, calls, ret):
        self.name = name
        self.params = params      # python-level parameter names
        self.pre = pre            # [(var, size_expr)] for `cdef np.ndarray var = np.empty(size, ...)`
        self.calls = calls        # [(c_alias, [arg expr strings])]
        self.ret = ret            # returned variable name


def _split_top(s):
    out, depth, cur = [], 0, ''
    for ch in s:
        if ch in '([':
            depth += 1
        if ch in ')]':
            depth -= 1
        if ch == ',' and depth == 0:
            out.append(cur.strip())
            cur = ''
        else:
            cur += ch
    if cur.strip():
        out.append(cur.strip())
    return out


def parse_pyx(path):
    src = open(path).read()
    # strip comments
    src = '\n'.join(l.split('#')[0] for l in src.split('\n'))
    externs = {}
    for m in re.finditer(r'(\w+)\s+(\w+)\s+"(\w+)"\s*\((.*?)\)', src, re.S):
        rtype, alias, cname, params = m.groups()
        ptypes = []
        for p in _split_top(params.replace('\n', ' ')):
            p = p.strip()
            ptypes.append('double*' if '*' in p else p.split()[0])
        externs[alias] = (cname, ptypes, rtype)
    # also plain externs without alias:  double name(double x, ...)
    for m in re.finditer(r'^\s+(double|void|int)\s+(\w+)\s*\(([^"]*?)\)\s*$', src, re.M):
        rtype, cname, params = m.groups()
        if cname in externs:
            continue
        ptypes = []
        for p in _split_top(params.replace('\n', ' ')):
            ptypes.append('double*' if '*' in p else p.split()[0])
        externs.setdefault(cname, (cname, ptypes, rtype))
    funcs = {}
    for m in re.finditer(r'^def\s+(\w+)\s*\((.*?)\)\s*:\s*\n(.*?)(?=^def\s|\Z)', src, re.S | re.M):
        name, params, body = m.groups()
        pnames = []
        for p in _split_top(params.replace('\n', ' ')):
            p = p.split('=')[0].strip()
            pnames.append(p.split()[-1])
        pre, calls, ret = [], [], None
        body1 = re.sub(r'\s*\n\s+(?=[^\n]*\))', ' ', body)  # join continuation lines (best effort)
        # robust statement splitting: accumulate until parentheses balance
        stmts, cur, depth = [], '', 0
        for line in body.split('\n'):
            if not line.strip() and depth == 0:
                continue
            cur += ' ' + line.strip()
            depth += line.count('(') - line.count(')')
            if depth == 0:
                stmts.append(cur.strip())
                cur = ''
        for st in stmts:
            mm = re.match(r'cdef\s+np\.ndarray\s+(\w+)\s*=\s*np\.empty\((.+?),\s*dtype=.*\)$', st)
            if mm:
                pre.append((mm.group(1), mm.group(2)))
                continue
            mm = re.match(r'return\s+(.+)$', st)
            if mm:
                ret = mm.group(1).strip()
                continue
            mm = re.match(r'(?:(\w+)\s*=\s*)?(\w+)\s*\((.*)\)$', st)
            if mm and mm.group(2) in externs:
                calls.append((mm.group(2), _split_top(mm.group(3)), mm.group(1)))
                continue
            raise ValueError('pyx statement not understood in %s: %r' % (name, st))
        funcs[name] = PyxFunc(name, pnames, pre, calls, ret)
    return externs, funcs


_UNINIT = object()


class SymBackend:
    """Runs C functions in the LLVM-IR interpreter."""
    symbolic = True

    def __init__(self, irmodule, flatten=False):
        self.m = irmodule
        # flatten: after every C call put the written-back values into z3's sum-of-monomials normal form, so that
        # multi-step inline runs carry flat linear forms instead of ever deeper DAGs
        self.flatten = flatten

    def empty(self, n):
        a = np.empty(int(n), dtype=object)
        a.fill(_UNINIT)
        return a

    def call(self, cname, ptypes, values):
        regions = {}
        args = []
        for ty, v in zip(ptypes, values):
            if ty == 'double*':
                args.append(self._ptr(v, regions))
            elif ty == 'double':
                args.append(Sym.lift(v))
            elif ty == 'int':
                args.append(int(v))
            else:
                raise NotImplementedError(ty)
        r = self.m.call(cname, args)
        for (flat, reg) in regions.values():
            for i in range(flat.shape[0]):
                if 8 * i in reg.cells:
                    v = reg.cells[8 * i]
                    if self.flatten and reg.writes and isinstance(v, Sym) and v.c is None:
                        import z3
                        v = Sym(z3.simplify(v.t, som=True, sort_sums=True))
                    flat[i] = v
        return r

    def _ptr(self, x, regions):
        from .llir import Region, Ptr
        if not isinstance(x, np.ndarray):
            raise TypeError('Argument has incorrect type (expected numpy.ndarray, got %s)' % type(x).__name__)
        if isinstance(x, np.ma.MaskedArray):
            x = x.data if isinstance(x.data, np.ndarray) else np.asarray(x)
        if x.dtype != object:
            raise symreal.Realised('non-object array of dtype %s handed to a symbolic kernel' % x.dtype)
        base = x
        while isinstance(base.base, np.ndarray):
            base = base.base
        key = id(base)
        if key not in regions:
            flat = base.ravel(order='K')
            if not np.shares_memory(flat, base):
                raise RuntimeError('base buffer is not contiguous in memory')
            reg = Region('np%x' % (key & 0xffff), 8 * flat.shape[0])
            for i in range(flat.shape[0]):
                v = flat[i]
                if v is not _UNINIT:
                    reg.cells[8 * i] = Sym.lift(v)
            regions[key] = (flat, reg)
        flat, reg = regions[key]
        off = x.__array_interface__['data'][0] - flat.__array_interface__['data'][0]
        return Ptr(reg, off)


class CBackend:
    """Calls a gcc-built shared object of the current C sources through ctypes (float64)."""
    symbolic = False

    def __init__(self, libpath):
        self.lib = ctypes.CDLL(libpath)

    def empty(self, n):
        return np.empty(int(n), dtype=np.float64)

    def call(self, cname, ptypes, values, rtype='void'):
        f = getattr(self.lib, cname)
        cargs = []
        keep = []
        for ty, v in zip(ptypes, values):
            if ty == 'double*':
                if not isinstance(v, np.ndarray):
                    raise TypeError('expected numpy.ndarray')
                if v.dtype != np.float64:
                    raise TypeError('float64 array required, got %s' % v.dtype)
                keep.append(v)
                cargs.append(ctypes.c_void_p(v.ctypes.data))
            elif ty == 'double':
                cargs.append(ctypes.c_double(float(v)))
            elif ty == 'int':
                cargs.append(ctypes.c_int(int(v)))
            else:
                raise NotImplementedError(ty)
        f.restype = ctypes.c_double if rtype == 'double' else None
        return f(*cargs)


def make_module(name, pyxpath, backend):
    externs, funcs = parse_pyx(pyxpath)
    mod = types.SimpleNamespace()
    mod.__name__ = name
    mod._externs = externs
    mod._funcs = funcs
    mod._backend = backend
    mod._log = []

    def mk(pf):
        def f(*args, **kw):
            if len(args) + len(kw) != len(pf.params):
                raise TypeError('%s() takes exactly %d positional arguments (%d given)'
                                % (pf.name, len(pf.params), len(args) + len(kw)))
            env = dict(zip(pf.params, args))
            env.update(kw)
            for var, size in pf.pre:
                env[var] = backend.empty(eval(size, {}, env))
            res = None
            for alias, cargs, target in pf.calls:
                cname, ptypes, rtype = externs[alias]
                vals = []
                for e, ty in zip(cargs, ptypes):
                    mm = re.match(r'<\s*double\s*\*\s*>\s*(\w+)\.data$', e)
                    if mm:
                        vals.append(env[mm.group(1)])
                    else:
                        vals.append(eval(e, {}, env))
                if len(cargs) != len(ptypes):
                    raise TypeError('%s: %d C arguments for %d parameters' % (cname, len(cargs), len(ptypes)))
                mod._log.append(cname)
                if backend.symbolic:
                    res = backend.call(cname, ptypes, vals)
                else:
                    res = backend.call(cname, ptypes, vals, rtype)
                if target:
                    env[target] = res
            if pf.ret is None:
                return None
            return eval(pf.ret, {}, env)
        f.__name__ = pf.name
        return f
    for n, pf in funcs.items():
        setattr(mod, n, mk(pf))
    return mod


KERNEL_C = ['tridiag.c', 'integration_shared.c', 'integration1D.c', 'integration2D.c',
            'integration3D.c', 'integration4D.c', 'integration5D.c']


def build_clib(repo=None, outdir='/verif/.build', extra=()):
    repo = repo or os.environ.get('DADI_REPO', '/repo')
    os.makedirs(outdir, exist_ok=True)
    out = os.path.join(outdir, 'libdadi_c_%d.so' % os.getpid())
    srcs = [os.path.join(repo, 'dadi', f) for f in KERNEL_C] + list(extra)
    subprocess.run(['gcc', '-O1', '-ffp-contract=off', '-shared', '-fPIC', '-o', out] + srcs +
                   ['-I', os.path.join(repo, 'dadi'), '-lm'], check=True, capture_output=True)
    return out


def load_ir(repo=None, files=None):
    from . import llir
    repo = repo or os.environ.get('DADI_REPO', '/repo')
    m = llir.Module()
    d = os.path.join(repo, 'dadi')
    m.load_c([os.path.join(d, f) for f in (files or KERNEL_C)], [d])
    return m
