"""Harness-side environment for symbolic runs: module-global substitution only, no repo edits.

`install_numpy(mod)` replaces the module's `numpy` / `np` global by a pass-through shim whose
array constructors produce object arrays (so `Sym` values can be stored into them) and whose
float-only predicates have exact meanings on `Sym`.
"""
import inspect

import numpy as _np
import z3

from . import symreal as S
from .symreal import Sym, SymBool


def _has_sym(x):
    if isinstance(x, Sym):
        return True
    if isinstance(x, _np.ndarray):
        return x.dtype == object
    if isinstance(x, (list, tuple)):
        return any(_has_sym(e) for e in x)
    return False


def objzeros(shape, fill=0):
    a = _np.empty(shape, dtype=object)
    a.fill(fill)
    return a


class _Float64Meta(type):
    def __instancecheck__(cls, inst):
        return isinstance(inst, _np.float64)


class Float64Shim(metaclass=_Float64Meta):
    """numpy.float64 stand-in: identity on Sym, float64 otherwise; usable as dtype (-> object)."""
    def __new__(cls, x=0.0):
        if isinstance(x, Sym):
            return x
        return _np.float64(x)


class NumpyShim:
    def __init__(self, real=_np, overrides=None):
        object.__setattr__(self, '_r', real)
        object.__setattr__(self, '_o', overrides or {})
        object.__setattr__(self, 'ma', MaShim(real.ma)) if real is _np else None

    def __getattr__(self, k):
        o = object.__getattribute__(self, '_o')
        if k in o:
            return o[k]
        return getattr(object.__getattribute__(self, '_r'), k)

    float64 = Float64Shim

    @staticmethod
    def _dt(dtype):
        if dtype is None or dtype is float or dtype is _np.float64 or dtype is Float64Shim \
                or dtype == 'float' or dtype == 'd' or dtype == _np.dtype('float64') or dtype is _np.double:
            return object
        return dtype

    def zeros(self, shape, dtype=None, **kw):
        dt = self._dt(dtype)
        if dt is object:
            return objzeros(shape, 0)
        return _np.zeros(shape, dtype=dt, **kw)

    def ones(self, shape, dtype=None, **kw):
        dt = self._dt(dtype)
        if dt is object:
            return objzeros(shape, 1)
        return _np.ones(shape, dtype=dt, **kw)

    def empty(self, shape, dtype=None, **kw):
        dt = self._dt(dtype)
        if dt is object:
            return objzeros(shape, 0)
        return _np.empty(shape, dtype=dt, **kw)

    def zeros_like(self, a, dtype=None, **kw):
        if dtype is None and isinstance(a, _np.ndarray) and a.dtype != object and a.dtype.kind != 'f':
            return _np.zeros_like(a, **kw)
        return objzeros(_np.shape(a), 0)

    def ones_like(self, a, dtype=None, **kw):
        return objzeros(_np.shape(a), 1)

    def empty_like(self, a, dtype=None, **kw):
        return objzeros(_np.shape(a), 0)

    def full(self, shape, fill_value, dtype=None, **kw):
        return objzeros(shape, fill_value)

    def array(self, obj, dtype=None, **kw):
        if dtype is not None and self._dt(dtype) is object and _has_sym(obj):
            kw.pop('copy', None)
            return _np.array(obj, dtype=object, **kw)
        if dtype is Float64Shim:
            dtype = _np.float64
        if dtype is None and _has_sym(obj):
            return _np.array(obj, dtype=object, **kw)
        return _np.array(obj, dtype=dtype, **kw)

    def asarray(self, obj, dtype=None, **kw):
        if _has_sym(obj):
            return _np.asarray(obj, dtype=object)
        if dtype is Float64Shim:
            dtype = _np.float64
        return _np.asarray(obj, dtype=dtype, **kw)

    def asfarray(self, obj, **kw):
        return self.asarray(obj)

    def ascontiguousarray(self, obj, dtype=None, **kw):
        if _has_sym(obj) and (dtype is None or self._dt(dtype) is object):
            return _np.ascontiguousarray(obj, dtype=object)
        if dtype is Float64Shim:
            dtype = _np.float64
        return _np.ascontiguousarray(obj, dtype=dtype, **kw)

    def asfortranarray(self, obj, dtype=None, **kw):
        if _has_sym(obj) and (dtype is None or self._dt(dtype) is object):
            return _np.asfortranarray(obj, dtype=object)
        if dtype is Float64Shim:
            dtype = _np.float64
        return _np.asfortranarray(obj, dtype=dtype, **kw)

    def isnan(self, x):
        if _has_sym(x):
            return _np.zeros(_np.shape(x), dtype=bool) if _np.ndim(x) else False
        return _np.isnan(x)

    def isinf(self, x):
        if _has_sym(x):
            return _np.zeros(_np.shape(x), dtype=bool) if _np.ndim(x) else False
        return _np.isinf(x)

    def isfinite(self, x):
        if _has_sym(x):
            return _np.ones(_np.shape(x), dtype=bool) if _np.ndim(x) else True
        return _np.isfinite(x)

    def allclose(self, a, b, **kw):
        if _has_sym(a) or _has_sym(b):
            return bool(_np.all(_np.asarray(a, dtype=object) == _np.asarray(b, dtype=object)))
        return _np.allclose(a, b, **kw)

    def isclose(self, a, b, **kw):
        if _has_sym(a) or _has_sym(b):
            return _np.asarray(a, dtype=object) == _np.asarray(b, dtype=object)
        return _np.isclose(a, b, **kw)

    def linspace(self, *a, **kw):
        return _np.linspace(*a, **kw)

    def dot(self, a, b):
        return _np.dot(a, b)

    def sign(self, x):
        if isinstance(x, Sym):
            if x > 0:
                return 1
            if x < 0:
                return -1
            return 0
        return _np.sign(x)


class MaShim:
    def __init__(self, real):
        object.__setattr__(self, '_r', real)

    def __getattr__(self, k):
        return getattr(object.__getattribute__(self, '_r'), k)

    def _domain(self, x, bad, fn):
        """masked unary function with a domain: entries where bad(x) holds become masked."""
        x = _np.ma.asanyarray(x)
        data = x.data
        out = _np.empty(data.shape, dtype=object)
        m = _np.ma.getmaskarray(x).copy()
        for idx in _np.ndindex(*data.shape):
            if m[idx]:
                out[idx] = 0
                continue
            v = Sym.lift(data[idx])
            if bool(bad(v)):
                m[idx] = True
                out[idx] = 0
            else:
                out[idx] = fn(v)
        res = _np.ma.masked_array(out, mask=m)
        if isinstance(x, _np.ma.MaskedArray) and type(x) is not _np.ma.MaskedArray:
            res = res.view(type(x))
            try:
                res._update_from(x)
            except Exception:
                pass
            res.mask = m
        return res

    def log(self, x):
        if _has_sym(_np.ma.getdata(x)):
            return self._domain(x, lambda v: v <= 0, lambda v: v.log())
        return _np.ma.log(x)

    def sqrt(self, x):
        if _has_sym(_np.ma.getdata(x)):
            return self._domain(x, lambda v: v < 0, lambda v: v.sqrt())
        return _np.ma.sqrt(x)

    def zeros(self, shape, dtype=None, **kw):
        return _np.ma.masked_array(objzeros(shape, 0))


_installed = []


def install_numpy(mod, overrides=None):
    shim = NumpyShim(_np, overrides)
    for name in ('numpy', 'np'):
        if hasattr(mod, name) and getattr(mod, name) is _np:
            _installed.append((mod, name, _np))
            setattr(mod, name, shim)
    return shim


def set_attr(mod, name, value):
    _installed.append((mod, name, getattr(mod, name, None)))
    setattr(mod, name, value)


def uninstall_all():
    while _installed:
        mod, name, old = _installed.pop()
        setattr(mod, name, old)


_spectrum_defaults = {}


def patch_spectrum_dtype(Spectrum):
    """Spectrum.__new__'s default dtype=float -> object (so Sym entries can be stored)."""
    if Spectrum in _spectrum_defaults:
        return
    sig = inspect.signature(Spectrum.__new__)
    names = [p for p in sig.parameters][2:]
    d = list(Spectrum.__new__.__defaults__)
    _spectrum_defaults[Spectrum] = tuple(d)
    d[names.index('dtype')] = object
    Spectrum.__new__.__defaults__ = tuple(d)
