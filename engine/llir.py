"""Interpreter for clang-14 -O0 LLVM IR of dadi's C kernels.

Integers, pointers and memory regions are concrete; `double` values are `Sym` (mathematical
reals).  Memory is bounds-, initialisation- and use-after-free-checked.  Conditional branches on
symbolic float comparisons fork through the active symreal.Executor.

The IR is regenerated from /repo's current C sources on every run (see `Module.load_c`).
"""
import fractions
import re
import struct
import subprocess

import z3

from . import symreal
from .symreal import Sym, SymBool, UF, UF2

Fr = fractions.Fraction


class IRError(Exception):
    """Memory-safety or interpretation failure inside the C code (reported by the check)."""


class Ptr:
    __slots__ = ('reg', 'off')

    def __init__(self, reg, off):
        self.reg = reg
        self.off = off

    def __repr__(self):
        return 'Ptr(%s,%d)' % (self.reg.name, self.off)

    def __eq__(self, o):
        return isinstance(o, Ptr) and o.reg is self.reg and o.off == self.off

    def __hash__(self):
        return hash((id(self.reg), self.off))


NULL = None


class Region:
    __slots__ = ('name', 'size', 'cells', 'freed', 'writes')

    def __init__(self, name, size):
        self.name = name
        self.size = size
        self.cells = {}
        self.freed = False
        self.writes = 0


class Func:
    def __init__(self, name, params, blocks, order):
        self.name = name
        self.params = params
        self.blocks = blocks
        self.entry = order[0]


TYSZ = {'i1': 1, 'i8': 1, 'i32': 4, 'i64': 8, 'double': 8, 'float': 4}


def tysize(ty):
    ty = ty.strip()
    if ty.endswith('*'):
        return 8
    m = re.match(r'\[(\d+) x (.+)\]$', ty)
    if m:
        return int(m.group(1)) * tysize(m.group(2))
    return TYSZ[ty]


def split_args(s):
    out = []
    depth = 0
    cur = ''
    for ch in s:
        if ch in '([{':
            depth += 1
        if ch in ')]}':
            depth -= 1
        if ch == ',' and depth == 0:
            out.append(cur.strip())
            cur = ''
        else:
            cur += ch
    if cur.strip():
        out.append(cur.strip())
    return out


def c_to_ir(path, incdirs=(), extra=()):
    cmd = ['clang-14', '-O0', '-S', '-emit-llvm', '-ffp-contract=off']
    for d in incdirs:
        cmd += ['-I', d]
    cmd += list(extra) + [path, '-o', '-']
    return subprocess.run(cmd, check=True, capture_output=True, text=True).stdout


def _dbl(tok):
    if tok.startswith('0x'):
        f = struct.unpack('>d', bytes.fromhex(tok[2:].rjust(16, '0')))[0]
    else:
        f = float(tok)
    return Sym(c=Fr(f))


class Module:
    def __init__(self):
        self.funcs = {}
        self.globals = {}
        self.hooks = {}
        self.ninstr = 0
        self.ncalls = {}
        self.sources = []

    def load_c(self, paths, incdirs=()):
        for p in paths:
            self.sources.append(p)
            self.parse(c_to_ir(p, incdirs))

    def parse(self, text):
        lines = text.split('\n')
        i = 0
        while i < len(lines):
            ln = lines[i]
            m = re.match(r'^@([\w.]+) = (?:[\w_]+ )*(?:global|constant) (.+?) (\S+), align', ln)
            if m and not ln.startswith('@.str'):
                name, ty, init = '@' + m.group(1), m.group(2), m.group(3)
                r = Region(name, tysize(ty) if not ty.startswith('[') else tysize(ty))
                if init == 'null':
                    r.cells[0] = NULL
                elif ty == 'double':
                    r.cells[0] = _dbl(init)
                elif ty in ('i32', 'i64'):
                    r.cells[0] = int(init)
                elif init == 'zeroinitializer':
                    pass
                self.globals[name] = Ptr(r, 0)
            else:
                m = re.match(r'^@([\w.]+) = .*constant \[(\d+) x double\] \[(.*)\], align', ln)
                if m:
                    name = '@' + m.group(1)
                    n = int(m.group(2))
                    r = Region(name, 8 * n)
                    for k, item in enumerate(split_args(m.group(3))):
                        r.cells[8 * k] = _dbl(item.split()[-1])
                    self.globals[name] = Ptr(r, 0)
            m = re.match(r'^define .*?@([\w.]+)\((.*)\) .*\{', ln)
            if m:
                name = m.group(1)
                params = [a.split()[-1] for a in split_args(m.group(2))] if m.group(2).strip() else []
                blocks = {}
                order = []
                cur = '%' + str(len(params))  # clang numbers the implicit entry block after the params
                blocks[cur] = []
                order.append(cur)
                i += 1
                first = True
                while lines[i] != '}':
                    raw = lines[i]
                    l = raw.split(' ; ')[0].rstrip() if not raw.lstrip().startswith(';') else ''
                    l = re.sub(r', !\S+ !\d+', '', l)
                    lm = re.match(r'^(\d+|[\w.]+):', l)
                    if lm:
                        cur = '%' + lm.group(1)
                        blocks[cur] = []
                        order.append(cur)
                    elif l.strip():
                        if first:
                            # unnamed entry block label = number of params
                            first = False
                        blocks[cur].append(l.strip())
                    i += 1
                # clang names the entry block implicitly %N where N = number of unnamed values
                fn = Func(name, params, blocks, order)
                self.funcs[name] = fn
            i += 1

    # ---- memory
    def malloc(self, nbytes, name='heap'):
        return Ptr(Region(name, int(nbytes)), 0)

    def load(self, p, ty):
        if p is None:
            raise IRError('null dereference (load)')
        if p.reg.freed:
            raise IRError('use after free (load) %r' % p)
        if not (0 <= p.off and p.off + tysize(ty) <= p.reg.size):
            raise IRError('out-of-bounds load %r %s (region size %d)' % (p, ty, p.reg.size))
        if p.off not in p.reg.cells:
            raise IRError('uninitialised read %r' % p)
        return p.reg.cells[p.off]

    def store(self, p, v, ty):
        if p is None:
            raise IRError('null dereference (store)')
        if p.reg.freed:
            raise IRError('use after free (store) %r' % p)
        if not (0 <= p.off and p.off + tysize(ty) <= p.reg.size):
            raise IRError('out-of-bounds store %r %s (region size %d)' % (p, ty, p.reg.size))
        p.reg.cells[p.off] = v
        p.reg.writes += 1

    # ---- calls
    def call(self, name, args):
        self.ncalls[name] = self.ncalls.get(name, 0) + 1
        if name in self.hooks:
            return self.hooks[name](self, *args)
        if name in self.funcs:
            return self.run(self.funcs[name], args)
        return self.external(name, args)

    def external(self, name, args):
        if name == 'malloc':
            return self.malloc(args[0])
        if name == 'free':
            if args[0] is not None:
                if args[0].reg.freed:
                    raise IRError('double free')
                args[0].reg.freed = True
            return None
        if name in ('exp', 'log', 'sqrt', 'sin', 'cos', 'log10'):
            return getattr(Sym.lift(args[0]), name)()
        if name in ('fabs', 'llvm.fabs.f64'):
            return abs(Sym.lift(args[0]))
        if name == 'expm1':      # exp(x) - 1 (real-number semantics; its round-off advantage is outside the model)
            return Sym.lift(self.call('exp', [args[0]])) - 1      # through a hooked exp, if any
        if name == 'log1p':
            return (Sym.lift(args[0]) + 1).log()
        if name in ('fmax', 'llvm.maxnum.f64'):
            a, b = Sym.lift(args[0]), Sym.lift(args[1])
            return a if a >= b else b
        if name in ('fmin', 'llvm.minnum.f64'):
            a, b = Sym.lift(args[0]), Sym.lift(args[1])
            return a if a <= b else b
        if name == 'lgamma':
            return Sym(UF['LGAMMA'](Sym.lift(args[0]).t))
        if name == 'pow':
            return Sym.lift(args[0]) ** Sym.lift(args[1])
        if name == 'llvm.fmuladd.f64':
            return args[0] * args[1] + args[2]
        if name.startswith('llvm.memcpy'):
            dst, src, n = args[0], args[1], args[2]
            for off in range(0, n, 8):
                dst.reg.cells[dst.off + off] = src.reg.cells[src.off + off]
            return None
        if name.startswith('llvm.memset'):
            return None
        if name in ('printf', 'fprintf', 'puts'):
            return 0
        raise NotImplementedError('external function %s' % name)

    def val(self, env, tok, ty=None):
        tok = tok.strip()
        if tok.startswith('%'):
            return env[tok]
        if tok.startswith('@'):
            return self.globals[tok]
        if tok == 'null':
            return NULL
        if tok in ('true', 'false'):
            return tok == 'true'
        if tok == 'undef':
            return None
        if ty in ('double', 'float'):
            return _dbl(tok)
        return int(tok)

    def run(self, fn, args):
        env = dict(zip(fn.params, args))
        bb = fn.entry
        prev = None
        while True:
            for ins in fn.blocks[bb]:
                self.ninstr += 1
                m = re.match(r'^(%[\w.]+) = (.*)$', ins)
                dst, rhs = (m.group(1), m.group(2)) if m else (None, ins)
                op = rhs.split()[0]
                if op == 'alloca':
                    ty = rhs[len('alloca '):].split(', align')[0].split(',')[0] if not rhs[7:].startswith('[') \
                        else re.match(r'alloca (\[.*?\])', rhs).group(1)
                    env[dst] = self.malloc(tysize(ty), 'stack')
                elif op == 'load':
                    mm = re.match(r'load (?:volatile )?(.+?), (.+?) (\S+), align', rhs)
                    env[dst] = self.load(self.val(env, mm.group(3)), mm.group(1))
                elif op == 'store':
                    mm = re.match(r'store (?:volatile )?(.+?) (\S+), (.+?) (\S+), align', rhs)
                    self.store(self.val(env, mm.group(4)), self.val(env, mm.group(2), mm.group(1)), mm.group(1))
                elif op == 'getelementptr':
                    mm = re.match(r'getelementptr (?:inbounds )?(.+?), (.+?) (\S+), (.*)$', rhs)
                    base = self.val(env, mm.group(3))
                    ty = mm.group(1)
                    idxs = [a.split()[-1] for a in split_args(mm.group(4))]
                    off = base.off + self.val(env, idxs[0]) * tysize(ty)
                    for ix in idxs[1:]:
                        am = re.match(r'\[(\d+) x (.+)\]$', ty)
                        ty = am.group(2)
                        off += self.val(env, ix) * tysize(ty)
                    env[dst] = Ptr(base.reg, off)
                elif op in ('sext', 'zext', 'bitcast', 'trunc'):
                    mm = re.match(r'\w+ (.+?) (\S+) to (.+)$', rhs)
                    v = self.val(env, mm.group(2))
                    if isinstance(v, SymBool):
                        # a symbolic i1 widened to an integer (C: `int flag = (a == 0) && (b == 0);`): decide it here
                        # (forks the path) - an integer register never holds a symbolic boolean
                        v = bool(v)
                    if op == 'zext' and isinstance(v, bool):
                        v = int(v)
                    elif op == 'sext' and isinstance(v, bool):
                        v = -int(v)
                    env[dst] = v
                elif op == 'sitofp':
                    mm = re.match(r'\w+ (.+?) (\S+) to (.+)$', rhs)
                    env[dst] = Sym(c=Fr(int(self.val(env, mm.group(2)))))
                elif op == 'fpext' or op == 'fptrunc':
                    mm = re.match(r'\w+ (.+?) (\S+) to (.+)$', rhs)
                    env[dst] = self.val(env, mm.group(2), 'double')
                elif op in ('add', 'sub', 'mul', 'sdiv', 'srem'):
                    mm = re.match(r'\w+ (?:nsw |nuw )*(\S+) (\S+), (\S+)$', rhs)
                    a = self.val(env, mm.group(2))
                    b = self.val(env, mm.group(3))
                    if op == 'add':
                        r = a + b
                    elif op == 'sub':
                        r = a - b
                    elif op == 'mul':
                        r = a * b
                    elif op == 'sdiv':
                        r = int(Fr(a, b).__trunc__())
                    else:
                        r = a - b * int(Fr(a, b).__trunc__())
                    bits = int(mm.group(1)[1:])
                    if not (-(1 << (bits - 1)) <= r < (1 << (bits - 1))):
                        raise IRError('signed integer overflow in %s' % ins)
                    env[dst] = r
                elif op in ('fadd', 'fsub', 'fmul', 'fdiv'):
                    mm = re.match(r'\w+ (?:\w+ )*?(double|float) (\S+), (\S+)$', rhs)
                    a = self.val(env, mm.group(2), 'double')
                    b = self.val(env, mm.group(3), 'double')
                    if op == 'fadd':
                        env[dst] = a + b
                    elif op == 'fsub':
                        env[dst] = a - b
                    elif op == 'fmul':
                        env[dst] = a * b
                    else:
                        env[dst] = a / b
                elif op == 'fneg':
                    mm = re.match(r'fneg (?:\w+ )*?(double|float) (\S+)$', rhs)
                    env[dst] = -self.val(env, mm.group(2), 'double')
                elif op == 'icmp':
                    mm = re.match(r'icmp (\w+) (\S+) (\S+), (\S+)$', rhs)
                    a = self.val(env, mm.group(3))
                    b = self.val(env, mm.group(4))
                    if isinstance(a, SymBool):
                        a = bool(a)
                    if isinstance(b, SymBool):
                        b = bool(b)
                    p = mm.group(1)
                    if p == 'eq':
                        env[dst] = a == b
                    elif p == 'ne':
                        env[dst] = a != b
                    else:
                        env[dst] = {'slt': a < b, 'sle': a <= b, 'sgt': a > b, 'sge': a >= b}[p]
                elif op == 'fcmp':
                    mm = re.match(r'fcmp (\w+) (\S+) (\S+), (\S+)$', rhs)
                    a = self.val(env, mm.group(3), 'double')
                    b = self.val(env, mm.group(4), 'double')
                    p = mm.group(1)
                    # real-valued model: no NaN, ordered/unordered predicates coincide
                    if p in ('oeq', 'ueq'):
                        r = a == b
                    elif p in ('une', 'one'):
                        r = a != b
                    elif p in ('olt', 'ult'):
                        r = a < b
                    elif p in ('ole', 'ule'):
                        r = a <= b
                    elif p in ('ogt', 'ugt'):
                        r = a > b
                    elif p in ('oge', 'uge'):
                        r = a >= b
                    else:
                        raise NotImplementedError(ins)
                    env[dst] = r
                elif op in ('and', 'or', 'xor'):
                    mm = re.match(r'\w+ (\S+) (\S+), (\S+)$', rhs)
                    a = self.val(env, mm.group(2))
                    b = self.val(env, mm.group(3))
                    if isinstance(a, SymBool) or isinstance(b, SymBool):
                        sa = a if isinstance(a, SymBool) else SymBool(z3.BoolVal(bool(a)))
                        env[dst] = {'and': sa & b, 'or': sa | b}[op]
                    elif isinstance(a, bool) and isinstance(b, bool):
                        env[dst] = {'and': a and b, 'or': a or b, 'xor': a != b}[op]
                    else:
                        env[dst] = {'and': a & b, 'or': a | b, 'xor': a ^ b}[op]
                elif op == 'select':
                    mm = re.match(r'select i1 (\S+), (\S+) (\S+), (\S+) (\S+)$', rhs)
                    c = bool(self.val(env, mm.group(1)))
                    env[dst] = self.val(env, mm.group(3), mm.group(2)) if c else self.val(env, mm.group(5), mm.group(4))
                elif op == 'br':
                    mm = re.match(r'br i1 (\S+), label (\S+), label (\S+)$', rhs)
                    if mm:
                        c = bool(self.val(env, mm.group(1)))  # SymBool.__bool__ forks via Executor
                        prev, bb = bb, (mm.group(2) if c else mm.group(3))
                    else:
                        prev, bb = bb, rhs.split('label ')[1].strip()
                    break
                elif op == 'ret':
                    if rhs == 'ret void':
                        return None
                    mm = re.match(r'ret (\S+) (\S+)$', rhs)
                    return self.val(env, mm.group(2), mm.group(1))
                elif op == 'call' or rhs.startswith('tail call'):
                    mm = re.match(r'(?:tail )?call (?:\w+ )*?(?:noalias )?(.+?) (?:\(.*?\) )?@([\w.]+)\((.*)\)', rhs)
                    args_ = []
                    for a in split_args(mm.group(3)):
                        parts = a.replace('noundef ', '').replace('nonnull ', '').replace('noalias ', '').split()
                        parts = [p_ for p_ in parts if not p_.startswith('align') and not p_.isdigit() or p_ == parts[-1]]
                        args_.append(self.val(env, parts[-1], parts[0]))
                    r = self.call(mm.group(2), args_)
                    if dst:
                        env[dst] = r
                elif op == 'phi':
                    mm = re.match(r'phi (\S+) (.*)$', rhs)
                    for pair in re.findall(r'\[ (\S+), (\S+) \]', mm.group(2)):
                        if pair[1] == prev:
                            env[dst] = self.val(env, pair[0], mm.group(1))
                elif op == 'unreachable':
                    raise IRError('unreachable executed')
                else:
                    raise NotImplementedError(ins)
            else:
                raise IRError('fell off block %s in %s' % (bb, fn.name))

    # ---- marshalling helpers
    def arr_in(self, values, name='arr'):
        vals = list(values)
        p = self.malloc(8 * len(vals), name)
        for i, v in enumerate(vals):
            p.reg.cells[8 * i] = Sym.lift(v)
        p.reg.writes = 0
        return p

    def arr_out(self, p, n, off=0):
        return [p.reg.cells[p.off + 8 * (i + off)] for i in range(n)]
