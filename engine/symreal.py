"""Symbolic real scalars for running dadi's *real* Python (and, via llir, C) code symbolically.

A `Sym` is a `numbers.Real` that is either an exact rational constant (`.c`, a Fraction) or a z3
Real term (`.t`).  NumPy object arrays of `Sym` flow through dadi's own slicing / broadcasting /
masking code; only scalar arithmetic is symbolic.  A branch on a symbolic comparison
(`SymBool.__bool__`) is resolved by the active `Executor` (decision-prefix depth-first
exploration with solver feasibility checks).

Semantics: doubles are modelled as mathematical reals; float literals are taken at their exact
binary value.  Division by a symbolic term records the denominator (z3 leaves x/0 unspecified);
obligations are discharged under "recorded denominators != 0".
"""
import fractions
import math
import numbers
import time

import numpy as np
import z3

Fr = fractions.Fraction


class PathInfeasible(BaseException):
    """Raised when neither side of a branch is feasible (dead path)."""


class ExplorationLimit(BaseException):
    """Raised when a path/time cap is hit: the run is inconclusive, never a pass."""


class Realised(TypeError):
    """A symbolic value was forced to a concrete float/int: harness error, never silent."""


# --------------------------------------------------------------------------------------------
# uninterpreted transcendental functions
_RS = z3.RealSort()
UF = {name: z3.Function(name, _RS, _RS) for name in
      ('EXP', 'LOG', 'SQRT', 'LOG10', 'LGAMMA', 'SIN', 'COS', 'ARCTAN')}
UF2 = {name: z3.Function(name, _RS, _RS, _RS) for name in ('POW',)}


def _to_frac(v):
    if isinstance(v, Fr):
        return v
    if isinstance(v, (bool, np.bool_)):
        return Fr(int(v))
    if isinstance(v, (int, np.integer)):
        return Fr(int(v))
    if isinstance(v, (float, np.floating)):
        f = float(v)
        if math.isinf(f) or math.isnan(f):
            raise ValueError('non-finite float constant in symbolic run: %r' % f)
        return Fr(f)
    if isinstance(v, str):
        return Fr(v)
    raise TypeError(type(v))


def _rv(fr):
    return z3.RealVal(str(fr.numerator) + '/' + str(fr.denominator)) if fr.denominator != 1 \
        else z3.RealVal(fr.numerator)


CUR = None  # active Executor


def current():
    if CUR is None:
        raise RuntimeError('symbolic branch outside of an Executor')
    return CUR


class SymBool:
    __slots__ = ('t',)

    def __init__(self, t):
        self.t = t

    def __bool__(self):
        return current().branch(self.t)

    def _o(self, o):
        if isinstance(o, SymBool):
            return o.t
        return z3.BoolVal(bool(o))

    def __and__(self, o): return SymBool(z3.And(self.t, self._o(o)))
    __rand__ = __and__
    def __or__(self, o): return SymBool(z3.Or(self.t, self._o(o)))
    __ror__ = __or__
    def __invert__(self): return SymBool(z3.Not(self.t))
    def __repr__(self): return 'SymBool(%s)' % self.t


def _mkbool(t):
    return SymBool(t)


class Sym(numbers.Real):
    __slots__ = ('c', '_t')

    def __init__(self, t=None, c=None):
        if c is not None:
            self.c = c
            self._t = None
        else:
            if z3.is_rational_value(t):
                self.c = Fr(t.numerator_as_long(), t.denominator_as_long())
                self._t = t
            else:
                self.c = None
                self._t = t

    @property
    def t(self):
        if self._t is None:
            self._t = _rv(self.c)
        return self._t

    @property
    def is_const(self):
        return self.c is not None

    # ---- coercion
    @staticmethod
    def lift(o):
        if isinstance(o, Sym):
            return o
        return Sym(c=_to_frac(o))

    def _bin(self, o, rev, op):
        if o is np.ma.masked:  # masked in -> masked out (numpy.ma semantics)
            return np.ma.masked
        if isinstance(o, Sym):
            b = o
        else:
            try:
                b = Sym(c=_to_frac(o))
            except TypeError:
                return NotImplemented
        a = self
        if rev:
            a, b = b, a
        return op(a, b)

    @staticmethod
    def _add(a, b):
        if a.c is not None and b.c is not None:
            return Sym(c=a.c + b.c)
        if a.c is not None and a.c == 0:
            return b
        if b.c is not None and b.c == 0:
            return a
        return Sym(a.t + b.t)

    @staticmethod
    def _sub(a, b):
        if a.c is not None and b.c is not None:
            return Sym(c=a.c - b.c)
        if b.c is not None and b.c == 0:
            return a
        if a.c is not None and a.c == 0:
            return Sym(-b.t)
        return Sym(a.t - b.t)

    @staticmethod
    def _mul(a, b):
        if a.c is not None and b.c is not None:
            return Sym(c=a.c * b.c)
        for x, y in ((a, b), (b, a)):
            if x.c is not None:
                if x.c == 0:
                    return Sym(c=Fr(0))
                if x.c == 1:
                    return y
        return Sym(a.t * b.t)

    @staticmethod
    def _div(a, b):
        if b.c is not None:
            if b.c == 0:
                raise ZeroDivisionError('symbolic run divides by exact zero')
            if a.c is not None:
                return Sym(c=a.c / b.c)
            if b.c == 1:
                return a
            return Sym(a.t * _rv(1 / b.c))
        if CUR is not None:
            CUR.note_denominator(b.t)
        else:
            _LOOSE_DENOMS.append(b.t)
        if a.c is not None and a.c == 0:
            return Sym(c=Fr(0))
        return Sym(a.t / b.t)

    def __add__(s, o): return s._bin(o, False, Sym._add)
    def __radd__(s, o): return s._bin(o, True, Sym._add)
    def __sub__(s, o): return s._bin(o, False, Sym._sub)
    def __rsub__(s, o): return s._bin(o, True, Sym._sub)
    def __mul__(s, o): return s._bin(o, False, Sym._mul)
    def __rmul__(s, o): return s._bin(o, True, Sym._mul)
    def __truediv__(s, o): return s._bin(o, False, Sym._div)
    def __rtruediv__(s, o): return s._bin(o, True, Sym._div)

    def __neg__(s):
        if s.c is not None:
            return Sym(c=-s.c)
        return Sym(-s.t)

    def __pos__(s): return s

    def __abs__(s):
        if s.c is not None:
            return Sym(c=abs(s.c))
        return Sym(z3.If(s.t >= 0, s.t, -s.t))

    def __pow__(s, o, mod=None):
        if isinstance(o, Sym) and o.c is not None and o.c.denominator == 1:
            o = int(o.c)
        if isinstance(o, (float, np.floating)) and float(o) == int(o):
            o = int(o)
        if isinstance(o, (int, np.integer)):
            o = int(o)
            if s.c is not None:
                return Sym(c=s.c ** o)
            if o >= 0:
                r = Sym(c=Fr(1))
                for _ in range(o):
                    r = r * s
                return r
            return Sym(c=Fr(1)) / (s ** (-o))
        try:
            ot = Sym.lift(o)
        except TypeError:
            return NotImplemented
        return Sym(UF2['POW'](s.t, ot.t))

    def __rpow__(s, o):
        try:
            ot = Sym.lift(o)
        except TypeError:
            return NotImplemented
        return ot.__pow__(s)

    # ---- comparisons
    def _cmp(s, o, op, pyop):
        if isinstance(o, Sym):
            b = o
        else:
            try:
                b = Sym(c=_to_frac(o))
            except (TypeError, ValueError):
                return NotImplemented
        if s.c is not None and b.c is not None:
            return pyop(s.c, b.c)
        return SymBool(op(s.t, b.t))

    def __lt__(s, o): return s._cmp(o, lambda a, b: a < b, lambda a, b: a < b)
    def __le__(s, o): return s._cmp(o, lambda a, b: a <= b, lambda a, b: a <= b)
    def __gt__(s, o): return s._cmp(o, lambda a, b: a > b, lambda a, b: a > b)
    def __ge__(s, o): return s._cmp(o, lambda a, b: a >= b, lambda a, b: a >= b)
    def __eq__(s, o): return s._cmp(o, lambda a, b: a == b, lambda a, b: a == b)
    def __ne__(s, o): return s._cmp(o, lambda a, b: a != b, lambda a, b: a != b)

    def __hash__(s):
        if s.c is not None:
            return hash(s.c)
        return hash(s.t)

    def __bool__(s):
        r = (s != 0)
        return bool(r)

    # ---- realisation is an error (never a silent concretisation)
    def __float__(s):
        if s.c is not None and ALLOW_CONST_FLOAT:
            return float(s.c)
        raise Realised('symbolic value realised as float: %r' % s)

    def __int__(s):
        if s.c is not None and s.c.denominator == 1:
            return int(s.c)
        raise Realised('symbolic value realised as int: %r' % s)

    def __index__(s):
        return s.__int__()

    def __trunc__(s): return s.__int__()
    def __floor__(s): raise Realised('floor')
    def __ceil__(s): raise Realised('ceil')
    def __round__(s, n=None): raise Realised('round')
    def __floordiv__(s, o): raise Realised('floordiv')
    def __rfloordiv__(s, o): raise Realised('floordiv')
    def __mod__(s, o): raise Realised('mod')
    def __rmod__(s, o): raise Realised('mod')

    def __repr__(s):
        if s.c is not None:
            return 'Sym(%s)' % s.c
        return 'Sym(%s)' % z3.simplify(s.t)

    def conjugate(s): return s
    @property
    def real(s): return s
    @property
    def imag(s): return Sym(c=Fr(0))

    # ---- numpy object-loop entry points
    def _uf(s, name):
        return Sym(UF[name](s.t))

    def exp(s):
        if s.c is not None and s.c == 0:
            return Sym(c=Fr(1))
        return s._uf('EXP')

    def log(s):
        if s.c is not None and s.c == 1:
            return Sym(c=Fr(0))
        # axiom instance LOG(EXP(t)) = t  (valid for every real t)
        if s.c is None and z3.is_app(s.t) and s.t.decl().name() == 'EXP' and s.t.num_args() == 1:
            return Sym(s.t.arg(0))
        return s._uf('LOG')

    def log10(s):
        if s.c is not None and s.c == 1:
            return Sym(c=Fr(0))
        return s._uf('LOG10')

    def sqrt(s):
        if s.c is not None:
            n, d = s.c.numerator, s.c.denominator
            if n >= 0:
                rn, rd = math.isqrt(n), math.isqrt(d)
                if rn * rn == n and rd * rd == d:
                    return Sym(c=Fr(rn, rd))
        return s._uf('SQRT')

    def sin(s): return s._uf('SIN')
    def cos(s): return s._uf('COS')
    def arctan(s): return s._uf('ARCTAN')


ALLOW_CONST_FLOAT = False
NORMALISE_FIRST = True
_LOOSE_DENOMS = []


def R(name):
    return Sym(z3.Real(name))


def C(v):
    return Sym(c=_to_frac(v))


def symarray(name, shape):
    a = np.empty(shape, dtype=object)
    for idx in np.ndindex(*a.shape):
        a[idx] = R(name + '_' + '_'.join(map(str, idx)))
    return a


def constarray(vals):
    a = np.empty(np.shape(vals), dtype=object)
    src = np.asarray(vals, dtype=object)
    for idx in np.ndindex(*a.shape):
        a[idx] = C(src[idx])
    return a


def tz(v):
    """z3 term of a Sym / number."""
    return Sym.lift(v).t


# --------------------------------------------------------------------------------------------
class Executor:
    """Follows a decision prefix, then takes the first feasible side of new branches."""

    def __init__(self, pre=(), decisions=(), timeout_ms=20000, deadline=None):
        self.pre = list(pre)
        self.solver = z3.Solver()
        self.solver.set('timeout', timeout_ms)
        for p in self.pre:
            self.solver.add(p)
        self.decisions = list(decisions)
        self.trace = []  # (cond, taken, forced)
        self.pos = 0
        self.nqueries = 0
        self.qtime = 0.0
        self.denoms = {}
        self.deadline = deadline

    def note_denominator(self, t):
        self.denoms[t.get_id()] = t

    def feasible(self, c):
        self.solver.push()
        self.solver.add(c)
        self.nqueries += 1
        t0 = time.time()
        r = self.solver.check()
        self.qtime += time.time() - t0
        self.solver.pop()
        if r == z3.unknown:
            raise ExplorationLimit('feasibility query unknown: %s' % self.solver.reason_unknown())
        return r == z3.sat

    def assume(self, cond):
        """Add a path assumption (harness-side precondition discovered mid-run)."""
        if isinstance(cond, SymBool):
            cond = cond.t
        self.solver.add(cond)
        self.pre.append(cond)

    def branch(self, cond):
        cond = z3.simplify(cond)
        if z3.is_true(cond):
            return True
        if z3.is_false(cond):
            return False
        if self.deadline is not None and time.time() > self.deadline:
            raise ExplorationLimit('time cap during path exploration')
        if self.pos < len(self.decisions):
            taken = self.decisions[self.pos]
            forced = None
        else:
            t = self.feasible(cond)
            f = self.feasible(z3.Not(cond))
            if t and f:
                taken, forced = True, False
            elif t:
                taken, forced = True, True
            elif f:
                taken, forced = False, True
            else:
                raise PathInfeasible()
            self.decisions.append(taken)
        self.trace.append((cond, taken, forced))
        self.pos += 1
        self.solver.add(cond if taken else z3.Not(cond))
        return taken


class Raised:
    """Result of a path on which the code under test raised an ordinary exception."""

    def __init__(self, exc):
        self.exc = exc
        self.type = type(exc).__name__

    def __repr__(self):
        return 'Raised(%s: %s)' % (self.type, str(self.exc)[:120])


class Path:
    __slots__ = ('pc', 'result', 'denoms', 'nqueries', 'qtime')

    def __init__(self, pc, result, denoms, nqueries, qtime):
        self.pc = pc
        self.result = result
        self.denoms = denoms
        self.nqueries = nqueries
        self.qtime = qtime

    @property
    def raised(self):
        return isinstance(self.result, Raised)


def explore(fn, pre=(), maxpaths=2000, catch=(Exception,), timeout_s=600, query_timeout_ms=20000):
    """Run fn() along every feasible path; returns list[Path].

    Exceptions in `catch` raised by the code under test become `Raised` results (Realised is
    never caught: it is a harness error)."""
    global CUR
    stack = [[]]
    out = []
    deadline = time.time() + timeout_s
    saved = CUR
    try:
        while stack:
            dec = stack.pop()
            ex = Executor(pre, dec, timeout_ms=query_timeout_ms, deadline=deadline)
            CUR = ex
            try:
                try:
                    res = fn()
                except Realised:
                    raise
                except catch as e:  # noqa
                    res = Raised(e)
            except PathInfeasible:
                continue
            for i in range(len(dec), len(ex.trace)):
                cond, taken, forced = ex.trace[i]
                if forced is False:
                    stack.append(ex.decisions[:i] + [not taken])
            pc = [c if t else z3.Not(c) for c, t, _ in ex.trace]
            out.append(Path(pc, res, list(ex.denoms.values()), ex.nqueries, ex.qtime))
            if len(out) > maxpaths:
                raise ExplorationLimit('more than %d paths' % maxpaths)
    finally:
        CUR = saved
    return out


def run_single(fn, pre=()):
    """Run fn() expecting exactly one feasible path; returns the Path."""
    ps = explore(fn, pre=pre, maxpaths=1, catch=())
    assert len(ps) == 1
    return ps[0]


# --------------------------------------------------------------------------------------------
def collect_denominators(terms):
    """All z3 division denominators occurring in the given terms (non-constant ones)."""
    seen = set()
    dens = {}

    def walk(t):
        stack = [t]
        while stack:
            u = stack.pop()
            i = u.get_id()
            if i in seen:
                continue
            seen.add(i)
            if z3.is_app(u):
                if u.decl().kind() == z3.Z3_OP_DIV:
                    d = u.arg(1)
                    if not z3.is_rational_value(d):
                        dens[d.get_id()] = d
                stack.extend(u.children())
    for t in terms:
        walk(t)
    return list(dens.values())


def free_vars(terms):
    seen = set()
    out = {}
    stack = list(terms)
    while stack:
        u = stack.pop()
        i = u.get_id()
        if i in seen:
            continue
        seen.add(i)
        if z3.is_const(u) and u.decl().kind() == z3.Z3_OP_UNINTERPRETED:
            out[str(u)] = u
        elif z3.is_app(u):
            stack.extend(u.children())
    return out


def model_values(model, terms):
    """name -> Fraction for every free Real variable of terms under model (completed)."""
    vals = {}
    for name, v in free_vars(terms).items():
        if v.sort() != _RS:
            continue
        mv = model.eval(v, model_completion=True)
        if z3.is_rational_value(mv):
            vals[name] = Fr(mv.numerator_as_long(), mv.denominator_as_long())
        elif z3.is_algebraic_value(mv):
            ap = mv.approx(30)
            vals[name] = Fr(ap.numerator_as_long(), ap.denominator_as_long())
        else:
            vals[name] = None
    return vals


class Verdict:
    __slots__ = ('status', 'model', 'seconds', 'reason')

    def __init__(self, status, model=None, seconds=0.0, reason=''):
        self.status = status  # 'unsat' | 'sat' | 'unknown'
        self.model = model
        self.seconds = seconds
        self.reason = reason


DUMP = None   # dict(dir=..., limit=N, n=0): write the first N decided queries of this process as SMT-LIB2 (cross-check)


def _dump_query(s, r):
    import os
    try:
        os.makedirs(DUMP['dir'], exist_ok=True)
        txt = s.to_smt2()
        if len(txt) > 400000:
            return
        DUMP['n'] += 1
        with open(os.path.join(DUMP['dir'], 'q%03d_%s.smt2' % (DUMP['n'], r)), 'w') as f:
            f.write('; expected: %s\n(set-logic ALL)\n' % r)
            f.write(txt)
    except Exception:
        pass


def check_sat(constraints, timeout_ms=60000, tactic=None):
    s = z3.Solver() if tactic is None else z3.Tactic(tactic).solver()
    s.set('timeout', timeout_ms)
    for c in constraints:
        s.add(c)
    t0 = time.time()
    r = s.check()
    dt = time.time() - t0
    if DUMP is not None and DUMP['n'] < DUMP['limit'] and r != z3.unknown:
        _dump_query(s, str(r))
    if r == z3.unsat:
        return Verdict('unsat', None, dt)
    if r == z3.sat:
        m = s.model()
        # Prefer a counterexample in which no variable is exactly 0 (variables the failing claim does not constrain
        # default to 0 in z3 models, which tends to hide the effect when the counterexample is replayed on floats).
        try:
            fv = [v for v in free_vars(list(constraints)).values() if v.sort() == _RS]
            if fv and len(fv) <= 400:
                s.push()
                s.set('timeout', 3000)
                for v in fv:
                    s.add(v != 0)
                if s.check() == z3.sat:
                    m = s.model()
                s.pop()
        except z3.Z3Exception:
            pass
        return Verdict('sat', m, dt)
    return Verdict('unknown', None, dt, s.reason_unknown())


def _is_one(t):
    return z3.is_rational_value(t) and t.numerator_as_long() == 1 and t.denominator_as_long() == 1


def _m(a, b):
    if _is_one(a):
        return b
    if _is_one(b):
        return a
    return a * b


def _poly_nf(term):
    """(numerator, denominator) z3 terms without division, by structural recursion."""
    cache = {}
    one = z3.RealVal(1)

    def rec(u):
        i = u.get_id()
        if i in cache:
            return cache[i]
        r = (u, one)
        if z3.is_app(u):
            k = u.decl().kind()
            ch = u.children()
            if k == z3.Z3_OP_DIV:
                (an, ad), (bn, bd) = rec(ch[0]), rec(ch[1])
                r = (_m(an, bd), _m(ad, bn))
            elif k in (z3.Z3_OP_ADD, z3.Z3_OP_SUB):
                n, d = rec(ch[0])
                for c_ in ch[1:]:
                    cn, cd = rec(c_)
                    if z3.eq(d, cd):
                        n = n + cn if k == z3.Z3_OP_ADD else n - cn
                    else:
                        n = _m(n, cd) + _m(cn, d) if k == z3.Z3_OP_ADD else _m(n, cd) - _m(cn, d)
                        d = _m(d, cd)
                r = (n, d)
            elif k == z3.Z3_OP_MUL:
                n, d = rec(ch[0])
                for c_ in ch[1:]:
                    cn, cd = rec(c_)
                    n, d = _m(n, cn), _m(d, cd)
                r = (n, d)
            elif k == z3.Z3_OP_UMINUS:
                n, d = rec(ch[0])
                r = (-n, d)
        cache[i] = r
        return r
    return rec(term)


def eq_crossmult(lhs, rhs):
    """z3 Bool: lhs == rhs expressed without division (valid when all denominators != 0)."""
    ln, ld = _poly_nf(lhs)
    rn, rd = _poly_nf(rhs)
    return ln * rd == rn * ld


def prove(claim, pre=(), pc=(), denoms=(), timeout_ms=60000, extra_terms=()):
    """Decide pre ∧ pc ∧ denoms≠0 ⇒ claim.  Returns Verdict (unsat = holds)."""
    if isinstance(claim, SymBool):
        claim = claim.t
    elif isinstance(claim, (bool, np.bool_)):
        claim = z3.BoolVal(bool(claim))
    cs = list(pre) + list(pc)
    # Only denominators occurring in the query matter for its validity (dropping the "!= 0" hypothesis of a
    # denominator that does not occur only weakens the hypotheses): `denoms` recorded by the executor is ignored.
    dens = {}
    for d in collect_denominators([claim] + cs + list(extra_terms)):
        dens[d.get_id()] = d
    for d in dens.values():
        cs.append(d != 0)
    cs.append(z3.Not(claim))
    return check_sat(cs, timeout_ms)


def prove_eq(lhs, rhs, pre=(), pc=(), denoms=(), timeout_ms=60000, crossmult_fallback=True):
    """Decide lhs == rhs (Sym / numbers) under assumptions.  Strategy: plain encoding with a short
    budget, then the numerator/denominator (division-free) encoding, then plain with the full budget."""
    a, b = Sym.lift(lhs), Sym.lift(rhs)
    if a.c is not None and b.c is not None:
        return Verdict('unsat' if a.c == b.c else 'sat', None, 0.0, 'constants')
    if z3.eq(a.t, b.t):
        return Verdict('unsat', None, 0.0, 'syntactic')
    if not crossmult_fallback:
        return prove(a.t == b.t, pre, pc, denoms, timeout_ms)
    spent = 0.0
    # z3's rewriter first: sum-of-monomials normal form of lhs - rhs (decides linear / polynomial identities
    # without search; valid unconditionally when no division by a non-constant occurs in the terms)
    if NORMALISE_FIRST and not collect_denominators([a.t, b.t]):
        t0 = time.time()
        try:
            d = z3.simplify(a.t - b.t, som=True, sort_sums=True)
            if z3.is_rational_value(d) and d.numerator_as_long() == 0:
                return Verdict('unsat', None, time.time() - t0, 'normalised')
        except z3.Z3Exception:
            pass
        spent += time.time() - t0
    v = prove(a.t == b.t, pre, pc, denoms, min(timeout_ms, 4000))
    spent += v.seconds
    if v.status != 'unknown':
        return v
    dens = {}
    for d in collect_denominators([a.t, b.t] + list(pre) + list(pc)):
        dens[d.get_id()] = d
    cs = list(pre) + list(pc) + [d != 0 for d in dens.values()]
    cs.append(z3.Not(eq_crossmult(a.t, b.t)))
    v2 = check_sat(cs, timeout_ms)
    spent += v2.seconds
    if v2.status == 'unknown' and timeout_ms > 4000:
        v2 = prove(a.t == b.t, pre, pc, denoms, timeout_ms)
        spent += v2.seconds
    v2.seconds = spent
    return v2


def struct_pairs(a, b):
    """Decompose a == b into sufficient sub-equalities by peeling matching uninterpreted-function
    applications and divisions (congruence): returns list of (z3 term, z3 term)."""
    out = []

    def rec(x, y):
        if z3.eq(x, y):
            return
        if z3.is_app(x) and z3.is_app(y) and x.num_args() == y.num_args() and x.num_args() > 0:
            kx, ky = x.decl().kind(), y.decl().kind()
            if kx == ky and (kx == z3.Z3_OP_UNINTERPRETED and x.decl().name() == y.decl().name()
                             or kx == z3.Z3_OP_DIV):
                for cx, cy in zip(x.children(), y.children()):
                    rec(cx, cy)
                return
        out.append((x, y))
    rec(a, b)
    return out
