"""Contract treatment of the tridiagonal solver + sweep recording for dadi's per-axis kernels.

`Capture` installs hooks on the IR functions `tridiag_premalloc` / `tridiag`: each call records the
symbolic (a, b, c, r) it is handed and returns *fresh* unknowns u (named by call index), i.e. the solver is
replaced by its contract "u solves A u = r" (lemmas T1/T1' are proved separately from tridiag.c's own IR).
`SweepRecorder` wraps a pyx-derived integration_c module so that every kernel invocation (one sweep along one
axis) is recorded with its arguments, the density before/after and the tridiagonal calls made.
"""
import numpy as np

from . import symreal as S
from .symreal import Sym


class TriCall:
    __slots__ = ('k', 'n', 'a', 'b', 'c', 'r', 'u', 'fn')

    def __init__(self, k, n, a, b, c, r, u, fn):
        self.k, self.n, self.a, self.b, self.c, self.r, self.u, self.fn = k, n, a, b, c, r, u, fn


class Capture:
    def __init__(self, ir, prefix='u'):
        self.ir = ir
        self.calls = []
        self.prefix = prefix
        self.enabled = True
        self.reuse = None   # list[TriCall] of an earlier run: call k returns that run's u (justified by the
        #                     caller proving the two systems equivalent + uniqueness lemma T1')
        self.make_u = None  # optional callable(k, n) -> list[Sym] overriding the fresh unknowns
        self._saved = dict(ir.hooks)
        ir.hooks['tridiag_premalloc'] = self._mk('tridiag_premalloc')
        ir.hooks['tridiag'] = self._mk('tridiag')

    def reset(self):
        self.calls = []

    def remove(self):
        self.ir.hooks.clear()
        self.ir.hooks.update(self._saved)

    def _mk(self, fname):
        def hook(mod, a, b, c, r, u, n):
            def rd(p, lo, hi):
                out = [None] * n
                for j in range(lo, hi):
                    out[j] = mod.load(type(p)(p.reg, p.off + 8 * j), 'double')
                return out
            k = len(self.calls)
            # the real solver never reads a[0] nor c[n-1]
            av = rd(a, 1, n)
            bv = rd(b, 0, n)
            cv = rd(c, 0, n - 1)
            rv = rd(r, 0, n)
            if self.make_u is not None:
                uv = list(self.make_u(k, n))
            elif self.reuse is not None:
                if k >= len(self.reuse) or self.reuse[k].n != n:
                    raise ValueError('second run issues a different sequence of tridiagonal solves (call %d)' % k)
                uv = list(self.reuse[k].u)
            else:
                uv = [S.R('%s%d_%d' % (self.prefix, k, j)) for j in range(n)]
            for j in range(n):
                mod.store(type(u)(u.reg, u.off + 8 * j), uv[j], 'double')
            self.calls.append(TriCall(k, n, av, bv, cv, rv, uv, fname))
            return None
        return hook


class Sweep:
    __slots__ = ('kernel', 'args', 'before', 'after', 'calls')

    def __init__(self, kernel, args, before, after, calls):
        self.kernel, self.args, self.before, self.after, self.calls = kernel, args, before, after, calls

    def lines(self, axis):
        """Map every tridiagonal call to the line of the density it produced.  Returns
        list of (call, index_tuple_with_None_at_axis) or raises ValueError if the sweep did not
        write each line exactly once along `axis`."""
        ids = {}
        for cl in self.calls:
            for j, u in enumerate(cl.u):
                ids[u.t.get_id()] = (cl.k, j)
        where = {}
        for idx in np.ndindex(*self.after.shape):
            v = self.after[idx]
            key = Sym.lift(v).t.get_id() if not Sym.lift(v).is_const else None
            if key not in ids:
                raise ValueError('entry %s of the result is not an output of a tridiagonal solve' % (idx,))
            k, j = ids[key]
            if idx[axis] != j:
                raise ValueError('solve output %d of call %d landed at %s (axis %d)' % (j, k, idx, axis))
            line = tuple(None if d == axis else idx[d] for d in range(self.after.ndim))
            if where.setdefault(k, line) != line:
                raise ValueError('call %d wrote into two different lines' % k)
        if len(where) != len(self.calls) or len(set(where.values())) != len(where):
            raise ValueError('calls and lines are not in one-to-one correspondence')
        nlines = self.after.size // self.after.shape[axis]
        if len(where) != nlines:
            raise ValueError('%d lines solved, %d expected' % (len(where), nlines))
        return [(cl, where[cl.k]) for cl in self.calls]


class SweepRecorder:
    """Wraps a pyx-derived integration_c module (SymBackend) and records each kernel call."""

    def __init__(self, mod, capture):
        self._mod = mod
        self._cap = capture
        self.sweeps = []
        for name in mod._funcs:
            setattr(self, name, self._wrap(name, getattr(mod, name)))

    def _wrap(self, name, f):
        params = self._mod._funcs[name].params

        def g(*args, **kw):
            if kw:  # normalise keyword arguments into the .pyx parameter order
                args = list(args) + [kw.pop(p) for p in params[len(args):] if p in kw]
                if kw:
                    raise TypeError('%s() got unexpected keyword arguments %s' % (name, sorted(kw)))
            phi = args[0]
            before = np.array(phi, dtype=object, copy=True)
            n0 = len(self._cap.calls) if self._cap is not None else 0
            out = f(*args, **kw)
            after = np.array(out, dtype=object, copy=True)
            self.sweeps.append(Sweep(name, args, before, after, self._cap.calls[n0:] if self._cap is not None else []))
            return out
        g.__name__ = name
        return g

    def reset(self):
        self.sweeps = []
        if self._cap is not None:
            self._cap.reset()
