"""Exact special functions (ESF): stand-ins for scipy.special / math on *integer* arguments.

On integer arguments gammaln, betaln, comb, betainc, binom.pmf, factorial are (logs of) rationals.
Log-space values are carried as `LogQ(q)` = "ln q" with q an exact non-negative Fraction or +inf, so
that dadi's log-space formulas (`exp(gammaln(..) - gammaln(..))`) evaluate exactly.  Validated against
scipy on every run by `selftest()`.
"""
import math
from fractions import Fraction as Fr

import numpy as np

from .symreal import Sym, UF

INF = 'inf'


class LogQ:
    """ln(q), q in Q>=0 ∪ {+inf}."""
    __slots__ = ('q',)
    __array_priority__ = 0

    def __init__(self, q):
        self.q = q

    @staticmethod
    def _q(o):
        if isinstance(o, LogQ):
            return o.q
        if isinstance(o, (int, np.integer, float, np.floating)) and o == 0:
            return Fr(1)
        raise TypeError('LogQ combined with %r' % (o,))

    def __add__(self, o):
        try:
            b = self._q(o)
        except TypeError:
            return NotImplemented
        a = self.q
        if a == INF or b == INF:
            if a == 0 or b == 0:
                raise ArithmeticError('inf - inf in log space')
            return LogQ(INF)
        return LogQ(a * b)
    __radd__ = __add__

    def __sub__(self, o):
        try:
            b = self._q(o)
        except TypeError:
            return NotImplemented
        a = self.q
        if b == INF:
            if a == INF:
                raise ArithmeticError('inf - inf in log space')
            return LogQ(Fr(0))
        if b == 0:
            if a == 0:
                raise ArithmeticError('inf - inf in log space')
            return LogQ(INF)
        if a == INF:
            return LogQ(INF)
        return LogQ(a / b)

    def __rsub__(self, o):
        return LogQ(self._q(o)) - self

    def __neg__(self):
        return LogQ(Fr(1)) - self

    def __mul__(self, k):
        if isinstance(k, (int, np.integer)):
            k = int(k)
            if k == 0:
                return LogQ(Fr(1))
            if self.q == INF:
                return LogQ(INF if k > 0 else Fr(0))
            if self.q == 0:
                return LogQ(Fr(0) if k > 0 else INF)
            return LogQ(self.q ** k)
        return NotImplemented
    __rmul__ = __mul__

    def exp(self):
        if self.q == INF:
            raise OverflowError('exp(+inf)')
        return Sym(c=self.q)

    def __repr__(self):
        return 'ln(%s)' % (self.q,)

    def __eq__(self, o):
        return isinstance(o, LogQ) and o.q == self.q

    def __hash__(self):
        return hash(('LogQ', self.q))


def _is_int(x):
    if isinstance(x, (int, np.integer)):
        return True
    if isinstance(x, (float, np.floating)):
        return float(x) == int(x)
    if isinstance(x, Fr):
        return x.denominator == 1
    if isinstance(x, Sym):
        return x.c is not None and x.c.denominator == 1
    return False


def _int(x):
    if isinstance(x, Sym):
        return int(x.c)
    return int(x)


def _vec(f):
    def g(*args):
        if any(isinstance(a, (np.ndarray, list, tuple)) for a in args):
            bs = np.broadcast_arrays(*[np.asarray(a, dtype=object) if not isinstance(a, np.ndarray) else a for a in args])
            out = np.empty(bs[0].shape, dtype=object)
            for idx in np.ndindex(*out.shape):
                out[idx] = f(*[b[idx] for b in bs])
            return out
        return f(*args)
    g.__name__ = f.__name__
    return g


@_vec
def gammaln(x):
    if _is_int(x):
        n = _int(x)
        if n <= 0:
            return LogQ(INF)
        return LogQ(Fr(math.factorial(n - 1)))
    if isinstance(x, Sym):
        return Sym(UF['LGAMMA'](x.t))
    raise TypeError('gammaln of non-integer constant %r is outside the exact stub' % (x,))


@_vec
def betaln(a, b):
    return gammaln(a) + gammaln(b) - gammaln(a + b)


@_vec
def beta(a, b):
    return betaln(a, b).exp()


def lncomb(N, k):
    return gammaln(N + 1) - gammaln(k + 1) - gammaln(N - k + 1)


def comb(N, k, exact=False, repetition=False):
    @_vec
    def one(n, kk):
        n, kk = _int(n), _int(kk)
        if kk < 0 or kk > n or n < 0:
            return 0
        return math.comb(n, kk)
    return one(N, k)


@_vec
def factorial(n):
    return math.factorial(_int(n))


def betainc(a, b, x):
    """Regularised incomplete beta I_x(a,b) for positive integers a,b: sum_{j=a}^{a+b-1} C(n,j) x^j (1-x)^(n-j)."""
    if not (_is_int(a) and _is_int(b)):
        if isinstance(a, np.ndarray) or isinstance(b, np.ndarray):
            bs = np.broadcast_arrays(np.asarray(a, dtype=object), np.asarray(b, dtype=object), np.asarray(x, dtype=object))
            out = np.empty(bs[0].shape, dtype=object)
            for idx in np.ndindex(*out.shape):
                out[idx] = betainc(bs[0][idx], bs[1][idx], bs[2][idx])
            return out
        raise TypeError('betainc with non-integer parameters is outside the exact stub')
    a, b = _int(a), _int(b)
    n = a + b - 1

    def one(xv):
        xv = Sym.lift(xv) if not isinstance(xv, Sym) else xv
        tot = Sym(c=Fr(0))
        for j in range(a, n + 1):
            tot = tot + math.comb(n, j) * xv ** j * (1 - xv) ** (n - j)
        return tot
    if isinstance(x, np.ndarray):
        out = np.empty(x.shape, dtype=object)
        for idx in np.ndindex(*x.shape):
            out[idx] = one(x[idx])
        return out
    return one(x)


def binom_pmf(k, n, p):
    @_vec
    def one(kk, nn, pp):
        kk, nn = _int(kk), _int(nn)
        if kk < 0 or kk > nn:
            return Sym(c=Fr(0))
        pp = Sym.lift(pp)
        return math.comb(nn, kk) * pp ** kk * (1 - pp) ** (nn - kk)
    return one(k, n, p)


class MathShim:
    """`math` stand-in: exp on LogQ / Sym."""
    def __init__(self):
        self._m = math

    def __getattr__(self, k):
        return getattr(math, k)

    @staticmethod
    def exp(x):
        if isinstance(x, (LogQ, Sym)):
            return x.exp()
        return math.exp(x)

    @staticmethod
    def log(x, *a):
        if isinstance(x, Sym):
            return x.log()
        return math.log(x, *a)

    @staticmethod
    def sqrt(x):
        if isinstance(x, Sym):
            return x.sqrt()
        return math.sqrt(x)


def selftest(nmax=12):
    """Compare the stubs with scipy on their integer domain; returns number of comparisons."""
    import scipy.special as sp
    n = 0
    for a in range(1, nmax):
        v = gammaln(a)
        assert abs(math.log(v.q) - sp.gammaln(a)) < 1e-9 * max(1, abs(sp.gammaln(a)))
        n += 1
        for b in range(1, nmax - a + 1):
            for x in (Fr(1, 7), Fr(1, 2), Fr(9, 10)):
                e = betainc(a, b, x)
                assert abs(float(e.c) - sp.betainc(a, b, float(x))) < 1e-11
                n += 1
            assert abs(float(beta(a, b).c) - sp.beta(a, b)) < 1e-12 * sp.beta(a, b) + 1e-300
            n += 1
    for N in range(0, nmax):
        for k in range(-2, N + 3):
            want = sp.comb(N, k) if 0 <= k <= N else 0.0
            got = lncomb(N, k)
            gotv = 0.0 if got.q == 0 else float(got.q)
            assert abs(gotv - want) < 1e-9 * max(1.0, want), (N, k, gotv, want)
            assert comb(N, k) == int(round(want))
            n += 2
    return n
