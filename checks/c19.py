"""C19 - uncertainty machinery of dadi.Godambe.

Part 1 (exact, the core): the real hessian_elem / get_hess / get_grad are run on f(p) = c + g.p + 1/2 p^T Q p with
every coefficient, every p_i and eps symbolic; the executor enumerates the stencil regimes per parameter
(p_i = 0, p_i*eps < 1e-6 -> one-sided forward stencils with absolute step eps; otherwise central stencils with
step eps*p_i): 3^k paths.  z3 proves H = Q on every path, grad = g + Qp (central), = g + Qp + 1/2 Q_ii h_i
(forward; exact for linear f), and that every evaluation point lies on the documented stencil.

Part 2 (fragment): get_godambe / FIM_uncert / GIM_uncert / LRT_adjust / Wald_stat / score_stat are run on Poisson
models linear in their parameters with symbolic basis spectra, data, bootstraps, thetas, parameters and eps;
log / gammaln / sqrt are uninterpreted.  Obligations: assembly identities against an independent Poisson
log-likelihood + textbook stencils, the definitions of the statistics, bootstrap-order independence,
independence from earlier calls sharing the module cache, sum_chi2_ppf on scalars and arrays.
"""
import itertools
from fractions import Fraction as Fr

import numpy as np

from engine import harness as H
from engine import shims
from engine import symreal as S

META = dict(
    explanation=(
        'Part 1: Godambe.hessian_elem/get_hess/get_grad executed on numpy object arrays of z3 reals for '
        'f(p)=c+g.p+1/2 p^T Q p with all coefficients, all p_i and eps in [1e-4,1e-1] symbolic; all 3^k stencil-regime '
        'paths (p_i=0 | p_i*eps<1e-6 | central) are explored and on each z3 proves H[i][j]=Q_ij for all i,j, '
        'grad_i = g_i+(Qp)_i on central parameters and = g_i+(Qp)_i+Q_ii*h_i/2 on one-sided ones (hence exact for '
        'linear f; a separate Q=0 unit states that directly), grad exact for quadratics with two_pt_deriv_test=True, '
        'every evaluation point = p + documented offsets (forward-only with absolute step eps for zero/tiny '
        'parameters, +-eps*p_i otherwise), extra args passed through, p0 not modified, list and ndarray p0; '
        'hessian_elem directly with symbolic absolute per-parameter steps and all one_sided flag patterns. '
        'Part 2: on linear Poisson models M_i(p)=A_i+sum_j p_j B_ji with A>=0 (A=0 included; all A, B, data, bootstraps, relative thetas, p, eps '
        'symbolic within a box) the real get_godambe/FIM_uncert/GIM_uncert/LRT_adjust/Wald_stat/score_stat run through '
        'the real Inference.ll / optimal_sfs_scaling / Spectrum code; z3 proves (a) H=-FDHess[ll(data)], '
        'J=mean_b g_b g_b^T, cU=mean_b g_b with g_b=FDGrad[ll(boot_b, theta_b)], GIM=H J^-1 H against an independent '
        'Poisson log-likelihood and textbook stencils, incl. the theta augmentation of multinom=True '
        '(theta_opt=sum(data)/sum(model)); (b) the statistics equal their definitions (sqrt diag H^-1, sqrt diag '
        'GIM^-1, m/tr(J H^-1), d^T GIM d, d^T H d, cU^T J^-1 cU, cU^T H^-1 cU) for nested index sets; (c) all '
        'outputs are invariant under permutations of the bootstrap list; (d) results of call sequences sharing the '
        'module-level cache equal those of a fresh cache (changed non-nested parameters, parameters, data, grid '
        'points, eps, model function, hash-colliding callables); (e) sum_chi2_ppf returns 1-sum_d w_d CDF_d(x) '
        '(CDF_0 = [x>0]) for scalar (scalar out) and list/tuple/ndarray input (same-length array out), rejects '
        'weights not summing to 1; boot_theta_adjusts with multinom=True is rejected.'),
    functions=['dadi.Godambe.hessian_elem', 'dadi.Godambe.get_hess', 'dadi.Godambe.get_grad',
               'dadi.Godambe.get_godambe', 'dadi.Godambe.FIM_uncert', 'dadi.Godambe.GIM_uncert',
               'dadi.Godambe.LRT_adjust', 'dadi.Godambe.Wald_stat', 'dadi.Godambe.score_stat',
               'dadi.Godambe.sum_chi2_ppf', 'dadi.Inference.ll', 'dadi.Inference.ll_per_bin',
               'dadi.Inference.optimal_sfs_scaling', 'dadi.Numerics.intersect_masks', 'dadi.Spectrum_mod.Spectrum.log'],
    files=['dadi/Godambe.py', 'dadi/Inference.py', 'dadi/Spectrum_mod.py', 'dadi/Numerics.py'],
    bounds=dict(
        quick='Part 1: k=1..3 parameters (all 3^k regime paths) for get_hess, get_grad (quadratic, linear, '
              'two_pt_deriv_test), k=2 with extra args / ndarray p0; hessian_elem k=2, all (ii,jj), one_sided in '
              '{None} + all 4 flag patterns, p_i=0 forks.  Part 2: 3 unmasked bins (sample size 4), k<=2 model '
              'parameters, 2 bootstraps (3 for the permutation units, 2 of the 5 non-trivial permutations), nested '
              'index sets [0],[1],[0,1], multinom True/False, with/without relative thetas; values in the box '
              'p,f in (0,100], A in [0,100], B in [1/100,100], data/bootstraps in [0,1000], thetas in [1/10,10], eps in '
              '[1e-4,1e-1]; both stencil regimes of every positive parameter (incl. theta_opt); chi2: 1-2 points, '
              '2-3 weights, scalar/list/tuple/ndarray.',
        thorough='Part 1: k=1..5 (k=5 split by the regimes of the leading parameters: 243 paths), args/ndarray '
                 'variants k<=3, hessian_elem k=3 with all 8 flag patterns.  Part 2: as quick plus k=3 parameters '
                 '(multinom=False), 4 bins (k=2), 3 bootstraps with thetas, all 5 non-trivial permutations of 3 '
                 'bootstraps, nested sets [0,2],[2,0],[1] of 3, multinom with both nested parameters / with k=1, chi2 up '
                 'to 3 points and 4 weights.'),
    outside=['closeness of the finite-difference Fisher/Godambe quantities to the analytic closed forms '
             '(sum_i D_i B_ik B_il / M_i^2 etc.): the O(eps^2) truncation error of differencing log is an analytic '
             'fact about log, which is uninterpreted here; what is proved instead is that the code applies exactly '
             'the (separately verified exact-on-quadratics) stencils to the exact Poisson log-likelihood and '
             'assembles H, J, cU, GIM and the statistics by their definitions',
             'numerical content of log=True (derivatives w.r.t. log-parameters: exp/log of symbolic parameters); only its composition is checked (unit log-option-composition)',
             'numerical values of scipy chi2.cdf, gammaln, numpy.linalg.inv (stubbed), float round-off, singular H/J',
             'models that are not positive on the stencil points (numpy.ma masking of log), data that are all zero '
             'with multinom=True (theta_opt=0), non-pure model functions',
             'parameters k>5 (part 1); part 2: k>3, more than 4 bins, more than 3 bootstraps, multinom=True with k>2 '
             '(theta_opt regime forks with a quotient of sums time out in z3 under load)'],
    stubs=['numpy array constructors inside Godambe/Inference/Spectrum_mod/Numerics -> object arrays (engine shim)',
           'numpy.linalg.inv inside Godambe -> exact adjugate/determinant inverse for object matrices (local stub; '
           'its contract A.inv(A)=I is proved for symbolic 1x1..3x3 in unit linalg-stub-contract)',
           'scipy.special.gammaln inside Inference -> uninterpreted LGAMMA; numpy log/sqrt on Sym -> uninterpreted '
           'LOG/SQRT; scipy.stats.distributions.chi2.cdf -> uninterpreted CHI2CDF(x,d)',
           'numpy.ma.log domain test inside Spectrum.log: `model entry <= 0` is answered False without forking when '
           'the preconditions alone imply positivity (sign rules + one small query per distinct term), otherwise it '
           'forks as usual',
           'numpy.atleast_1d inside Godambe -> object ndarray whose `> 0` forks per entry and yields a boolean mask',
           'equalities between large LOG-laden terms are discharged syntactically or after generalising the '
           "oracle's H/gradient entries and remaining uninterpreted applications to fresh reals (validity of the "
           'generalisation implies the concrete claim); refutations are always confirmed by a float replay of the '
           'real code (solver values first, then deterministic generic inputs per stencil regime)'],
    assumptions=['doubles modelled as reals; the float literal 1e-6 is taken at its exact binary value',
                 'recorded denominators != 0 (eps > 0 and p_i != 0 on central paths make the step sizes non-zero; '
                 'H, J, GIM non-singular where inverted)',
                 'model functions are pure (same arguments -> same spectrum), which is what the cache relies on',
                 'CPython recycles the id of a garbage-collected closure (only relevant for detecting the stale-cache '
                 'defect fixed in 02ac0c1: units cache-stale-*)'],
)

THR = Fr(1e-6)          # the literal in Godambe.get_hess / get_grad, at its exact binary value
EPS_LO, EPS_HI = Fr(1, 10000), Fr(1, 10)
# value box of the Poisson-model units (keeps solver models and their float replays well-conditioned)
PMAX, BMIN, BMAX, DMAX = 100, Fr(1, 100), 100, 1000


def _setup():
    from dadi import Godambe
    shims.install_numpy(Godambe)


# ------------------------------------------------------------------------------------------------
# polymorphic helpers (symbolic: exact; replay: float tolerance)
def _is(env, a, b, scale=1.0):
    if env.symbolic:
        return a == b
    return abs(float(a) - float(b)) <= 1e-9 * max(1.0, abs(float(a)), abs(float(b)), abs(float(scale)))


def _or(conds):
    r = conds[0]
    for c in conds[1:]:
        r = r | c
    return r


def _quad(env, k, linear=False):
    """Symbolic test function c + g.p + 1/2 p^T Q p (Q symmetric); returns (f, c, g, Q, calls)."""
    c = env.real('c')
    g = [env.real('g%d' % i) for i in range(k)]
    Q = [[None] * k for _ in range(k)]
    for i in range(k):
        for j in range(i, k):
            Q[i][j] = Q[j][i] = (env.const(Fr(0)) if linear else env.real('q%d%d' % (i, j)))
    half = env.const(Fr(1, 2))
    calls = []

    def f(x, *args):
        if len(x) != k:
            raise ValueError('test function called with %d parameters' % len(x))
        calls.append([x[i] for i in range(k)])
        v = c
        for i in range(k):
            v = v + g[i] * x[i]
        for i in range(k):
            for j in range(k):
                v = v + half * Q[i][j] * x[i] * x[j]
        for a in args:
            v = v * a
        return v
    return f, c, g, Q, calls


def _regimes(env, p, eps):
    """Independent statement of the documented rule: one-sided iff p_i == 0 or p_i*eps < 1e-6 (absolute
    step eps), else central with step eps*p_i.  The `if`s fork exactly like the code's, so no extra paths."""
    thr = env.const(THR)
    one, h = [], []
    for pi in p:
        if pi == 0:
            one.append(True)
            h.append(eps)
        elif pi * eps < thr:
            one.append(True)
            h.append(eps)
        else:
            one.append(False)
            h.append(eps * pi)
    return one, h


def _stencil_rule(env, label, calls, p, one, h, allow2=True):
    """Every evaluation point is p + (offsets from the documented stencil): forward-only for one-sided
    parameters, +-h for central ones."""
    k = len(p)
    for n, x in enumerate(calls):
        for j in range(k):
            d = x[j] - p[j]
            sc = abs(float(p[j])) if not env.symbolic else 1
            opts = [_is(env, d, 0 * h[j], sc), _is(env, d, h[j], sc)]
            if one[j]:
                if allow2:
                    opts.append(_is(env, d, 2 * h[j], sc))
            else:
                opts.append(_is(env, d, -h[j], sc))
            env.holds('%s:call%d:coord%d' % (label, n, j), _or(opts))


def _inputs(env, k, as_array=False):
    eps = env.real('eps', lo=EPS_LO, hi=EPS_HI)
    p = [env.real('p%d' % i) for i in range(k)]
    return eps, p


# ------------------------------------------------------------------------------------------------
def hess_body(k, with_args=False, as_array=False, fixed=None):
    def body(env):
        from dadi import Godambe
        eps, p = _inputs(env, k)
        _fix(env, p, eps, fixed)
        f, c, g, Q, calls = _quad(env, k)
        args = ()
        sc = 1
        if with_args:
            s1, s2 = env.real('s1'), env.real('s2')
            args = (s1, s2)
            sc = s1 * s2
        p_in = np.array(p, dtype=object if env.symbolic else float) if as_array else list(p)
        Hm = Godambe.get_hess(f, p_in, eps, args=args)
        env.holds('shape', np.shape(Hm) == (k, k))
        one, h = _regimes(env, p, eps)
        for i in range(k):
            for j in range(k):
                env.eq('H[%d][%d]=Q' % (i, j), Hm[i][j], Q[i][j] * sc)
        _stencil_rule(env, 'stencil', calls, p, one, h)
        # the input parameter vector is not modified
        for i in range(k):
            env.holds('p0-unchanged%d' % i, _is(env, p_in[i], p[i]))
    return body


def _fix(env, p, eps, fixed):
    """Optionally pin the regime of each parameter (used to split big k into parallel units)."""
    if not fixed:
        return
    thr = env.const(THR)
    for pi, r in zip(p, fixed):
        if r == 'z':
            env.assume(pi == 0)
        elif r == 't':
            env.assume(pi != 0)
            env.assume(pi * eps < thr)
        elif r == 'c':
            env.assume(pi * eps >= thr)


def grad_body(k, linear=False, two_pt=False, fixed=None):
    def body(env):
        from dadi import Godambe
        eps, p = _inputs(env, k)
        _fix(env, p, eps, fixed)
        f, c, g, Q, calls = _quad(env, k, linear=linear)
        half = env.const(Fr(1, 2))
        old = Godambe.two_pt_deriv_test
        Godambe.two_pt_deriv_test = bool(two_pt)
        try:
            G = Godambe.get_grad(f, list(p), eps)
        finally:
            Godambe.two_pt_deriv_test = old
        env.holds('shape', np.shape(G) == (k, 1))
        one, h = _regimes(env, p, eps)
        for i in range(k):
            exact = g[i]
            for j in range(k):
                exact = exact + Q[i][j] * p[j]
            if one[i] and not two_pt:
                # forward difference of a quadratic: exact derivative + 1/2 f'' h (textbook truncation term);
                # for linear functions (Q = 0) this is the exact derivative.
                exact = exact + half * Q[i][i] * h[i]
            env.eq('grad[%d]' % i, G[i][0] if np.ndim(G) == 2 else G[i], exact)
        _stencil_rule(env, 'stencil', calls, p, one, h, allow2=two_pt)
    return body


def helem_body(k, ii, jj, pattern):
    """hessian_elem called directly: absolute per-parameter step sizes (symbolic, > 0), explicit one_sided
    flags (None = default), p symbolic (forks on p == 0)."""
    def body(env):
        from dadi import Godambe
        p = [env.real('p%d' % i) for i in range(k)]
        e = [env.real('e%d' % i, lo=0, lo_open=True) for i in range(k)]
        f, c, g, Q, calls = _quad(env, k)
        f0 = f(p)
        del calls[:]
        el = Godambe.hessian_elem(f, f0, list(p), ii, jj, list(e), args=(),
                                  one_sided=None if pattern is None else list(pattern))
        env.eq('elem=Q', el, Q[ii][jj])
        pat = [False] * k if pattern is None else pattern
        one = []
        for i in range(k):
            if i in (ii, jj):
                # central only if both involved parameters are non-zero and neither is flagged
                inv = sorted(set((ii, jj)))
                cen = True
                for a in inv:
                    if pat[a]:
                        cen = False
                    elif p[a] == 0:
                        cen = False
                one.append(not cen)
            else:
                one.append(True)
        hh = list(e)
        _stencil_rule(env, 'stencil', calls, p, one, hh)
        for n, x in enumerate(calls):
            for j in range(k):
                if j not in (ii, jj):
                    env.holds('untouched:call%d:coord%d' % (n, j), _is(env, x[j], p[j]))
    return body


# ================================================================================================
# Part 2: H / J / Godambe assembly, nested-parameter statistics, cache, mixture chi-square on Poisson
# models that are linear in their parameters.  log / gammaln / sqrt / chi2.cdf are uninterpreted.
# ================================================================================================
def _det(m):
    if len(m) == 1:
        return m[0][0]
    r = 0
    for j in range(len(m)):
        minor = [row[:j] + row[j + 1:] for row in m[1:]]
        t = m[0][j] * _det(minor)
        r = r + t if j % 2 == 0 else r - t
    return r


def _inv_exact(a):
    """Textbook adjugate / determinant inverse (exact on Sym, also fine on floats for n <= 3)."""
    a = np.asarray(a)
    n = a.shape[0]
    m = [[a[i, j] for j in range(n)] for i in range(n)]
    d = _det(m)
    out = np.empty((n, n), dtype=object)
    for i in range(n):
        for j in range(n):
            if n == 1:
                c = 1
            else:
                c = _det([row[:i] + row[i + 1:] for r_, row in enumerate(m) if r_ != j])
            out[i, j] = (c if (i + j) % 2 == 0 else -c) / d
    return out


class _Linalg:
    """numpy.linalg stand-in inside Godambe: inv of an object matrix -> exact adjugate formula."""
    def __getattr__(self, k):
        return getattr(np.linalg, k)

    def inv(self, a):
        a = np.asarray(a)
        if a.dtype != object:
            return np.linalg.inv(a)
        if a.ndim != 2 or a.shape[0] != a.shape[1]:
            raise np.linalg.LinAlgError('Last 2 dimensions of the array must be square')
        return _inv_exact(a)


def _gammaln_stub(x):
    d = np.ma.getdata(x)
    if not (isinstance(d, np.ndarray) and d.dtype == object) and not isinstance(d, S.Sym):
        from scipy.special import gammaln
        return gammaln(x)
    d = np.asarray(d, dtype=object)
    out = np.empty(d.shape, dtype=object)
    for idx in np.ndindex(*d.shape):
        out[idx] = S.Sym(S.UF['LGAMMA'](S.Sym.lift(d[idx]).t))
    if isinstance(x, np.ma.MaskedArray):
        return np.ma.masked_array(out, mask=np.ma.getmaskarray(x).copy())
    return out


_CHI2 = []


def _chi2uf():
    if not _CHI2:
        import z3
        _CHI2.append(z3.Function('CHI2CDF', z3.RealSort(), z3.RealSort(), z3.RealSort()))
    return _CHI2[0]


class _Chi2Stub:
    """scipy.stats.distributions.chi2 stand-in: cdf(x, d) -> uninterpreted CHI2CDF(x, d) entrywise."""
    def cdf(self, x, d):
        xa = np.asarray(x, dtype=object)
        out = np.empty(xa.shape, dtype=object)
        for idx in np.ndindex(*xa.shape):
            out[idx] = S.Sym(_chi2uf()(S.Sym.lift(xa[idx]).t, S.tz(d)))
        return out if xa.ndim else out[()]


class _CmpArr(np.ndarray):
    """object ndarray whose `> scalar` yields a real boolean mask (each entry's comparison forks)."""
    def __gt__(self, o):
        out = np.zeros(self.shape, dtype=bool)
        for idx in np.ndindex(*self.shape):
            out[idx] = bool(np.ndarray.__getitem__(self, idx) > o)
        return out


def _atleast_1d(x):
    a = np.atleast_1d(x)
    if a.dtype == object:
        return a.view(_CmpArr)
    return a


_POS = {}
_CURENV = [None]


def _pos_term(t, pre, sig, strict=True):
    """Sufficient test `pre => t > 0` (strict) / `t >= 0`: sign rules for products, quotients and sums, one small
    solver query (fresh solver, hypotheses = preconditions only) for anything else.  Memoised per term."""
    import z3
    key = (sig, t.get_id(), strict)
    hit = _POS.get(key)
    if hit is not None and z3.eq(hit[0], t):
        return hit[1]
    res = None
    if z3.is_rational_value(t):
        res = (t.numerator_as_long() > 0) if strict else (t.numerator_as_long() >= 0)
    elif z3.is_app(t) and t.num_args() > 0:
        kind = t.decl().kind()
        ch = t.children()
        if kind in (z3.Z3_OP_MUL, z3.Z3_OP_DIV):
            if all(_pos_term(c, pre, sig) for c in ch):
                res = True
        elif kind == z3.Z3_OP_ADD:
            # sum of non-negative terms (at least one of them positive when strict)
            pos = [_pos_term(c, pre, sig) for c in ch] if strict else [False] * len(ch)
            if all(p or _pos_term(c, pre, sig, strict=False) for p, c in zip(pos, ch)) and (any(pos) or not strict):
                res = True
    if res is None:
        sv = z3.Solver()
        sv.set('timeout', 5000)
        for c in pre:
            sv.add(c)
        for d in S.collect_denominators([t]):
            sv.add(d != 0)
        sv.add(t <= 0 if strict else t < 0)
        res = (sv.check() == z3.unsat)
    if len(_POS) > 50000:
        _POS.clear()
    _POS[key] = (t, res)
    return res


def _nonpos(v):
    """`v <= 0` for numpy.ma.log's domain test.  Shortcut for forced branches: if the preconditions alone
    imply v > 0 the answer is the constant False and nothing is added to the path solver; otherwise the
    ordinary forking comparison is returned."""
    if v.c is not None:
        return v.c <= 0
    env = _CURENV[0]
    if S.CUR is None or env is None or not env.symbolic:
        return v <= 0
    pre = list(env.pre)          # every bound / assumption declared so far (never path conditions)
    sig = hash(tuple(c.get_id() for c in pre))
    if _pos_term(v.t, pre, sig):
        return False
    return v <= 0


class _PosMa(shims.MaShim):
    def log(self, x):
        if shims._has_sym(np.ma.getdata(x)):
            return self._domain(x, _nonpos, lambda v: v.log())
        return np.ma.log(x)


def _setup_full():
    import logging
    import dadi
    import scipy.stats.distributions as ssd
    from dadi import Godambe, Inference, Spectrum_mod, Numerics
    for n in ('Inference', 'Numerics', 'Spectrum_mod'):
        logging.getLogger(n).setLevel(logging.ERROR)
    shims.install_numpy(Godambe, overrides={'linalg': _Linalg(), 'atleast_1d': _atleast_1d})
    shims.install_numpy(Inference)
    sh = shims.install_numpy(Spectrum_mod)
    object.__setattr__(sh, 'ma', _PosMa(np.ma))
    shims.install_numpy(Numerics)
    shims.patch_spectrum_dtype(dadi.Spectrum)
    shims.set_attr(Inference, 'gammaln', _gammaln_stub)
    shims.set_attr(ssd, 'chi2', _Chi2Stub())


def _clear_cache():
    from dadi import Godambe
    c = getattr(Godambe, 'cache', None)
    if hasattr(c, 'clear'):
        c.clear()


# ---- polymorphic scalar functions for the oracles
def _log(x):
    import math
    if isinstance(x, S.Sym):
        return x.log()
    return math.log(x) if x > 0 else float('nan')


def _lgam(x):
    import math
    if isinstance(x, S.Sym):
        return S.Sym(S.UF['LGAMMA'](x.t))
    return math.lgamma(x)


def _sqrt(x):
    import math
    if isinstance(x, S.Sym):
        return x.sqrt()
    return math.sqrt(x) if x >= 0 else float('nan')


_ATOMS = []          # (z3 term, fresh z3 Real) pairs: the oracle's H entries and per-bootstrap gradient entries


def _register_atoms(vals):
    import z3
    for v in vals:
        if isinstance(v, S.Sym) and v.c is None and not z3.is_const(v.t):
            if not any(z3.eq(v.t, t) for t, _ in _ATOMS):
                _ATOMS.append((v.t, z3.Real('atom%d' % len(_ATOMS))))


def _abstract(x):
    """Generalisation: every occurrence of a registered atom (a big LOG-laden term) is replaced by a fresh real.
    A claim valid for arbitrary values of the fresh reals is valid for the atoms' actual values."""
    import z3
    if not _ATOMS or x.c is not None:
        return x
    return S.Sym(z3.substitute(x.t, *_ATOMS))


_UFVARS = {}
_REFUTED = [0]


def _abstract_uf(x):
    """Replace every outermost uninterpreted application (LOG, LGAMMA, SQRT, ...) by a fresh real, the same
    one for syntactically identical applications."""
    import z3
    if x.c is not None:
        return x
    subs = []
    seen = set()
    stack = [x.t]
    while stack:
        u = stack.pop()
        i = u.get_id()
        if i in seen:
            continue
        seen.add(i)
        if z3.is_app(u):
            if u.decl().kind() == z3.Z3_OP_UNINTERPRETED and u.num_args() > 0:
                hit = _UFVARS.get(i)
                if hit is None or not z3.eq(hit[0], u):
                    hit = (u, z3.Real('uf%d' % len(_UFVARS)))
                    _UFVARS[i] = hit
                subs.append(hit)
            else:
                stack.extend(u.children())
    if not subs:
        return x
    return S.Sym(z3.substitute(x.t, *subs))


def _has_uf(t, cap=200000):
    import z3
    seen = set()
    stack = [t]
    while stack:
        u = stack.pop()
        i = u.get_id()
        if i in seen:
            continue
        seen.add(i)
        if len(seen) > cap:
            return True
        if z3.is_app(u):
            if u.decl().kind() == z3.Z3_OP_UNINTERPRETED and u.num_args() > 0:
                return True
            stack.extend(u.children())
    return False


def _pc_now():
    import z3
    ex = S.CUR
    return [c if t else z3.Not(c) for c, t, _ in ex.trace] if ex is not None else []


def _ground(t, subs):
    """Value of the z3 term t under the substitution (True / False / Fraction) or None if not ground."""
    import z3
    r = z3.simplify(z3.substitute(t, *subs))
    if z3.is_true(r):
        return True
    if z3.is_false(r):
        return False
    if z3.is_rational_value(r):
        return Fr(r.numerator_as_long(), r.denominator_as_long())
    return None


def _witness_refutes(env, x, y):
    """Pre-analysis, never a proof: look for a concrete rational point (deterministic generic inputs for each
    pattern of stencil regimes, generic values for the generalised atoms / applications) that satisfies the
    preconditions and the current path condition and at which x != y.  Returns the fixing equalities
    [var == value, ...] or None.  With those fixings the refutation query is satisfiable by construction, so the
    harness gets its counterexample at once instead of searching a large nonlinear space."""
    import z3
    names = sorted(env.vars)
    npar = len([n for n in names if n.startswith('p') and n[1:].isdigit()])
    pc = _pc_now()
    fv = S.free_vars([x, y])
    extra = [v for n, v in sorted(fv.items()) if n not in env.vars]
    for pattern in itertools.product([True, False], repeat=max(npar, 1)):
        gen = _Generic(pattern)
        subs = [(env.vars[n].t, z3.RealVal(str(Fr(gen[n])))) for n in names]
        if not all(_ground(c, subs) is True for c in list(env.pre) + pc):
            continue
        subs2 = subs + [(v, z3.RealVal(str(Fr(7 + 13 * i * i + 3 * i, 11 + i)))) for i, v in enumerate(extra)]
        if _ground(x != y, subs2) is True:
            return [v == val for v, val in subs2]
    return None


def _eq_core(env, label, a, b):
    """One non-syntactic equality a == b of the Poisson part (symbolic run), see _eqv."""
    import z3
    a2, b2 = _abstract(a), _abstract(b)
    a4, b4 = _abstract_uf(a2), _abstract_uf(b2)
    if a4.c is not None or b4.c is not None:
        env.eq(label + '~generalised', a4, b4)
        return
    fix = _witness_refutes(env, a4.t, b4.t)
    if fix is not None:
        env.eq(label + '~generalised@witness', a4, b4, pre=fix)
        return
    # z3's own normaliser (sorted sums) often makes the two sides identical, e.g. for re-ordered bootstrap sums
    a3 = S.Sym(z3.simplify(a4.t, sort_sums=True))
    b3 = S.Sym(z3.simplify(b4.t, sort_sums=True))
    if a3.c is None and b3.c is None and z3.eq(a3.t, b3.t):
        env.eq(label + '~generalised+normalised', a3, b3)
        return
    if not (_has_uf(a2.t, 20000) or _has_uf(b2.t, 20000)):
        env.eq(label + '~abstracted', a2, b2)
        return
    pc = _pc_now()
    v = S.prove_eq(a4, b4, list(env.pre), pc, (), 8000)
    if v.status == 'unsat':
        env.eq(label + '~generalised', a4, b4)
        return
    v2 = S.prove(a.t == b.t, list(env.pre), pc, (), 8000)
    if v2.status == 'unsat':
        env.holds(label, a == b)
        return
    env.eq(label + '~generalised', a4, b4)


def _eqv(env, label, a, b, struct=False, rtol=1e-3):
    """Obligation a == b: exact in the symbolic run, relative tolerance on the float replay (the code and the
    oracle both take finite differences in floats, whose round-off is ~1e-16/h^2).
    Symbolic: syntactically identical terms close at once.  Otherwise
      1. the registered atoms (oracle H / gradient entries) are replaced by fresh reals and every remaining
         outermost uninterpreted application by a fresh real (one per syntactically distinct application): a
         generalisation of the claim, so its validity implies the concrete claim;
      2. if a concrete generic point on the current path refutes the generalised claim, the obligation is
         submitted with that point fixed (satisfiable by construction -> immediate counterexample, confirmed or
         rejected by the float replay of the real code);
      3. otherwise the generalised claim is the obligation when it is free of uninterpreted applications or
         proves here; the concrete claim (one plain query, no division-free re-encoding of huge terms) when only
         that proves (congruence needed); the generalised one if neither proves (-> inconclusive, never success).
    struct=True peels matching outer SQRT(..) applications / divisions first (sufficient condition)."""
    if env.symbolic:
        import z3
        a, b = S.Sym.lift(a), S.Sym.lift(b)
        if a.c is not None or b.c is not None or z3.eq(a.t, b.t):
            env.eq(label, a, b)
            return
        if struct:
            a2, b2 = _abstract(a), _abstract(b)
            for n, (x, y) in enumerate(S.struct_pairs(a2.t, b2.t)):
                x, y = S.Sym(x), S.Sym(y)
                if x.c is not None or y.c is not None or z3.eq(x.t, y.t):
                    env.eq('%s/part%d' % (label, n), x, y)
                else:
                    _eq_core(env, '%s/part%d' % (label, n), x, y)
            return
        _eq_core(env, label, a, b)
        return
    a, b = float(a), float(b)
    if a != a and b != b:
        env.holds(label, True)
        return
    env.holds(label, abs(a - b) <= rtol * max(abs(a), abs(b), 1e-300))


def _eqm(env, label, A, Bm, struct=False):
    A = np.asarray(A)
    Bm = np.asarray(Bm)
    if A.shape != Bm.shape:
        env.fail(label + ':shape %s vs %s' % (A.shape, Bm.shape))
        return
    for idx in np.ndindex(*A.shape):
        _eqv(env, '%s%s' % (label, list(idx)), A[idx], Bm[idx], struct=struct)


# ---- textbook finite-difference operators with the documented step rule (independent oracle)
def _shift(p, offs):
    """p with q[i] = p[i] + o for (i, o) and q[i] = p[i] - o for (i, o, -1)."""
    q = list(p)
    for off in offs:
        if len(off) == 3:
            q[off[0]] = q[off[0]] - off[1]
        else:
            q[off[0]] = q[off[0]] + off[1]
    return q


def _fd_grad(env, F, p, eps):
    one, h = _regimes(env, p, eps)
    g = []
    for i in range(len(p)):
        if one[i]:
            g.append((F(_shift(p, [(i, h[i])])) - F(p)) / h[i])
        else:
            g.append((F(_shift(p, [(i, h[i])])) - F(_shift(p, [(i, h[i], -1)]))) / (2 * h[i]))
    return g


def _fd_hess(env, F, p, eps):
    one, h = _regimes(env, p, eps)
    n = len(p)
    Hm = np.empty((n, n), dtype=object)
    F0 = F(p)
    for i in range(n):
        for j in range(i, n):
            if i == j:
                if one[i]:
                    e = (F(_shift(p, [(i, 2 * h[i])])) - 2 * F(_shift(p, [(i, h[i])])) + F0) / h[i] ** 2
                else:
                    e = (F(_shift(p, [(i, h[i])])) - 2 * F0 + F(_shift(p, [(i, h[i], -1)]))) / h[i] ** 2
            elif one[i] or one[j]:
                e = (F(_shift(p, [(i, h[i]), (j, h[j])])) - F(_shift(p, [(i, h[i])]))
                     - F(_shift(p, [(j, h[j])])) + F0) / (h[i] * h[j])
            else:
                e = (F(_shift(p, [(i, h[i]), (j, h[j])])) - F(_shift(p, [(i, h[i]), (j, h[j], -1)]))
                     - F(_shift(p, [(i, h[i], -1), (j, h[j])])) + F(_shift(p, [(i, h[i], -1), (j, h[j], -1)]))) \
                    / (4 * h[i] * h[j])
            Hm[i, j] = Hm[j, i] = e
    return Hm


class _Poisson:
    """Poisson model linear (affine) in its parameters: M_i(p) = fac(pts) * (A_i + sum_j p_j B_ji), A >= 0, B > 0,
    p > 0, symbolic
    data D >= 0 and bootstrap spectra b >= 0, optional relative thetas of the bootstraps."""

    def __init__(self, env, k, nbins, nboot, thetas=False, tag='', datamask=()):
        import dadi
        self.env, self.k, self.nbins, self.nboot = env, k, nbins, nboot
        # bins additionally masked in the DATA spectrum only (e.g. the user masked singletons): the likelihood of the
        # data and the optimal theta run over the jointly unmasked bins; bootstraps keep all bins
        self.dmask = set(datamask)
        _CURENV[0] = env
        del _ATOMS[:]
        _REFUTED[0] = 0
        self.eps = env.real('eps', lo=EPS_LO, hi=EPS_HI)
        self.p = [env.real('p%d' % j, lo=0, lo_open=True, hi=PMAX) for j in range(k)]
        self.B = [[env.real('B%s%d_%d' % (tag, j, i), lo=BMIN, hi=BMAX) for i in range(nbins)] for j in range(k)]
        # constant background spectrum A >= 0 (A = 0 is the purely linear model; A > 0 removes the p <-> theta
        # scaling redundancy that makes J singular for multinom=True)
        self.A = [env.real('A%d' % i, lo=0, hi=BMAX) for i in range(nbins)]
        self.D = [env.real('D%d' % i, lo=0, hi=DMAX) for i in range(nbins)]
        self.boots = [[env.real('b%d_%d' % (b, i), lo=0, hi=DMAX) for i in range(nbins)] for b in range(nboot)]
        self.thetas = [env.real('th%d' % b, lo=Fr(1, 10), hi=10) for b in range(nboot)] if thetas else None
        self.data = self.spec(self.D)
        for i in self.dmask:
            self.data.mask[i + 1] = True
        self.boot_fs = [self.spec(b) for b in self.boots]
        self.ncalls = 0
        self.Spectrum = dadi.Spectrum

    def spec(self, v):
        import dadi
        arr = np.array([0] + list(v) + [0], dtype=object if self.env.symbolic else float)
        return dadi.Spectrum(arr)

    def make_model(self, B=None):
        B = self.B if B is None else B
        k, nbins = len(B), self.nbins

        def model(params, ns, pts):
            self.ncalls += 1
            if len(params) != k:
                raise ValueError('model called with %d parameters' % len(params))
            fac = int(pts[0]) // 10
            return self.spec([fac * (self.A[i] + sum(params[j] * B[j][i] for j in range(k))) for i in range(nbins)])
        return model

    def ll(self, q, datavec, th=1, B=None, fac=1, aug=False):
        """Independent Poisson log-likelihood sum_i -M_i + D_i log M_i - lgamma(D_i + 1)."""
        B = self.B if B is None else B
        k = len(B)
        v = 0
        for i in range(self.nbins):
            if datavec is self.D and i in self.dmask:
                continue
            M = fac * (self.A[i] + sum(q[j] * B[j][i] for j in range(k)))
            if aug:
                M = q[k] * M
            M = th * M
            v = v + (-M + datavec[i] * _log(M) - _lgam(datavec[i] + 1))
        return v

    def oracle(self, F, p, boots=None, thetas=None):
        """(H, J, cU, GIM) from the textbook stencils applied to F(q, datavec, theta)."""
        env, eps = self.env, self.eps
        boots = self.boots if boots is None else boots
        n = len(p)
        Hm = -_fd_hess(env, lambda q: F(q, self.D, 1), p, eps)
        if env.symbolic:
            _register_atoms(list(Hm.ravel()))
        if not boots:
            return Hm, None, None, None
        ths = [1] * len(boots) if thetas is None else thetas
        gs = [_fd_grad(env, (lambda q, b=b: F(q, boots[b], ths[b])), p, eps) for b in range(len(boots))]
        if env.symbolic:
            _register_atoms([x for g in gs for x in g])
        J = np.empty((n, n), dtype=object)
        cU = np.empty((n, 1), dtype=object)
        for i in range(n):
            for j in range(n):
                J[i, j] = sum(g[i] * g[j] for g in gs) / len(boots)
            cU[i, 0] = sum(g[i] for g in gs) / len(boots)
        _check_regular(env, Hm, 'H')
        _check_regular(env, J, 'J (needs at least as many bootstraps as parameters)')
        G = np.dot(np.dot(Hm, _inv_exact(J)), Hm)
        return Hm, J, cU, G


def _nested_F(F, pfull, nested):
    def Fn(q, d, th):
        fullq = list(pfull)
        for a, idx in enumerate(nested):
            fullq[idx] = q[a]
        return F(fullq, d, th)
    return Fn


def _atoms_for(P, pfull, nested_sets=(), F=None, thetas=None):
    """Evaluate the oracle (full and nested problems) before the code runs: in the symbolic run this registers
    its H / gradient entries as atoms, in the float replay it is the regularity probe (see _guard)."""
    F = P.ll if F is None else F
    P.oracle(F, list(pfull), thetas=thetas)
    for nested in nested_sets:
        P.oracle(_nested_F(F, pfull, nested), [pfull[i] for i in nested], thetas=thetas)


class _Degenerate(Exception):
    """Float replay: the oracle's own H / J is (nearly) singular on these inputs."""


def _check_regular(env, M, what):
    """Vacuity / conditioning guard for matrices that get inverted.
    Symbolic: obligations are discharged under `denominators != 0`; if det(M) vanished identically (e.g. J built
    from fewer bootstraps than parameters) they would hold vacuously.  det(M), generalised like the obligations,
    is evaluated at a generic point of the current path: an exact 0 aborts the unit as inconclusive.
    Float replay: an ill-conditioned M makes inverse-based quantities meaningless -> treated as degenerate."""
    import z3
    if not env.symbolic:
        Mf = np.array(M, dtype=float)
        if not np.all(np.isfinite(Mf)) or np.linalg.cond(Mf) > 1e6:
            raise _Degenerate('ill-conditioned %s on the replay inputs' % what)
        return
    d = S.Sym.lift(_det([[M[i, j] for j in range(M.shape[1])] for i in range(M.shape[0])]))
    if d.c is not None:
        if d.c == 0:
            raise S.ExplorationLimit('vacuous: det %s == 0' % what)
        return
    d4 = _abstract_uf(_abstract(d))
    if d4.c is not None:
        return
    names = sorted(env.vars)
    npar = len([n for n in names if n.startswith('p') and n[1:].isdigit()])
    pc = _pc_now()
    fv = S.free_vars([d4.t])
    extra = [v for n, v in sorted(fv.items()) if n not in env.vars]
    for pattern in itertools.product([True, False], repeat=max(npar, 1)):
        gen = _Generic(pattern)
        subs = [(env.vars[n].t, z3.RealVal(str(Fr(gen[n])))) for n in names]
        if not all(_ground(c, subs) is True for c in list(env.pre) + pc):
            continue
        subs2 = subs + [(v, z3.RealVal(str(Fr(7 + 13 * i * i + 3 * i, 11 + i)))) for i, v in enumerate(extra)]
        val = _ground(d4.t, subs2)
        if val is not None and val is not True and val is not False and val == 0:
            raise S.ExplorationLimit('vacuous: det %s vanishes at a generic point (identically singular?)' % what)
        return


def _theta_opt(P, p, B=None):
    B = P.B if B is None else B
    live = [i for i in range(P.nbins) if i not in P.dmask]
    msum = sum(P.A[i] + sum(p[j] * B[j][i] for j in range(len(B))) for i in live)
    return sum(P.D[i] for i in live) / msum


def godambe_body(k, nbins, nboot, thetas=False):
    """get_godambe against the oracle: H = -FDHess[ll(data)], J = mean_b g_b g_b^T, cU = mean_b g_b with
    g_b = FDGrad[ll(boot_b, theta_b)], GIM = H J^-1 H; just_hess returns H alone."""
    def body(env):
        from dadi import Godambe
        P = _Poisson(env, k, nbins, nboot, thetas=thetas)
        model = P.make_model()
        Ho, Jo, cUo, Go = P.oracle(P.ll, P.p, thetas=P.thetas)
        _clear_cache()
        kw = dict(boot_theta_adjusts=list(P.thetas)) if thetas else {}
        G, Hc, J, cU = Godambe.get_godambe(model, [10], list(P.boot_fs), list(P.p), P.data, P.eps, **kw)
        _eqm(env, 'H', Hc, Ho)
        _eqm(env, 'J', J, Jo)
        _eqm(env, 'cU', cU, cUo)
        _eqm(env, 'GIM', G, Go)
        _clear_cache()
        H2 = Godambe.get_godambe(model, [10], [], list(P.p), P.data, P.eps, just_hess=True)
        _eqm(env, 'just_hess', H2, Ho)
    return body


def perm_body(k, nbins, nboot, perm, thetas=False):
    """Bootstrap order does not matter: get_godambe and the derived statistics on a permuted bootstrap list
    (with the thetas permuted alongside) equal the unpermuted ones."""
    def body(env):
        from dadi import Godambe
        P = _Poisson(env, k, nbins, nboot, thetas=thetas)
        model = P.make_model()
        full = [env.real('f%d' % j, lo=0, lo_open=True, hi=PMAX) for j in range(k)]
        _atoms_for(P, P.p, nested_sets=([0],), thetas=P.thetas)

        def run(order):
            bl = [P.boot_fs[b] for b in order]
            kw = dict(boot_theta_adjusts=[P.thetas[b] for b in order]) if thetas else {}
            out = {}
            _clear_cache()
            G, Hc, J, cU = Godambe.get_godambe(model, [10], bl, list(P.p), P.data, P.eps, **kw)
            out['GIM'], out['H'], out['J'], out['cU'] = G, Hc, J, cU
            _clear_cache()
            out['GIM_uncert'] = Godambe.GIM_uncert(model, [10], bl, list(P.p), P.data, multinom=False, eps=P.eps,
                                                   boot_theta_adjusts=kw.get('boot_theta_adjusts'))
            _clear_cache()
            out['LRT'] = [Godambe.LRT_adjust(model, [10], bl, list(P.p), P.data, [0], multinom=False, eps=P.eps,
                                             boot_theta_adjusts=kw.get('boot_theta_adjusts'))]
            if not thetas:
                _clear_cache()
                out['Wald'] = list(Godambe.Wald_stat(model, [10], bl, list(P.p), P.data, [0], list(full),
                                                     multinom=False, eps=P.eps, adj_and_org=True))
                _clear_cache()
                out['score'] = list(Godambe.score_stat(model, [10], bl, list(P.p), P.data, [0],
                                                       multinom=False, eps=P.eps, adj_and_org=True))
            return out
        a = run(list(range(nboot)))
        b = run(list(perm))
        for key in sorted(a):
            _eqm(env, 'perm:' + key, a[key], b[key], struct=(key == 'GIM_uncert'))
    return body


def stats_body(k, nbins, nboot, nested, multinom=False, thetas=False, full_len='nested', datamask=()):
    """FIM_uncert, GIM_uncert, LRT_adjust, Wald_stat, score_stat against their definitions in terms of the
    oracle's H, J, cU, GIM (textbook stencils on the independent Poisson log-likelihood)."""
    def body(env):
        from dadi import Godambe
        P = _Poisson(env, k, nbins, nboot, thetas=thetas, datamask=datamask)
        model = P.make_model()
        p = list(P.p)
        m = len(nested)
        boots = list(P.boot_fs)
        tkw = dict(boot_theta_adjusts=list(P.thetas)) if thetas else {}
        if multinom:
            live = [P.D[i] for i in range(nbins) if i not in P.dmask]
            tot = live[0]
            for v in live[1:]:
                tot = tot + v
            env.assume(tot > 0)      # no data at all -> theta_opt = 0 -> model identically 0 (outside)
            paug = p + [_theta_opt(P, p)]
            F = lambda q, d, th: P.ll(q, d, th, aug=True)
        else:
            paug = p
            F = P.ll
        # --- full-parameter uncertainties
        Ho, Jo, cUo, Go = P.oracle(F, paug, thetas=P.thetas)
        Fn = _nested_F(F, paug, nested)
        pn = [paug[idx] for idx in nested]
        Hn, Jn, cUn, Gn = P.oracle(Fn, pn, thetas=P.thetas)
        _clear_cache()
        u, Hc = Godambe.FIM_uncert(model, [10], list(p), P.data, multinom=multinom, eps=P.eps, return_FIM=True)
        _eqm(env, 'FIM:H', Hc, Ho)
        Hi = _inv_exact(Ho)
        for i in range(len(paug)):
            _eqv(env, 'FIM_uncert[%d]' % i, u[i], _sqrt(Hi[i, i]), struct=True)
        _clear_cache()
        u1 = Godambe.FIM_uncert(model, [10], list(p), P.data, multinom=multinom, eps=P.eps)
        _eqm(env, 'FIM_uncert(no return_FIM)', u1, u, struct=True)
        _clear_cache()
        ug, Gc, Hc2 = Godambe.GIM_uncert(model, [10], boots, list(p), P.data, multinom=multinom, eps=P.eps,
                                         return_GIM=True, **tkw)
        _eqm(env, 'GIM:GIM', Gc, Go)
        _eqm(env, 'GIM:H', Hc2, Ho)
        Gi = _inv_exact(Go)
        for i in range(len(paug)):
            _eqv(env, 'GIM_uncert[%d]' % i, ug[i], _sqrt(Gi[i, i]), struct=True)
        # --- nested-parameter statistics: derivatives only w.r.t. the nested parameters, the rest from p0
        _clear_cache()
        adj = Godambe.LRT_adjust(model, [10], boots, list(p), P.data, list(nested), multinom=multinom, eps=P.eps,
                                 **tkw)
        JHi = np.dot(Jn, _inv_exact(Hn))
        _eqv(env, 'LRT_adjust', adj, m / sum(JHi[a, a] for a in range(m)))
        if not multinom:
            # the same call with p0 given as an ndarray: same value, and the caller's array is left untouched
            p_arr = np.array(list(p), dtype=object if env.symbolic else float)
            p_keep = list(p_arr)
            _clear_cache()
            adj2 = Godambe.LRT_adjust(model, [10], boots, p_arr, P.data, list(nested), multinom=multinom, eps=P.eps,
                                      **tkw)
            _eqv(env, 'LRT_adjust(ndarray p0)', adj2, m / sum(JHi[a, a] for a in range(m)))
            for i_ in range(len(p_keep)):
                _eqv(env, 'LRT_adjust leaves p0[%d] unchanged' % i_, p_arr[i_], p_keep[i_])
        if not thetas:
            fullv = [env.real('f%d' % j, lo=0, lo_open=True, hi=PMAX) for j in range(k)]
            fp = [fullv[idx] for idx in nested]
            fp_in = list(fp) if full_len == 'nested' else list(fullv)
            fp_in = np.array(fp_in, dtype=object if env.symbolic else float)
            _clear_cache()
            wa, wo = Godambe.Wald_stat(model, [10], boots, list(p), P.data, list(nested), fp_in,
                                       multinom=multinom, eps=P.eps, adj_and_org=True)
            d = [fp[a] - pn[a] for a in range(m)]
            _eqv(env, 'Wald_adj', wa, sum(d[a] * Gn[a, b] * d[b] for a in range(m) for b in range(m)))
            _eqv(env, 'Wald_org', wo, sum(d[a] * Hn[a, b] * d[b] for a in range(m) for b in range(m)))
            _clear_cache()
            w1 = Godambe.Wald_stat(model, [10], boots, list(p), P.data, list(nested), fp_in,
                                   multinom=multinom, eps=P.eps)
            _eqv(env, 'Wald(default)=adj', w1, wa)
            if not multinom:
                # p0 given as an ndarray: same values, and the caller's array is left untouched (Wald and score)
                for nm_, call_ in (('Wald_stat', lambda q_: Godambe.Wald_stat(model, [10], boots, q_, P.data, list(nested),
                                                                              fp_in, multinom=False, eps=P.eps)),
                                   ('score_stat', lambda q_: Godambe.score_stat(model, [10], boots, q_, P.data,
                                                                                list(nested), multinom=False,
                                                                                eps=P.eps))):
                    q_arr = np.array(list(p), dtype=object if env.symbolic else float)
                    q_keep = list(q_arr)
                    _clear_cache()
                    val_ = call_(q_arr)
                    if nm_ == 'Wald_stat':
                        _eqv(env, 'Wald_stat(ndarray p0)', val_, wa)
                    for i_ in range(len(q_keep)):
                        _eqv(env, '%s leaves p0[%d] unchanged' % (nm_, i_), q_arr[i_], q_keep[i_])
            _clear_cache()
            sa, so = Godambe.score_stat(model, [10], boots, list(p), P.data, list(nested), multinom=multinom,
                                        eps=P.eps, adj_and_org=True)
            Hni, Jni = _inv_exact(Hn), _inv_exact(Jn)
            _eqv(env, 'score_adj', sa, sum(cUn[a, 0] * Jni[a, b] * cUn[b, 0] for a in range(m) for b in range(m)))
            _eqv(env, 'score_org', so, sum(cUn[a, 0] * Hni[a, b] * cUn[b, 0] for a in range(m) for b in range(m)))
            _clear_cache()
            s1 = Godambe.score_stat(model, [10], boots, list(p), P.data, list(nested), multinom=multinom, eps=P.eps)
            _eqv(env, 'score(default)=adj', s1, sa)
    return body


def log_option_body(env):
    """The documented `log` option (derivatives w.r.t. log-parameters).  Its numerical content (exp/log of symbolic
    parameters) is outside the model; what is decided is the composition: FIM_uncert / GIM_uncert hand the option,
    the parameters and the step to get_godambe and return sqrt(diag(inv(.))) of what it returns; get_godambe(log=True)
    differentiates p -> F(exp(p)) at log(p0) (get_hess / get_grad replaced by recorders returning fresh matrices)."""
    from dadi import Godambe
    import z3
    P = _Poisson(env, 2, 3, 2)
    model = P.make_model()
    p = list(P.p)
    k = 2
    Hs = np.empty((k, k), dtype=object)
    Gs = np.empty((k, k), dtype=object)
    for i in range(k):
        for j in range(i, k):
            Hs[i, j] = Hs[j, i] = env.real('Hs%d%d' % (i, j), lo=1 if i == j else 0, hi=3 if i == j else Fr(1, 4))
            Gs[i, j] = Gs[j, i] = env.real('Gs%d%d' % (i, j), lo=1 if i == j else 0, hi=3 if i == j else Fr(1, 4))
    rec = []
    orig = Godambe.get_godambe

    def fake_godambe(func_ex, grid_pts, all_boot, p0, data, eps, log=False, just_hess=False, boot_theta_adjusts=[]):
        rec.append(dict(log=log, p0=list(p0), eps=eps, nboot=len(all_boot), just_hess=just_hess))
        if just_hess:
            return Hs.copy()
        return Gs.copy(), Hs.copy(), Hs.copy(), np.zeros((k, 1), dtype=object)
    Godambe.get_godambe = fake_godambe
    try:
        for lg in (False, True):
            del rec[:]
            u = Godambe.FIM_uncert(model, [10], list(p), P.data, log=lg, multinom=False, eps=P.eps)
            env.holds('FIM_uncert(log=%s): one get_godambe call' % lg, len(rec) == 1)
            if len(rec) == 1:
                env.holds('FIM_uncert(log=%s) hands log=%s to get_godambe (got %r)' % (lg, lg, rec[0]['log']),
                          bool(rec[0]['log']) == lg)
                env.holds('FIM_uncert(log=%s): just_hess' % lg, bool(rec[0]['just_hess']))
                for i in range(k):
                    _eqv(env, 'FIM_uncert(log=%s): p0[%d] handed on' % (lg, i), rec[0]['p0'][i], p[i])
                _eqv(env, 'FIM_uncert(log=%s): eps handed on' % lg, rec[0]['eps'], P.eps)
            Hi = _inv_exact(Hs)
            for i in range(k):
                _eqv(env, 'FIM_uncert(log=%s)[%d]' % (lg, i), u[i], _sqrt(Hi[i, i]), struct=True)
            del rec[:]
            ug = Godambe.GIM_uncert(model, [10], list(P.boot_fs), list(p), P.data, log=lg, multinom=False, eps=P.eps)
            env.holds('GIM_uncert(log=%s): one get_godambe call' % lg, len(rec) == 1)
            if len(rec) == 1:
                env.holds('GIM_uncert(log=%s) hands log=%s to get_godambe (got %r)' % (lg, lg, rec[0]['log']),
                          bool(rec[0]['log']) == lg)
                env.holds('GIM_uncert(log=%s): all bootstraps handed on' % lg, rec[0]['nboot'] == len(P.boot_fs))
                for i in range(k):
                    _eqv(env, 'GIM_uncert(log=%s): p0[%d] handed on' % (lg, i), rec[0]['p0'][i], p[i])
            Gi = _inv_exact(Gs)
            for i in range(k):
                _eqv(env, 'GIM_uncert(log=%s)[%d]' % (lg, i), ug[i], _sqrt(Gi[i, i]), struct=True)
    finally:
        Godambe.get_godambe = orig
    # get_godambe(log=True): the differentiated function and point
    calls = []
    oh, og = Godambe.get_hess, Godambe.get_grad

    def fake_hess(func, p0, eps, args=()):
        calls.append(('hess', func, list(p0), eps, args))
        return -Hs.copy()

    def fake_grad(func, p0, eps, args=()):
        calls.append(('grad', func, list(p0), eps, args))
        g = np.empty((k, 1), dtype=object)
        for i in range(k):
            g[i, 0] = env.const(Fr(1 + i + len(calls), 7))
        return g
    Godambe.get_hess, Godambe.get_grad = fake_hess, fake_grad
    try:
        _clear_cache()
        Godambe.get_godambe(model, [10], list(P.boot_fs), list(p), P.data, P.eps, log=True)
        env.holds('get_godambe(log=True): 1 hessian + %d gradients' % len(P.boot_fs),
                  [c[0] for c in calls] == ['hess'] + ['grad'] * len(P.boot_fs))
        q = [env.real('q%d' % j, lo=Fr(1, 2), hi=2) for j in range(k)]
        for ci, (kind, func, p0c, epsc, args) in enumerate(calls):
            for i in range(k):
                if env.symbolic:
                    env.holds('get_godambe(log=True) call %d (%s): point[%d] is log(p0[%d])' % (ci, kind, i, i),
                              isinstance(p0c[i], S.Sym) and z3.eq(z3.simplify(p0c[i].t), z3.simplify(p[i].log().t)))
                else:
                    env.holds('get_godambe(log=True) call %d (%s): point[%d] is log(p0[%d])' % (ci, kind, i, i),
                              abs(float(p0c[i]) - float(np.log(p[i]))) <= 1e-12 * max(1.0, abs(float(np.log(p[i])))))
            _eqv(env, 'get_godambe(log=True) call %d: eps' % ci, epsc, P.eps)
            # the function differentiated is lp -> F(exp(lp)): evaluate it at lp = log(q) (LOG/EXP cancel)
            if env.symbolic:
                lq = np.array([S.Sym(S.UF['LOG'](v.t)) for v in q], dtype=object)
                # EXP(LOG q) is not rewritten: feed a point of the form lp whose exp is recognisable instead
                seen = []
                of = Godambe.Inference.ll
                try:
                    Godambe.Inference.ll = lambda fs, data: seen.append(fs) or env.const(0)
                    func(lq, *args)
                finally:
                    Godambe.Inference.ll = of
                env.holds('call %d: likelihood of one spectrum' % ci, len(seen) == 1)
                if len(seen) == 1:
                    th = args[1] if len(args) > 1 else 1
                    want = model([S.Sym(S.UF['EXP'](v.t)) for v in lq], P.data.sample_sizes, [10])
                    got = np.ma.getdata(seen[0])
                    wd = np.ma.getdata(want)
                    for b in range(P.nbins):
                        env.eq_struct('call %d (%s): spectrum bin %d is theta_adjust*model(exp(lp))' % (ci, kind, b),
                                      got[b], th * wd[b])
    finally:
        Godambe.get_hess, Godambe.get_grad = oh, og


def reject_body(env):
    """boot_theta_adjusts together with multinom=True is rejected (documented)."""
    from dadi import Godambe
    P = _Poisson(env, 1, 2, 2, thetas=True)
    model = P.make_model()
    for nm, call in (('GIM_uncert', lambda: Godambe.GIM_uncert(model, [10], list(P.boot_fs), list(P.p), P.data,
                                                                multinom=True, eps=P.eps,
                                                                boot_theta_adjusts=list(P.thetas))),
                     ('LRT_adjust', lambda: Godambe.LRT_adjust(model, [10], list(P.boot_fs), list(P.p), P.data, [0],
                                                                multinom=True, eps=P.eps,
                                                                boot_theta_adjusts=list(P.thetas)))):
        _clear_cache()
        try:
            call()
            env.fail('%s accepted boot_theta_adjusts with multinom=True' % nm)
        except ValueError:
            env.holds('%s rejects' % nm, True)


# ---- module-level spectrum cache: results do not depend on earlier calls
def _stat_call(stat, model, P, full=None):
    from dadi import Godambe
    boots = list(P.boot_fs)
    if stat == 'LRT_adjust':
        return lambda p0, nested: Godambe.LRT_adjust(model, [10], boots, p0, P.data, nested, multinom=False, eps=P.eps)
    if stat == 'Wald_stat':
        return lambda p0, nested: Godambe.Wald_stat(model, [10], boots, p0, P.data, nested,
                                                    [full[i] for i in nested], multinom=False, eps=P.eps)
    if stat == 'score_stat':
        return lambda p0, nested: Godambe.score_stat(model, [10], boots, p0, P.data, nested, multinom=False, eps=P.eps)
    raise KeyError(stat)


def cache_stale_body(stat, nested_idx):
    """Two calls whose p0 differ only in a NON-nested parameter, sharing the module cache: the second result
    equals the one obtained with an empty cache.  (The nested-parameter closure built inside the statistic is
    garbage after the first call; a cache keyed on its id-based hash is hit by the second call's closure.)"""
    def body(env):
        P = _Poisson(env, 2, 3, 2)
        model = P.make_model()
        other = 1 - nested_idx
        alt = env.real('palt', lo=0, lo_open=True, hi=PMAX)
        env.assume(alt != P.p[other])
        full = [env.real('f%d' % j, lo=0, lo_open=True, hi=PMAX) for j in range(2)]
        call = _stat_call(stat, model, P, full)
        pa = list(P.p)
        pb = list(P.p)
        pb[other] = alt
        nested = [nested_idx]
        _atoms_for(P, pa, nested_sets=(nested,))
        _atoms_for(P, pb, nested_sets=(nested,))
        _clear_cache()
        r1 = call(list(pa), nested); r2 = call(list(pb), nested)
        _clear_cache()
        r2f = call(list(pb), nested)
        _eqv(env, 'second-call==fresh-cache', r2, r2f)
        _clear_cache()
        r1f = call(list(pa), nested)
        _eqv(env, 'first-call==fresh-cache', r1, r1f)
    return body


class _HashCollide:
    """A legal callable model whose __hash__ collides with every other instance's (distinct objects compare
    unequal): a cache must not identify functions by their hash."""
    def __init__(self, f):
        self.f = f

    def __call__(self, params, ns, pts):
        return self.f(params, ns, pts)

    def __hash__(self):
        return 12345

    def __eq__(self, o):
        return self is o


def cache_hash_body(env):
    from dadi import Godambe
    P = _Poisson(env, 2, 3, 2)
    B2 = [[env.real('C%d_%d' % (j, i), lo=BMIN, hi=BMAX) for i in range(3)] for j in range(2)]
    mA = _HashCollide(P.make_model())
    mB = _HashCollide(P.make_model(B2))
    _atoms_for(P, P.p)
    _atoms_for(P, P.p, F=lambda q, d, th: P.ll(q, d, th, B=B2))
    _clear_cache()
    a = Godambe.get_godambe(mA, [10], list(P.boot_fs), list(P.p), P.data, P.eps)
    b = Godambe.get_godambe(mB, [10], list(P.boot_fs), list(P.p), P.data, P.eps)
    _clear_cache()
    bf = Godambe.get_godambe(mB, [10], list(P.boot_fs), list(P.p), P.data, P.eps)
    for nm, x, y in zip(('GIM', 'H', 'J', 'cU'), b, bf):
        _eqm(env, 'hash-collision:' + nm, x, y)
    Ho, Jo, cUo, Go = P.oracle(lambda q, d, th: P.ll(q, d, th, B=B2), P.p)
    _eqm(env, 'hash-collision:H-vs-oracle', b[1], Ho)


def cache_history_body(scenario):
    """Sequences of calls sharing the module cache give the results of a fresh cache."""
    def body(env):
        from dadi import Godambe
        k, nbins = (1, 2) if scenario == 'model-multinom' else (2, 3)
        P = _Poisson(env, k, nbins, 2)
        model = P.make_model()
        boots = list(P.boot_fs)
        if scenario != 'model-multinom':
            _atoms_for(P, P.p)
        if scenario == 'params':
            q = [env.real('q%d' % j, lo=0, lo_open=True, hi=PMAX) for j in range(2)]
            _atoms_for(P, q)
            seq = [lambda: Godambe.get_godambe(model, [10], boots, list(P.p), P.data, P.eps),
                   lambda: Godambe.get_godambe(model, [10], boots, list(q), P.data, P.eps)]
        elif scenario == 'same-twice':
            seq = [lambda: Godambe.get_godambe(model, [10], boots, list(P.p), P.data, P.eps)] * 2
        elif scenario == 'data':
            D2 = P.spec([env.real('E%d' % i, lo=0, hi=DMAX) for i in range(3)])
            seq = [lambda: Godambe.get_godambe(model, [10], boots, list(P.p), P.data, P.eps),
                   lambda: Godambe.get_godambe(model, [10], boots, list(P.p), D2, P.eps)]
        elif scenario == 'pts':
            seq = [lambda: Godambe.get_godambe(model, [10], boots, list(P.p), P.data, P.eps),
                   lambda: Godambe.get_godambe(model, [20], boots, list(P.p), P.data, P.eps)]
        elif scenario == 'eps':
            e2 = env.real('eps2', lo=EPS_LO, hi=EPS_HI)
            seq = [lambda: Godambe.get_godambe(model, [10], boots, list(P.p), P.data, P.eps),
                   lambda: Godambe.get_godambe(model, [10], boots, list(P.p), P.data, e2)]
        elif scenario in ('model', 'model-multinom'):
            mn = scenario == 'model-multinom'
            B2 = [[env.real('C%d_%d' % (j, i), lo=BMIN, hi=BMAX) for i in range(nbins)] for j in range(k)]
            m2 = P.make_model(B2)
            if not mn:
                _atoms_for(P, P.p, F=lambda qq, d, th: P.ll(qq, d, th, B=B2))
            if mn:
                tot = P.D[0]
                for v in P.D[1:]:
                    tot = tot + v
                env.assume(tot > 0)
                _atoms_for(P, list(P.p) + [_theta_opt(P, P.p)], F=lambda qq, d, th: P.ll(qq, d, th, aug=True))
                _atoms_for(P, list(P.p) + [_theta_opt(P, P.p, B=B2)],
                           F=lambda qq, d, th: P.ll(qq, d, th, B=B2, aug=True))
            seq = [lambda: Godambe.GIM_uncert(model, [10], boots, list(P.p), P.data, multinom=mn, eps=P.eps,
                                              return_GIM=True)[1:],
                   lambda: Godambe.GIM_uncert(m2, [10], boots, list(P.p), P.data, multinom=mn, eps=P.eps,
                                              return_GIM=True)[1:]]
        elif scenario == 'fim-then-gim':
            seq = [lambda: (Godambe.FIM_uncert(model, [10], list(P.p), P.data, multinom=False, eps=P.eps,
                                               return_FIM=True)[1],),
                   lambda: Godambe.get_godambe(model, [10], boots, list(P.p), P.data, P.eps)]
        else:
            raise KeyError(scenario)
        _clear_cache()
        hist = [f() for f in seq]
        fresh = []
        for f in seq:
            _clear_cache()
            fresh.append(f())
        for n, (a, b) in enumerate(zip(hist, fresh)):
            for c, (x, y) in enumerate(zip(a, b)):
                _eqm(env, 'call%d:out%d' % (n, c), x, y)
    return body


# ---- mixture chi-square tail probability
def chi2_body(form, n, nw, default_w=False):
    def body(env):
        from dadi import Godambe
        x = [env.real('x%d' % i) for i in range(n)]
        if default_w:
            w = [env.const(Fr(0)), env.const(Fr(1))]
        else:
            w = [env.real('w%d' % d, lo=0) for d in range(nw)]
            tot = w[0]
            for v in w[1:]:
                tot = tot + v
            env.assume(tot == 1) if env.symbolic else None
        if form == 'scalar':
            arg = x[0]
        elif form == 'list':
            arg = list(x)
        elif form == 'tuple':
            arg = tuple(x)
        else:
            arg = np.array(x, dtype=object if env.symbolic else float)
        r = Godambe.sum_chi2_ppf(arg) if default_w else Godambe.sum_chi2_ppf(arg, tuple(w))

        def expect(xj):
            if env.symbolic:
                cdf = sum(w[d] * S.Sym(_chi2uf()(S.Sym.lift(xj).t, S.tz(d))) for d in range(1, len(w)))
            else:
                import scipy.stats
                cdf = sum(w[d] * scipy.stats.chi2.cdf(xj, d) for d in range(1, len(w)))
            if xj > 0:
                cdf = cdf + w[0]
            return 1 - cdf
        if form == 'scalar':
            env.holds('scalar in -> scalar out', np.ndim(r) == 0)
            _eqv(env, 'ppf', r, expect(x[0]), rtol=1e-9)
        else:
            env.holds('array in -> array out of the same length', np.shape(r) == (n,))
            if np.shape(r) == (n,):
                for i in range(n):
                    _eqv(env, 'ppf[%d]' % i, r[i], expect(x[i]), rtol=1e-9)
    return body


def chi2_reject_body(env):
    """weights that do not sum to 1 (by more than 1e-6) are rejected."""
    from dadi import Godambe
    x = env.real('x0')
    w = [env.real('w%d' % d, lo=0) for d in range(2)]
    dev = w[0] + w[1] - 1
    env.assume((dev > Fr(1, 1000)) | (dev < -Fr(1, 1000))) if env.symbolic else None
    try:
        Godambe.sum_chi2_ppf(x, tuple(w))
        env.fail('weights not summing to 1 accepted')
    except ValueError:
        env.holds('rejected', True)


def linalg_stub_body(env):
    """Self-check of the local numpy.linalg.inv stand-in: A . inv(A) = I for symbolic 1x1..3x3 A."""
    for n in (1, 2, 3):
        A = env.array('A%d' % n, (n, n))
        Ai = _Linalg().inv(A) if env.symbolic else np.linalg.inv(A)
        prod = np.dot(A, Ai)
        for i in range(n):
            for j in range(n):
                _eqv(env, 'A.inv(A)[%d][%d] n=%d' % (i, j, n), prod[i, j], 1 if i == j else 0, rtol=1e-6) \
                    if env.symbolic else None
    if not env.symbolic:
        env.holds('n/a', True)


def _guard(body):
    """Float replay only: bodies evaluate the oracle before the code; if the oracle's own H / J is (nearly)
    singular on the replay inputs (degenerate solver model) nothing can be compared and the run is ignored.
    Every other exception - including a LinAlgError raised by the code on regular inputs - counts."""
    def wrapped(env):
        if env.symbolic:
            return body(env)
        import warnings
        with np.errstate(all='ignore'), warnings.catch_warnings():
            warnings.simplefilter('ignore')
            try:
                return body(env)
            except _Degenerate as e:
                env.note('degenerate float replay inputs, ignored: %s' % e)
    return wrapped


class _Generic(dict):
    """Deterministic generic float inputs by variable name (used by the replay when the solver's model leaves
    the inputs at degenerate values, which happens for refutations of abstracted identities that do not depend
    on the inputs).  variant: 'central' | 'tiny' | 'mixed' picks the stencil regimes of the parameters."""
    def __init__(self, variant, base=None):
        dict.__init__(self)
        self.variant = variant
        self.base = base or {}

    def __contains__(self, k):
        return True

    def _p(self, j, central):
        return 1.3 + 0.8 * j if central else 1e-6 * (1 + j)

    def __getitem__(self, name):
        import re
        m = re.match(r'^([A-Za-z]+?)(\d+)?(?:_(\d+))?(?:_(\d+))?$', name)
        if not m:
            return self.base.get(name, '0')
        pre, i, j = m.group(1), int(m.group(2) or 0), int(m.group(3) or 0)
        if isinstance(self.variant, tuple):
            cen = self.variant[i] if (pre == 'p' and i < len(self.variant)) else True
        else:
            cen = {'central': True, 'tiny': False, 'mixed': (i % 2 == 1)}[self.variant]
        if name == 'eps':
            v = 0.01
        elif name == 'eps2':
            v = 0.03
        elif name == 'palt':
            v = 2.9 if self.variant != 'tiny' else 3e-6
        elif pre == 'p':
            v = self._p(i, cen)
        elif pre == 'q':
            v = 0.7 + 0.5 * i
        elif pre == 'f':
            v = 1.7 + 0.4 * i
        elif pre == 'A':
            v = 4.0 + ((i * i * 5 + i * 3 + 1) % 7)
        elif pre == 'B':
            v = 1.0 + 0.35 * ((i * 7 + j * j * 3 + i * j * 5 + (i + 1) * (i + 1) * (j + 2) + 2) % 11) + 0.13 * j
        elif pre == 'C':
            v = 0.8 + 0.7 * (((j + 2) * (i + 1)) % 5) + 0.21 * i
        elif pre == 'D':
            v = 10 + 3 * i - (i * i % 3)
        elif pre == 'E':
            v = 6 + 2 * i + (i * i % 2)
        elif pre == 'b':
            v = 5 + ((i * 37 + j * 11 + i * i * j * 5 + (i + 2) * (j + 1) * (j + 1) * 3 + 3) % 13) + 0.25 * i
        elif pre == 'th':
            v = 0.9 + 0.15 * i
        else:
            return self.base.get(name, '0')
        return repr(float(v))


def _make_replay(gbody):
    """Replay on the real float code: first the solver's values; if those are degenerate / do not show the
    failure, deterministic generic inputs in each stencil regime.  Any failing obligation on the real code is a
    genuine witness; none -> not reproduced."""
    def replay(values):
        tried = []
        for tag, vals in (('model', values), ('generic-central', _Generic('central', values)),
                          ('generic-tiny', _Generic('tiny', values)), ('generic-mixed', _Generic('mixed', values))):
            env = H.ConcEnv(None, vals)
            try:
                gbody(env)
            except Exception as e:
                env.failed.append(('unexpected-exception:%s:%s' % (type(e).__name__, str(e)[:160]), None, None))
            tried.append((tag, env.checked, len(env.failed)))
            if env.failed:
                return dict(reproduced=True, inputs=tag, failed=[(l, a, b) for l, a, b in env.failed[:10]],
                            checked=env.checked, tried=tried)
        return dict(reproduced=False, failed=[], tried=tried)
    return replay


def units(tier, seed):
    us = []
    thorough = tier == 'thorough'
    kmax = 4 if thorough else 3
    for k in range(1, kmax + 1):
        np_ = 3 ** k
        us.append(H.Unit('hess-k%d' % k, hess_body(k), params=dict(k=k, op='get_hess'), setup=_setup,
                         min_obligations=np_ * k * k, expect_paths=np_, timeout_s=900, maxpaths=4000))
        us.append(H.Unit('grad-quad-k%d' % k, grad_body(k), params=dict(k=k, op='get_grad'), setup=_setup,
                         min_obligations=np_ * k, expect_paths=np_, timeout_s=900, maxpaths=4000))
        us.append(H.Unit('grad-linear-k%d' % k, grad_body(k, linear=True), params=dict(k=k, op='get_grad', Q=0),
                         setup=_setup, min_obligations=np_ * k, expect_paths=np_, timeout_s=900, maxpaths=4000))
        us.append(H.Unit('grad-2pt-k%d' % k, grad_body(k, two_pt=True),
                         params=dict(k=k, op='get_grad', two_pt_deriv_test=True),
                         setup=_setup, min_obligations=np_ * k, expect_paths=np_, timeout_s=900, maxpaths=4000))
    for k in (2, 3) if thorough else (2,):
        np_ = 3 ** k
        us.append(H.Unit('hess-args-k%d' % k, hess_body(k, with_args=True), params=dict(k=k, op='get_hess', args=2),
                         setup=_setup, min_obligations=np_ * k * k, expect_paths=np_, timeout_s=900))
        us.append(H.Unit('hess-arrayp-k%d' % k, hess_body(k, as_array=True),
                         params=dict(k=k, op='get_hess', p0='ndarray'),
                         setup=_setup, min_obligations=np_ * k * k, expect_paths=np_, timeout_s=900))
    kk = 3 if thorough else 2
    for ii in range(kk):
        for jj in range(kk):
            pats = [None] + [list(t) for t in itertools.product([False, True], repeat=kk)]
            for pat in pats:
                nm = 'helem-k%d-%d%d-%s' % (kk, ii, jj, 'default' if pat is None else ''.join('1' if b else '0' for b in pat))
                us.append(H.Unit(nm, helem_body(kk, ii, jj, pat), params=dict(k=kk, ii=ii, jj=jj, one_sided=pat),
                                 setup=_setup, min_obligations=1, expect_paths=1, timeout_s=600))
    if thorough:
        # k = 5 (the largest size named by the property), split by the regimes of the first two parameters
        for fixed in itertools.product('ztc', repeat=2):
            fx = ''.join(fixed)
            us.append(H.Unit('hess-k5-%s' % fx, hess_body(5, fixed=fixed), params=dict(k=5, op='get_hess', fixed=fx),
                             setup=_setup, min_obligations=27 * 25, expect_paths=27, timeout_s=1500, maxpaths=4000))
        for fixed in 'ztc':
            for nm, kw in (('grad-quad', {}), ('grad-linear', dict(linear=True)), ('grad-2pt', dict(two_pt=True))):
                us.append(H.Unit('%s-k5-%s' % (nm, fixed), grad_body(5, fixed=(fixed,), **kw),
                                 params=dict(k=5, op='get_grad', fixed=fixed, **kw), setup=_setup,
                                 min_obligations=81 * 5, expect_paths=81, timeout_s=1500, maxpaths=4000))

    if not thorough:
        # 4 and 5 parameters in the quick tier: one regime each (all central / mixed), single path
        for k, fixed in ((4, 'cccc'), (5, 'ccccc'), (4, 'ztcc'), (5, 'cztcc')):
            us.append(H.Unit('hess-k%d-%s' % (k, fixed), hess_body(k, fixed=tuple(fixed)),
                             params=dict(k=k, op='get_hess', fixed=fixed), setup=_setup, min_obligations=k * k,
                             expect_paths=1, timeout_s=900, maxpaths=64))
    # ---------------- part 2: linear Poisson models
    def U(name, body, params, generic=True, **kw):
        kw.setdefault('timeout_s', 900)
        kw.setdefault('maxpaths', 4000)
        gb = _guard(body)
        # generic=True: Poisson-model bodies, whose replay may fall back to deterministic generic inputs
        us.append(H.Unit(name, gb, params=params, setup=_setup_full, replay=_make_replay(gb) if generic else None,
                         **kw))

    nb = 3
    gg = [(1, 2, False), (2, 2, False), (2, 2, True)] + ([(2, 3, True), (3, 3, False)] if thorough else [])
    for k, nboot, th in gg:
        U('godambe-k%d-b%d%s' % (k, nboot, '-thetas' if th else ''), godambe_body(k, nb, nboot, thetas=th),
          dict(k=k, nbins=nb, nboot=nboot, thetas=th), min_obligations=2 ** k * (3 * k * k + k), expect_paths=2 ** k)
    if thorough:
        U('godambe-k3-b3-thetas', godambe_body(3, nb, 3, thetas=True), dict(k=3, nbins=nb, nboot=3, thetas=True),
          min_obligations=8 * 30, expect_paths=8)
        U('godambe-k2-b2-bins4', godambe_body(2, 4, 2), dict(k=2, nbins=4, nboot=2, thetas=False),
          min_obligations=4 * 14, expect_paths=4)
        U('stats-k2-nested1-bins4', stats_body(2, 4, 2, [1], full_len='nested'),
          dict(k=2, nbins=4, nboot=2, nested=[1], multinom=False, thetas=False, full_params='nested'),
          min_obligations=50, expect_paths=4)
    perms = [(1, 0, 2), (2, 0, 1)] + ([(0, 2, 1), (2, 1, 0), (1, 2, 0)] if thorough else [])
    for pi, perm in enumerate(perms):
        th = (pi % 2 == 1)
        U('bootperm-k2-b3-%s%s' % (''.join(map(str, perm)), '-thetas' if th else ''),
          perm_body(2, nb, 3, perm, thetas=th), dict(k=2, nbins=nb, nboot=3, perm=list(perm), thetas=th),
          min_obligations=4 * 10, expect_paths=4)
    U('bootperm-k1-b2-10', perm_body(1, nb, 2, (1, 0)), dict(k=1, nbins=nb, nboot=2, perm=[1, 0]),
      min_obligations=2 * 5, expect_paths=2)
    # (k, nested, multinom, thetas, full_params form); J must be regular: bootstraps >= differentiated parameters
    st = [(2, [0], False, False, 'nested'), (2, [1], False, False, 'p0'), (2, [0, 1], False, False, 'nested'),
          (2, [0], True, False, 'nested'), (2, [1], True, False, 'p0'), (2, [0], False, True, 'nested')]
    if thorough:
        st += [(3, [0, 2], False, False, 'p0'), (3, [1], False, False, 'nested'), (2, [0, 1], True, False, 'p0'),
               (3, [2, 0], False, True, 'nested'), (1, [0], True, False, 'nested')]
    for k, nested, mn, th, fl in st:
        nboot = max(2, k + (1 if mn else 0))
        U('stats-k%d-nested%s%s%s-full_%s' % (k, ''.join(map(str, nested)), '-multinom' if mn else '',
                                              '-thetas' if th else '', fl),
          stats_body(k, nb, nboot, nested, multinom=mn, thetas=th, full_len=fl),
          dict(k=k, nbins=nb, nboot=nboot, nested=nested, multinom=mn, thetas=th, full_params=fl),
          min_obligations=10, expect_paths=2 ** (k + (1 if mn else 0)))
    # data spectrum with an extra masked bin (mask differs from the model's): multinom theta over jointly unmasked bins
    for k, nested, nbins_, dm in ([(1, [0], 4, (0,))] + ([(1, [0], 4, (2,)), (2, [1], 4, (1,))] if thorough else [])):
        U('stats-k%d-nested%s-multinom-datamask%s' % (k, ''.join(map(str, nested)), ''.join(map(str, dm))),
          stats_body(k, nbins_, k + 1, nested, multinom=True, datamask=dm),
          dict(k=k, nbins=nbins_, nboot=k + 1, nested=nested, multinom=True, datamask=list(dm)),
          min_obligations=10, expect_paths=2 ** (k + 1))
    U('reject-thetas-with-multinom', reject_body, {}, min_obligations=2)
    U('log-option-composition', log_option_body, dict(k=2, nbins=3, nboot=2), min_obligations=20)
    for stat in ('LRT_adjust', 'Wald_stat', 'score_stat'):
        for ni in (0, 1):
            U('cache-stale-%s-nested%d' % (stat, ni), cache_stale_body(stat, ni), dict(stat=stat, nested=[ni]),
              min_obligations=4, expect_paths=2)
    U('cache-stale-hashcollide', cache_hash_body, {}, min_obligations=4 * 14, expect_paths=4)
    for sc in ('params', 'same-twice', 'data', 'pts', 'eps', 'model', 'model-multinom', 'fim-then-gim'):
        U('cache-history-%s' % sc, cache_history_body(sc), dict(scenario=sc), min_obligations=8,
          expect_paths=2 if sc == 'model-multinom' else 4)
    chi = [('scalar', 1, 2), ('scalar', 1, 3), ('list', 1, 2), ('list', 2, 2), ('ndarray', 2, 3), ('tuple', 2, 2)]
    if thorough:
        chi += [('list', 3, 3), ('ndarray', 3, 4), ('ndarray', 1, 2), ('scalar', 1, 4)]
    for form, n, nw in chi:
        nm = 'chi2-%s-n%d-w%d' % (form if form == 'scalar' else 'array-' + form, n, nw)
        U(nm, chi2_body(form, n, nw), dict(x=form, n=n, nweights=nw), generic=False,
          min_obligations=2 ** n * (n + 1), expect_paths=2 ** n)
    U('chi2-scalar-defaultw', chi2_body('scalar', 1, 2, default_w=True), dict(x='scalar', weights='default'),
      generic=False, min_obligations=4, expect_paths=2)
    U('chi2-array-list-n2-defaultw', chi2_body('list', 2, 2, default_w=True), dict(x='list', n=2, weights='default'),
      generic=False, min_obligations=12, expect_paths=4)
    U('chi2-reject-weights', chi2_reject_body, {}, generic=False, min_obligations=1)
    U('linalg-stub-contract', linalg_stub_body, {}, generic=False, min_obligations=14)
    return us
