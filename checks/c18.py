"""C18 - the low-pass (low coverage) calling model redistributes probability and vanishes at deep coverage.

Real code: dadi/LowPass/LowPass.py (partitions_and_probabilities, part_inbreeding_probability,
probability_of_no_call_1D_GATK_multisample, probability_enough_individuals_covered, projection_inbreeding,
projection_matrix, calling_error_matrix, low_cov_precalc_GATK_multisample_GATK_multisample,
make_low_pass_func_GATK_multisample) and dadi/Numerics.py (part, cached_part, multinomln, BetaBinomln,
_cached_projection), executed unmodified.  The coverage distribution of every population is a vector of z3
reals c_0..c_D (c_d >= 0, sum = 1), the model spectrum entries are z3 reals >= 0, the inbreeding coefficient
(stretch units) is a z3 real in (0,1).  Log-space special functions are the exact ESF stubs, so every
quantity the code computes is an exact polynomial / rational function of the symbolic inputs.

How the non-linear obligations are kept decidable (all steps decided by z3, nothing sampled):
the LowPass code touches a coverage distribution only through a handful of *linear* aggregates
(numpy.sum(cov*0.5**depths), numpy.sum(depths*cov*0.5**depths), numpy.sum(cov[1:]), ...).  The module-global
`numpy.sum` seen by LowPass is hooked: a non-constant sum S(c) is returned as a fresh real V; z3 proves linear
lemmas about V from the definition V == S(c) under the simplex constraints (V>=0, V<=1, 2V<=1, V+c_0==1,
V_i+V_j<=1: each candidate is kept only if z3 proves it) and only proven lemmas are assumed.  A claim is first
decided in this abstract domain (few variables, low degree; it then holds for *every* coverage distribution
whose aggregates satisfy the lemmas, in particular for all c on the simplex); if that is not `unsat` the claim
is handed to the harness in exact form (definitions V == S(c) added), so that a `sat` answer is a genuine
coverage distribution that replays on the float code.

Oracles (orc_*) are written here from the textbook meaning of each quantity (explicit sums over ordered genotype
vectors, math.comb, Fractions); they never call dadi.
"""
import itertools
import logging
import math
from fractions import Fraction as Fr

import numpy as np
import z3

from engine import esf
from engine import harness as H
from engine import shims
from engine import symreal as S

META = dict(
    explanation=(
        'dadi.LowPass.LowPass is executed unmodified on coverage distributions whose probabilities are z3 reals on '
        'the simplex (depths 0..D), model spectra with z3-real entries >= 0 and (stretch) a z3-real inbreeding '
        'coefficient; scipy special functions are replaced by exact rational stubs.  z3 proves for ALL such inputs: '
        '(1) Numerics.part/cached_part (cold and warm cache) enumerate exactly the non-decreasing genotype vectors '
        'of an allele count (vs brute force over {0,1,2}^m) and partitions_and_probabilities returns, in both modes, '
        'probabilities equal to 2^het*multinomial/C(n,af) that sum to 1; (2) projection_matrix(F=0) equals the '
        'hypergeometric matrix, rows sum to 1, entries >= 0; (3) probability_of_no_call_1D_GATK_multisample lies in '
        '[0,1] and equals P(at most one alternative read) obtained by explicit enumeration of ordered genotype '
        'vectors; (4) probability_enough_individuals_covered lies in [0,1] and equals the binomial tail; '
        '(5) calling_error_matrix has entries >= 0, rows summing to 1, equals the explicit heterozygote-miscall '
        'kernel and is the identity when prob_het_err = 0; (6) the full pipeline make_low_pass_func_GATK_multisample '
        '(analytic regime, sim_threshold=1) on 1-3 populations: low_cov_precalc returns no simulated entries, every '
        'output entry is >= 0, a model supported on one entry never gains sites, the output of a fully symbolic '
        'model is the superposition of the single-entry outputs (hence total(corrected) <= total(model)), every '
        'output entry equals the composition of the independent oracles, folded models are rejected; '
        '(7) deep-coverage limit: the output is a polynomial in the coverage aggregates, and at the point where '
        'the shallow-depth aggregates vanish (P(depth 0)=P(depth 1)=0, sum c_d 2^-d = sum d c_d 2^-d = 0, '
        'prob_het_err = 0) it equals the hypergeometric projection of the model and Spectrum.project; plus a '
        'quantitative version on real distributions supported on depths 78..80 (relative 2^-40); '
        '(8) inbreeding, F a z3 real in (0,1) (Beta-binomial weights reduced exactly with Gamma(x+1)=x Gamma(x)): '
        'partition probabilities are >= 0, sum to 1 and equal the textbook inbred genotype-frequency model '
        '(p^2+Fpq, 2pq(1-F), q^2+Fpq) renormalised per allele count, both modes agree; projection_matrix(F) has '
        'entries >= 0, rows summing to 1, equals sub-sampling of those genotype vectors, and '
        '|projection_matrix(F) - projection_matrix(0)| <= 4F entrywise (continuity as F->0); (stretch units) '
        'calling_error_matrix(F) is row-stochastic with entries >= 0 and the no-call probability with F lies in '
        '[0,1] for all coverage distributions.  Float constants computed by the code itself (p = af/n, 1/3 ...) '
        'are taken at their exact binary value, so the F>0 identities carry an absolute slack of 2^-40.'),
    functions=['dadi.LowPass.LowPass.partitions_and_probabilities', 'dadi.LowPass.LowPass.part_inbreeding_probability',
               'dadi.LowPass.LowPass.probability_of_no_call_1D_GATK_multisample',
               'dadi.LowPass.LowPass.probability_enough_individuals_covered',
               'dadi.LowPass.LowPass.projection_inbreeding', 'dadi.LowPass.LowPass.projection_matrix',
               'dadi.LowPass.LowPass.calling_error_matrix',
               'dadi.LowPass.LowPass.low_cov_precalc_GATK_multisample_GATK_multisample',
               'dadi.LowPass.LowPass.make_low_pass_func_GATK_multisample', 'dadi.Numerics.part',
               'dadi.Numerics.cached_part', 'dadi.Numerics.multinomln', 'dadi.Numerics.BetaBinomln',
               'dadi.Numerics._cached_projection', 'dadi.Numerics._lncomb', 'dadi.Spectrum.project'],
    files=['dadi/LowPass/LowPass.py', 'dadi/Numerics.py', 'dadi/Spectrum_mod.py'],
    bounds=dict(
        quick='partitions: n_sequenced 2..12 (all allele counts); projection_matrix(F=0): n_sequenced 2..8, all even '
              'n_subsampling <= n_sequenced; no-call: (D,n)=(1,2),(3,2),(3,4),(8,4),(3,6),(4,6); enough-covered: D=3, '
              'n<=6, all even nsub<=n; calling_error_matrix: (D,nsub)=(1,2),(3,2),(3,4),(8,4),(4,6); pipeline: 1 pop '
              '(D,nseq,nsub)=(3,2,2),(3,4,2),(3,4,4), 2 pops D=2 (2,2)->(2,2) and (4,2)->(4,2) with distinct '
              'coverage distributions; '
              'deep limit on the same configurations + depths 78..80 for (4->2); inbreeding: partitions / '
              'projection_matrix(F) n<=6, coverage-dependent parts (stretch) n<=4, D=2',
        thorough='partitions: n_sequenced 2..20; projection_matrix(F=0): n_sequenced 2..20; no-call: quick + '
                 '(4,8),(20,4),(80,4) and depths 0..80 with mass on {0,1,2,3,4,8,16,40,80} for n=6,8; '
                 'enough-covered: D=3 n<=10, D=80 n=4, sparse D=80 n=8; calling_error_matrix: quick + '
                 '(4,8),(20,4),(80,2); pipeline: quick + 1 pop (4,6,2),(4,6,4),(4,6,6),(80,4,2), 2 pops '
                 '(4,2)->(2,2),(4,4)->(2,2), 3 pops (2,2,2)->(2,2,2); deep 78..80 also (4->4),(6->4); '
                 'inbreeding: partitions / projection_matrix(F) n<=8, coverage-dependent parts (stretch) n<=4, D<=3; '
                 'n_sequenced=8 no-call units are extras (stretch)'),
    outside=['the simulated regime (simulate_reads, subsample_genotypes_1D, simulate_GATK_multisample_calling: random '
             'reads; sim_threshold < 1 whenever an entry would be simulated)', 'compute_cov_dist (data-dictionary parsing)',
             'float round-off (doubles modelled as reals; exp(gammaln) weights are exact rationals)',
             'coverage distributions with P(depth 0) = 1 (the code divides by P(depth>=1))',
             'n_sequenced > 8 for the symbolic obligations, > 20 for the combinatorial ones; depths > 80',
             'inbreeding F>0 in the full pipeline; folded model spectra (rejected by the code, rejection is checked)',
             'the power with which P(enough individuals covered) enters for several populations: the code multiplies '
             'the product over populations into the projection matrix of every population (applied P times); the '
             'property does not fix this allele-frequency independent factor, both readings are accepted',
             'absurd depths >= 1075 where 0.5**depth underflows to 0.0 and the code evaluates 0.0**-1 * 0 = nan'],
    stubs=['scipy.special.gammaln inside dadi.Numerics -> engine.esf.gammaln (exact ln of factorials)',
           'scipy.stats.distributions.binom.pmf inside LowPass -> engine.esf.binom_pmf (exact polynomial)',
           'scipy.special.comb inside LowPass -> engine.esf.comb (exact integers)',
           'numpy array constructors inside LowPass / Numerics / Spectrum_mod -> object arrays',
           'numpy.sum inside LowPass: a non-constant sum is returned as a fresh real with z3-proven linear lemmas '
           '(contract stub; definitions are re-attached for exact-mode obligations), implemented locally in checks/c18.py',
           'stretch units: Numerics.betaln / gammaln on symbolic arguments -> formal log-Gamma algebra (local class '
           'LnForm) reduced with Gamma(x+1) = x Gamma(x); exp() requires all log-Gamma terms to cancel'],
    assumptions=['doubles modelled as reals', 'coverage probabilities c_d >= 0 with sum 1 and c_0 < 1 where the code '
                 'divides by P(depth >= 1)', 'model spectrum entries >= 0', 'F in (0,1) for the inbreeding units'],
)

ABS_MS = 30000     # budget of the in-body abstract-domain decision (falls back to the exact form)
LEM_MS = 20000


# ================================================================================================
# engine-side helpers local to this check
class _Binom:
    pmf = staticmethod(esf.binom_pmf)


class _SSD:
    binom = _Binom


class _Ctx:
    def __init__(self):
        self.reset(None)

    def reset(self, env, c0s=()):
        self.env = env
        self.aggs = {}      # id(z3 term of the sum) -> (V, S)
        self.c0s = list(c0s)
        self.nlem = 0
        self.nd = {}

    def defs(self):
        return [V.t == Sd.t for V, Sd in self.aggs.values()]


CTX = _Ctx()


def _pc():
    ex = S.CUR
    if ex is None:
        return []
    return [c if t else z3.Not(c) for c, t, _ in ex.trace]


def _is_one(t):
    return z3.is_rational_value(t) and t.numerator_as_long() == 1 and t.denominator_as_long() == 1


def _nd(env, Sd):
    """(numerator, denominator, ok): division-free form of an aggregate definition; ok = the denominator is 1
    or z3 proves it > 0 from the preconditions."""
    k = Sd.t.get_id()
    if k not in CTX.nd:
        n, d = S._poly_nf(Sd.t)
        ok = _is_one(d) or S.prove(d > 0, list(env.pre), _pc(), (), LEM_MS).status == 'unsat'
        CTX.nd[k] = (n, d, ok)
    return CTX.nd[k]


_OPS = {'>=': lambda x, y: x >= y, '<=': lambda x, y: x <= y, '==': lambda x, y: x == y}


def _try_lemma(env, items, rest, op, k):
    """candidate lemma  sum a_i V_i + rest  op  k  (V_i aggregates with definitions S_i = n_i/d_i): proved by
    z3 from the definitions in division-free form (multiplied through by the common positive denominator)."""
    nds = [_nd(env, Sd) for _, Sd, _ in items]
    if not all(ok for _, _, ok in nds):
        return
    den = None
    for n, d, _ in nds:
        if not _is_one(d):
            if den is not None and not z3.eq(den, d):
                return
            den = d
    lhs = rest if rest is not None else z3.RealVal(0)
    if den is not None:
        lhs = lhs * den
    for (V, Sd, a), (n, d, _) in zip(items, nds):
        lhs = lhs + a * (n if (den is None or not _is_one(d)) else n * den)
    rhs = z3.RealVal(k) if den is None else k * den
    if S.check_sat(list(env.pre) + _pc() + [z3.Not(_OPS[op](lhs, rhs))], LEM_MS).status == 'unsat':
        lem = rest if rest is not None else z3.RealVal(0)
        for V, Sd, a in items:
            lem = lem + a * V.t
        env.assume(_OPS[op](lem, z3.RealVal(k)))
        CTX.nlem += 1


def _hooked_sum(a, *args, **kw):
    """numpy.sum as seen by LowPass: a non-constant scalar sum becomes a fresh real with proven lemmas."""
    r = np.sum(a, *args, **kw)
    env = CTX.env
    if env is None or S.CUR is None or not isinstance(r, S.Sym) or r.c is not None:
        return r
    k = r.t.get_id()
    if k in CTX.aggs:
        return CTX.aggs[k][0]
    V = S.R('agg%d' % len(CTX.aggs))
    others = list(CTX.aggs.values())
    CTX.aggs[k] = (V, r)
    _try_lemma(env, [(V, r, 1)], None, '>=', 0)
    _try_lemma(env, [(V, r, 1)], None, '<=', 1)
    _try_lemma(env, [(V, r, 2)], None, '<=', 1)
    for c0 in CTX.c0s:
        _try_lemma(env, [(V, r, 1)], S.tz(c0), '==', 1)
    for V2, r2 in others:
        _try_lemma(env, [(V, r, 1), (V2, r2, 1)], None, '<=', 1)
    return V


def _match(env, expr):
    """The code aggregate provably equal (z3, exact definitions) to the independently written expression;
    the expression itself when there is none (then claims using it are decided in exact form)."""
    if not env.symbolic:
        return expr
    e = S.Sym.lift(expr)
    if e.c is not None:
        return e
    for V, Sd in CTX.aggs.values():
        if z3.eq(Sd.t, e.t):
            return V
        cs = list(env.pre) + _pc() + [d != 0 for d in S.collect_denominators([Sd.t, e.t])]
        if S.check_sat(cs + [z3.Not(S.eq_crossmult(Sd.t, e.t))], LEM_MS).status == 'unsat':
            return V
    return e


def _abs_ok(env, claim):
    return S.prove(claim, list(env.pre), _pc(), (), ABS_MS).status == 'unsat'


def c_holds(env, label, cond):
    if env.symbolic and CTX.aggs and isinstance(cond, S.SymBool) and not _abs_ok(env, cond.t):
        env.holds(label + ' [exact]', cond, pre=CTX.defs())
    else:
        env.holds(label, cond)


def c_le(env, label, a, b):
    """a <= b (concrete replay: with a round-off allowance)."""
    if env.symbolic:
        c_holds(env, label, S.Sym.lift(a) <= S.Sym.lift(b))
    else:
        env.holds(label, float(a) <= float(b) + 1e-9 * (1.0 + abs(float(b))))


def c_eq(env, label, a, b, slack=None, scale=None):
    if env.symbolic and CTX.aggs:
        a_, b_ = S.Sym.lift(a), S.Sym.lift(b)
        if not ((a_.c is not None and b_.c is not None) or z3.eq(a_.t, b_.t)):
            if slack is None:
                ok = S.prove_eq(a_, b_, list(env.pre), _pc(), (), ABS_MS).status == 'unsat'
            else:
                d = a_ - b_
                sc = S.tz(slack) * S.tz(scale)
                ok = _abs_ok(env, z3.And(S.tz(d) <= sc, -S.tz(d) <= sc))
            if not ok:
                env.eq(label + ' [exact]', a, b, slack=slack, scale=scale, pre=CTX.defs())
                return
    env.eq(label, a, b, slack=slack, scale=scale)


def c_eq_any(env, label, a, alts):
    """a equals one of the alternatives"""
    if len(alts) == 1:
        return c_eq(env, label, a, alts[0])
    if env.symbolic:
        cond = False
        for b in alts:
            cond = (S.Sym.lift(a) == S.Sym.lift(b)) | cond
        c_holds(env, label, cond)
    else:
        a = float(a)
        env.holds(label, any(abs(a - float(b)) <= 1e-7 * max(abs(a), abs(float(b)), 1e-300) for b in alts))


def _lemma(env, cond):
    """symbolic runs only: assume `cond` (z3 Bool) if z3 proves it from what is known so far; returns success"""
    if S.prove(cond, list(env.pre), _pc(), (), ABS_MS).status == 'unsat':
        env.assume(cond)
        CTX.nlem += 1
        return True
    return False


# ---- stretch: formal log-Gamma algebra for symbolic arguments (inbreeding)
class LnForm:
    """ln(q) + sum_k coef_k * lnGamma(base_k + shift_k); q a positive Sym, base_k z3 terms, shift_k integers."""
    __array_priority__ = 0

    def __init__(self, q, terms):
        self.q = q
        self.terms = terms   # {(base_id, shift): [base_term, coef]}

    @staticmethod
    def of(o):
        if isinstance(o, LnForm):
            return o
        if isinstance(o, esf.LogQ):
            if o.q == esf.INF:
                raise ArithmeticError('infinite log in LnForm')
            return LnForm(S.Sym(c=Fr(o.q)), {})
        if isinstance(o, (int, float, np.integer, np.floating)) and o == 0:
            return LnForm(S.Sym(c=Fr(1)), {})
        raise TypeError(type(o))

    def _comb(self, o, sign):
        try:
            o = LnForm.of(o)
        except TypeError:
            return NotImplemented
        t = {k: [v[0], v[1]] for k, v in self.terms.items()}
        for k, v in o.terms.items():
            if k in t:
                t[k][1] += sign * v[1]
            else:
                t[k] = [v[0], sign * v[1]]
        t = {k: v for k, v in t.items() if v[1] != 0}
        return LnForm(self.q * o.q if sign > 0 else self.q / o.q, t)

    def __add__(self, o): return self._comb(o, +1)
    __radd__ = __add__
    def __sub__(self, o): return self._comb(o, -1)

    def __rsub__(self, o):
        return LnForm.of(o)._comb(self, -1)

    def __neg__(self):
        return LnForm.of(0)._comb(self, -1)

    def exp(self):
        q = self.q
        per_base = {}
        for (bid, shift), (base, coef) in self.terms.items():
            # Gamma(base+shift) = base (base+1) ... (base+shift-1) Gamma(base)   (shift >= 0)
            if shift < 0:
                raise ArithmeticError('negative shift in LnForm')
            rising = S.Sym(c=Fr(1))
            for t in range(shift):
                rising = rising * (S.Sym(base) + t)
            q = q * rising ** coef if coef > 0 else q / rising ** (-coef)
            per_base[bid] = per_base.get(bid, 0) + coef
        if any(v != 0 for v in per_base.values()):
            raise ArithmeticError('log-Gamma terms do not cancel: exp() outside the exact stub')
        return q


def _gammaln_sym(x):
    if isinstance(x, np.ndarray):
        out = np.empty(x.shape, dtype=object)
        for idx in np.ndindex(*x.shape):
            out[idx] = _gammaln_sym(x[idx])
        return out
    if not isinstance(x, S.Sym) or x.c is not None:
        return esf.gammaln(x)
    t = z3.simplify(x.t)
    shift, base = 0, t
    if z3.is_add(t):
        nums = [a for a in t.children() if z3.is_rational_value(a)]
        if len(nums) == 1 and nums[0].denominator_as_long() == 1:
            shift = nums[0].numerator_as_long()
            rest = [a for a in t.children() if not z3.is_rational_value(a)]
            base = rest[0] if len(rest) == 1 else z3.simplify(z3.Sum(rest))
    if shift < 0:
        shift, base = 0, t
    return LnForm(S.Sym(c=Fr(1)), {(base.get_id(), shift): [base, 1]})


def _betaln_sym(a, b):
    return _gammaln_sym(a) + _gammaln_sym(b) - _gammaln_sym(a + b)


# ================================================================================================
def _silence():
    for nm in ('Spectrum_mod', 'Numerics', 'dadi', 'dadi.Spectrum_mod', 'dadi.Numerics', 'Inference'):
        logging.getLogger(nm).setLevel(logging.ERROR)


def _mods():
    import dadi
    from dadi import Numerics
    from dadi.LowPass import LowPass as LP
    return dadi, Numerics, LP


def _setup():
    import dadi
    from dadi import Numerics, Spectrum_mod
    from dadi.LowPass import LowPass as LP
    _silence()
    shims.install_numpy(LP, overrides={'sum': _hooked_sum})
    shims.install_numpy(Numerics)
    shims.install_numpy(Spectrum_mod)
    shims.patch_spectrum_dtype(dadi.Spectrum)
    shims.set_attr(Numerics, 'gammaln', esf.gammaln)
    shims.set_attr(LP, 'ssd', _SSD)
    shims.set_attr(LP, 'comb', esf.comb)
    for cache in (Numerics._projection_cache, Numerics._multinomln_cache, Numerics._part_cache,
                  Numerics._BetaBinomln_cache):
        cache.clear()


def _setup_inbreeding():
    _setup()
    from dadi import Numerics
    shims.set_attr(Numerics, 'gammaln', _gammaln_sym)
    shims.set_attr(Numerics, 'betaln', _betaln_sym)


def concrete_setup():
    _silence()


def _cov(env, name, D, support=None):
    """coverage distribution in the format LowPass uses: 2 x (D+1) array [depths, probabilities]."""
    c = []
    for d in range(D + 1):
        if support is None or d in support:
            c.append(env.real('%s%d' % (name, d), lo=0))
        else:
            c.append(env.const(Fr(0)))
    tot = c[0]
    for x in c[1:]:
        tot = tot + x
    env.assume(tot == 1)
    if env.symbolic:
        cov = np.empty((2, D + 1), dtype=object)
        for d in range(D + 1):
            cov[0, d] = d
            cov[1, d] = c[d]
    else:
        cov = np.array([np.arange(D + 1, dtype=float), np.array(c, dtype=float)])
    return cov, c


def _aggregates(env, c, matched=True):
    """independently written coverage aggregates: h0 = P(het shows no alt read) = sum c_d 2^-d,
    h1 = P(het shows exactly one alt read) = sum d c_d 2^-d, e = P(a covered het shows one allele only)."""
    D = len(c) - 1
    h0 = env.const(Fr(0))
    h1 = env.const(Fr(0))
    e2 = env.const(Fr(0))
    cov1 = env.const(Fr(0))
    for d in range(D + 1):
        h0 = h0 + c[d] * Fr(1, 2 ** d)
        h1 = h1 + c[d] * Fr(d, 2 ** d)
        if d >= 1:
            e2 = e2 + c[d] * Fr(1, 2 ** d)
            cov1 = cov1 + c[d]
    e2 = e2 / cov1     # = prob_het_err / 2 = sum_{d>=1} P(depth d | depth >= 1) 2^-d
    if matched:
        h0, h1, e2 = _match(env, h0), _match(env, h1), _match(env, e2)
    return h0, h1, e2


# ================================================================================================
# oracles
def orc_partitions(m, a):
    return sorted({tuple(sorted(g)) for g in itertools.product((0, 1, 2), repeat=m) if sum(g) == a})


def orc_partitions_fast(m, a):
    """same set through counts (n2 hom-alt, n1 het): used for m > 7 where 3^m is too slow"""
    out = []
    for n2 in range(0, a // 2 + 1):
        n1 = a - 2 * n2
        if n1 + n2 <= m:
            out.append(tuple([0] * (m - n1 - n2) + [1] * n1 + [2] * n2))
    return sorted(out)


def orc_part_prob(part):
    """P(unordered genotype configuration | allele count) when all C(2m, a) haplotype configurations are
    equally likely: (#orderings) * 2^het / C(2m, a)."""
    m, a = len(part), sum(part)
    n0, n1, n2 = part.count(0), part.count(1), part.count(2)
    ways = math.factorial(m) // (math.factorial(n0) * math.factorial(n1) * math.factorial(n2))
    return Fr(ways * 2 ** n1, math.comb(2 * m, a))


def _vectors(m, a):
    return [g for g in itertools.product((0, 1, 2), repeat=m) if sum(g) == a]


def orc_nocall(env, m, a, c0, c1, h0, h1):
    """P(at most one alt read in total | allele count a among m diploids): explicit sum over ordered genotype
    vectors (weight 2^het / C(2m,a)) and over which individual contributes the single alt read."""
    p0 = {0: env.const(Fr(1)), 1: h0, 2: c0}
    p1 = {0: env.const(Fr(0)), 1: h1, 2: c1}
    tot = env.const(Fr(0))
    for g in _vectors(m, a):
        w = Fr(2 ** g.count(1), math.comb(2 * m, a))
        none = env.const(Fr(1))
        for gi in g:
            none = none * p0[gi]
        one = env.const(Fr(0))
        for i, gi in enumerate(g):
            if gi == 0:
                continue
            t = p1[gi]
            for j, gj in enumerate(g):
                if j != i:
                    t = t * p0[gj]
            one = one + t
        tot = tot + (none + one) * w
    return tot


def orc_enough(env, n, nsub, c0):
    M = n // 2 - 1
    kmin = max(nsub // 2 - 1, 0)
    tot = env.const(Fr(0))
    for k in range(kmin, M + 1):
        tot = tot + (1 - c0) ** k * c0 ** (M - k) * math.comb(M, k)
    return tot


def orc_hyper(n, nsub, i, j):
    if 0 <= i - j <= n - nsub:
        return Fr(math.comb(nsub, j) * math.comb(n - nsub, i - j), math.comb(n, i))
    return Fr(0)


def orc_heterr(env, nsub, a, b, e2):
    """P(called allele count b | true count a) with m = nsub/2 diploids: every heterozygote independently is
    called hom-ref with prob e/2, hom-alt with prob e/2 (e = 2*e2), correctly otherwise."""
    m = nsub // 2
    e = e2 * 2
    tot = env.const(Fr(0))
    for h in range(0, m + 1):
        if (a - h) % 2 or a - h < 0:
            continue
        n2 = (a - h) // 2
        if h + n2 > m:
            continue
        ph = Fr(math.comb(m, h) * math.comb(m - h, n2) * 2 ** h, math.comb(2 * m, a))
        for k in range(0, h + 1):
            if (k + b - a) % 2:
                continue
            u = (k + b - a) // 2     # hets miscalled upwards
            if u < 0 or u > k:
                continue
            tot = tot + e ** k * (1 - e) ** (h - k) * (ph * math.comb(h, k) * Fr(math.comb(k, u), 2 ** k))
    return tot


# ================================================================================================
# bodies
def make_partitions_body(n):
    def body(env):
        dadi, Numerics, LP = _mods()
        CTX.reset(None)
        m = n // 2
        orc = orc_partitions if m <= 7 else orc_partitions_fast
        Numerics._part_cache.clear()
        for round_ in ('cold', 'warm'):
            for a in range(0, n + 1):
                want = orc(m, a)
                for mfloat in (m, n / 2):     # LowPass passes n_sequenced/2 (a float)
                    got = Numerics.cached_part(a, mfloat)
                    gott = [tuple(p) for p in got]
                    ok = (len(set(gott)) == len(gott) and sorted(gott) == want
                          and all(list(p) == sorted(p) for p in gott))
                    env.holds('%s cached_part(%d,%s) == brute force' % (round_, a, mfloat), ok)
                gen = [tuple(p) for p in Numerics.part(a, m)]
                env.holds('%s part(%d,%d) == brute force' % (round_, a, m), sorted(gen) == want and len(gen) == len(want))
        env.holds('part outside range is empty', list(Numerics.part(n + 1, m)) == [] and list(Numerics.part(-1, m)) == [])
        # probabilities, both modes
        parts_g, probs_g = LP.partitions_and_probabilities(n, 'genotype', 0)
        env.holds('genotype mode: one entry per allele count', len(parts_g) == n + 1 and len(probs_g) == n + 1)
        for a in range(0, n + 1):
            parts, probs = LP.partitions_and_probabilities(n, 'allele_frequency', 0, a)
            env.holds('af mode partitions a=%d' % a, sorted(tuple(p) for p in parts) == orc(m, a))
            env.holds('af mode lengths a=%d' % a, len(parts) == len(probs) == len(parts_g[a]) == len(probs_g[a]))
            tot = env.const(Fr(0))
            totg = env.const(Fr(0))
            for p, pr, pg, prg in zip(parts, probs, parts_g[a], probs_g[a]):
                env.eq('af mode P(%s)' % (p,), pr, env.const(orc_part_prob(list(p))))
                env.eq('genotype mode P(%s)' % (pg,), prg, env.const(orc_part_prob(list(pg))))
                env.holds('prob >= 0 %s' % (p,), pr >= 0)
                tot = tot + pr
                totg = totg + prg
            env.eq('af mode sum a=%d' % a, tot, env.const(Fr(1)))
            env.eq('genotype mode sum a=%d' % a, totg, env.const(Fr(1)))
        try:
            LP.partitions_and_probabilities(n + 1, 'allele_frequency', 0, 1)
            env.fail('odd n_sequenced accepted')
        except ValueError:
            env.holds('odd n_sequenced rejected', True)
        try:
            LP.partitions_and_probabilities(n, 'haplotype', 0, 1)
            env.fail('unknown partition_type accepted')
        except ValueError:
            env.holds('unknown partition_type rejected', True)
    return body


def make_projmat_body(n):
    def body(env):
        dadi, Numerics, LP = _mods()
        CTX.reset(None)
        for nsub in range(2, n + 1, 2):
            for warm in (False, True):
                if not warm:
                    Numerics._projection_cache.clear()
                M = LP.projection_matrix(n, nsub, 0)
                env.holds('shape n=%d nsub=%d' % (n, nsub), tuple(np.shape(M)) == (n + 1, nsub + 1))
                for i in range(n + 1):
                    tot = env.const(Fr(0))
                    for j in range(nsub + 1):
                        env.eq('P[%d,%d] nsub=%d warm=%s' % (i, j, nsub, warm), M[i, j], env.const(orc_hyper(n, nsub, i, j)))
                        env.holds('P[%d,%d]>=0 nsub=%d warm=%s' % (i, j, nsub, warm), M[i, j] >= 0)
                        tot = tot + M[i, j]
                    env.eq('row %d sums to 1 nsub=%d warm=%s' % (i, nsub, warm), tot, env.const(Fr(1)))
    return body


SPARSE80 = (0, 1, 2, 3, 4, 8, 16, 40, 80)


def make_nocall_body(D, n, support=None):
    def body(env):
        dadi, Numerics, LP = _mods()
        cov, c = _cov(env, 'c', D, support=support)
        CTX.reset(env, [c[0]])
        res = LP.probability_of_no_call_1D_GATK_multisample(cov, n, 0)
        env.holds('length', len(res) == n + 1)
        h0, h1, _ = _aggregates(env, c)
        for a in range(n + 1):
            c_le(env, 'nocall[%d] >= 0' % a, 0, res[a])
            c_le(env, 'nocall[%d] <= 1' % a, res[a], 1)
            c_eq(env, 'nocall[%d] == P(<=1 alt read)' % a, res[a], orc_nocall(env, n // 2, a, c[0], c[1], h0, h1))
        env.eq('nocall[0] == 1 (no alt allele, never called variant)', res[0], env.const(Fr(1)))
        env.note('lemmas=%d aggregates=%d' % (CTX.nlem, len(CTX.aggs)))
    return body


def make_enough_body(D, n, support=None):
    def body(env):
        dadi, Numerics, LP = _mods()
        cov, c = _cov(env, 'c', D, support=support)
        CTX.reset(env, [c[0]])
        prev = None
        for nsub in range(2, n + 1, 2):
            r = LP.probability_enough_individuals_covered(cov, n, nsub)
            c_le(env, 'enough(nsub=%d) >= 0' % nsub, 0, r)
            c_le(env, 'enough(nsub=%d) <= 1' % nsub, r, 1)
            c_eq(env, 'enough(nsub=%d) == binomial tail' % nsub, r, orc_enough(env, n, nsub, c[0]))
            if nsub == 2:
                c_eq(env, 'enough(nsub=2) == 1', r, env.const(Fr(1)))
            if prev is not None:
                c_le(env, 'enough decreasing in nsub (%d)' % nsub, r, prev)
            prev = r
    return body


def make_heterr_body(D, nsub):
    def body(env):
        dadi, Numerics, LP = _mods()
        cov, c = _cov(env, 'c', D)
        env.assume(c[0] < 1)
        CTX.reset(env, [c[0]])
        E = LP.calling_error_matrix(cov, nsub, 0)
        env.holds('shape', tuple(np.shape(E)) == (nsub + 1, nsub + 1))
        _, _, e2 = _aggregates(env, c)
        if env.symbolic:
            c_holds(env, 'prob_het_err in [0,1]', (e2 >= 0) & (e2 * 2 <= 1))
        for a in range(nsub + 1):
            tot = env.const(Fr(0))
            mean = env.const(Fr(0))
            for b in range(nsub + 1):
                c_le(env, 'E[%d,%d] >= 0' % (a, b), 0, E[a, b])
                c_eq(env, 'E[%d,%d] == miscall kernel' % (a, b), E[a, b], orc_heterr(env, nsub, a, b, e2))
                tot = tot + E[a, b]
                mean = mean + E[a, b] * b
            c_eq(env, 'row %d sums to 1' % a, tot, env.const(Fr(1)))
            c_eq(env, 'row %d keeps the mean allele count' % a, mean, env.const(Fr(a)))
        if env.symbolic and CTX.aggs:
            # no miscalls <=> identity (the matrix as a polynomial in the aggregate, evaluated at 0)
            zero = [V.t == 0 for V, _ in CTX.aggs.values()]
            for a in range(nsub + 1):
                for b in range(nsub + 1):
                    env.eq('E[%d,%d] at prob_het_err=0 is the identity' % (a, b), E[a, b],
                           env.const(Fr(1 if a == b else 0)), pre=zero)
    return body


def _spectrum(dadi, arr):
    return dadi.Spectrum(arr)


def make_pipeline_body(Ds, nseq, nsub, deep_support=None, full=True):
    P = len(nseq)
    shape = tuple(n + 1 for n in nseq)
    oshape = tuple(n + 1 for n in nsub)

    def body(env):
        dadi, Numerics, LP = _mods()
        covs, cs = {}, []
        for p in range(P):
            cov, c = _cov(env, 'c%d_' % p, Ds[p], support=deep_support)
            env.assume(c[0] < 1)
            covs['pop%d' % p] = cov
            cs.append(c)
        CTX.reset(env, [c[0] for c in cs])
        m = env.array('m', shape, lo=0)
        zero = env.const(Fr(0))
        # ---- the helpers on their own (real code); proven ranges are assumed afterwards so that the
        # analytic/simulated switch `prob_nocall_ND > sim_threshold` never needs a hard feasibility query
        nocall = [LP.probability_of_no_call_1D_GATK_multisample(covs['pop%d' % p], nseq[p], 0) for p in range(P)]
        if env.symbolic:
            for p in range(P):
                for a in range(nseq[p] + 1):
                    x = nocall[p][a]
                    if isinstance(x, S.Sym) and x.c is None:
                        _lemma(env, z3.And(x.t >= 0, x.t <= 1))
            nd = 1
            for p in range(P):
                nd = np.multiply.outer(nd, nocall[p])
            for idx in np.ndindex(*shape):
                x = nd[idx]
                if isinstance(x, S.Sym) and x.c is None:
                    _lemma(env, z3.Not(z3.simplify((x > 1).t)))
        # ---- precalc
        pre = LP.low_cov_precalc_GATK_multisample_GATK_multisample(list(nsub), list(nseq), covs, 1, [0] * P, nsim=10)
        prob_nocall_ND, use_sim, proj_mats, heterr_mats, sim_out = pre
        env.holds('analytic regime: nothing simulated', (not np.any(use_sim)) and len(sim_out) == 0)
        env.holds('precalc shapes', tuple(np.shape(prob_nocall_ND)) == shape and len(proj_mats) == P == len(heterr_mats))
        # ---- independent oracles per population
        o_call, o_enough, o_PE = [], env.const(Fr(1)), []
        for p in range(P):
            c = cs[p]
            h0, h1, e2 = _aggregates(env, c)
            o_call.append([orc_nocall(env, nseq[p] // 2, a, c[0], c[1], h0, h1) for a in range(nseq[p] + 1)])
            o_enough = o_enough * orc_enough(env, nseq[p], nsub[p], c[0])
            PE = np.empty((nseq[p] + 1, nsub[p] + 1), dtype=object)
            Eo = [[orc_heterr(env, nsub[p], k, j, e2) for j in range(nsub[p] + 1)] for k in range(nsub[p] + 1)]
            for i in range(nseq[p] + 1):
                for j in range(nsub[p] + 1):
                    t = env.const(Fr(0))
                    for k in range(nsub[p] + 1):
                        hy = orc_hyper(nseq[p], nsub[p], i, k)
                        if hy != 0:
                            t = t + Eo[k][j] * hy
                    PE[i, j] = t
            o_PE.append(PE)
            # sub-stochastic projection matrices of the precalc: rows sum to P(enough covered)
            pm = proj_mats[p]
            for i in range(nseq[p] + 1):
                t = env.const(Fr(0))
                for j in range(nsub[p] + 1):
                    t = t + pm[i, j]
                    c_le(env, 'precalc proj[%d][%d,%d] >= 0' % (p, i, j), 0, pm[i, j])
                c_le(env, 'precalc proj[%d] row %d <= 1' % (p, i), t, 1)

        def weight(idx, jdx, power=1):
            nc = env.const(Fr(1))
            for p in range(P):
                nc = nc * o_call[p][idx[p]]
            w = (1 - nc) * o_enough ** power
            for p in range(P):
                w = w * o_PE[p][idx[p], jdx[p]]
            return w
        # The code multiplies P(enough individuals covered in every population) into the projection matrix of
        # *each* population, i.e. applies it P times for P populations.  The property does not fix this
        # allele-frequency independent factor, so both readings (once / once per population) are accepted.
        powers = [1] if (P == 1 or all(ns_ == 2 for ns_ in nsub)) else [1, P]

        # ---- the pipeline
        state = {}

        def func(params, ns, pts):
            state['ns'] = list(ns)
            return _spectrum(dadi, state['model'])
        lp = LP.make_low_pass_func_GATK_multisample(func, covs, list(covs), list(nseq), list(nsub), sim_threshold=1)
        mask = np.ma.getmaskarray(_spectrum(dadi, np.array(m, dtype=object if env.symbolic else float)))
        unm = [idx for idx in np.ndindex(*shape) if not mask[idx]]
        basis_tot, B = {}, {}
        for idx in unm:
            md = np.empty(shape, dtype=object if env.symbolic else float)
            md.fill(zero)
            md[idx] = m[idx]
            state['model'] = md
            out = lp(None, list(nsub), None)
            od = np.ma.getdata(out)
            if tuple(od.shape) != oshape:
                env.fail('output shape', str(od.shape))
                return
            tot = env.const(Fr(0))
            for jdx in np.ndindex(*oshape):
                c_le(env, 'basis%s out%s >= 0' % (list(idx), list(jdx)), 0, od[jdx])
                c_eq_any(env, 'basis%s out%s == composed oracle' % (list(idx), list(jdx)), od[jdx],
                         [m[idx] * weight(idx, jdx, pw) for pw in powers])
                tot = tot + od[jdx]
            c_le(env, 'basis%s total(out) <= total(model)' % (list(idx),), tot, m[idx])
            basis_tot[idx] = tot
            B[idx] = od
        env.holds('model asked for n_sequenced', state.get('ns') == list(nseq))
        if not full:
            return
        state['model'] = np.array(m, dtype=object if env.symbolic else float)
        out = lp(None, list(nsub), None)
        od = np.ma.getdata(out)
        env.holds('folded flag', out.folded is False or out.folded == False)  # noqa: E712
        tot_out = env.const(Fr(0))
        tot_in = env.const(Fr(0))
        for idx in unm:
            tot_in = tot_in + m[idx]
        for jdx in np.ndindex(*oshape):
            sup = env.const(Fr(0))
            for idx in unm:
                sup = sup + B[idx][jdx]
            c_eq(env, 'full out%s == superposition of single-entry outputs' % (list(jdx),), od[jdx], sup)
            tot_out = tot_out + od[jdx]
        if env.symbolic:
            # chain: (a) per-entry bounds total(out | model = m_i e_i) <= m_i (obligations above), (b) the total of
            # the full output is the sum of the single-entry totals (polynomial identity, next obligation),
            # (c) with T_i standing for the single-entry totals, T_i <= m_i for all i implies sum T_i <= sum m_i.
            sumB = env.const(Fr(0))
            for idx in unm:
                sumB = sumB + basis_tot[idx]
            c_eq(env, 'total(full output) == sum of single-entry totals', tot_out, sumB)
            T = [S.R('T_' + '_'.join(map(str, idx))) for idx in unm]
            sT = env.const(Fr(0))
            for t in T:
                sT = sT + t
            env.holds('total(corrected) <= total(model) from the per-entry bounds', sT <= S.Sym.lift(tot_in),
                      pre=[(t <= S.Sym.lift(m[idx])).t for t, idx in zip(T, unm)])
        else:
            c_le(env, 'total(corrected) <= total(model)', tot_out, tot_in)
        # ---- folded models are refused
        try:
            def ffunc(params, ns, pts):
                fs = _spectrum(dadi, np.array(m, dtype=object if env.symbolic else float))
                fs.folded = True
                return fs
            lpf = LP.make_low_pass_func_GATK_multisample(ffunc, covs, list(covs), list(nseq), list(nsub), sim_threshold=1)
            lpf(None, list(nsub), None)
            env.fail('folded model accepted')
        except ValueError:
            env.holds('folded model rejected', True)
        # ---- deep-coverage limit
        if env.symbolic and CTX.aggs:
            deep = []
            for p in range(P):
                c = cs[p]
                for x in (c[0], c[1]):
                    if isinstance(x, S.Sym) and x.c is None:
                        deep.append(x.t == 0)
                h0, h1, e2 = _aggregates(env, c)
                for x in (h0, h1, e2):
                    if isinstance(x, S.Sym) and x.c is None:
                        if not (z3.is_const(x.t) and str(x.t).startswith('agg')):
                            raise S.ExplorationLimit('deep-coverage limit: coverage aggregate not recognised in the code')
                        deep.append(x.t == 0)
            sat = S.check_sat(list(env.pre) + _pc() + deep, 20000).status == 'sat'
            env.holds('deep-limit point is inside the abstract domain (non-vacuous)', sat)
            mod = _spectrum(dadi, np.array(m, dtype=object))
            pr = mod.project(list(nsub))
            prm = np.ma.getmaskarray(pr)
            prd = np.ma.getdata(pr)
            for jdx in np.ndindex(*oshape):
                want = env.const(Fr(0))
                for idx in unm:
                    w = Fr(1)
                    for p in range(P):
                        w = w * orc_hyper(nseq[p], nsub[p], idx[p], jdx[p])
                    if w != 0:
                        want = want + m[idx] * w
                env.eq('deep limit out%s == hypergeometric projection' % (list(jdx),), od[jdx], want, pre=deep)
                if not prm[jdx]:
                    env.eq('deep limit out%s == Spectrum.project' % (list(jdx),), od[jdx], prd[jdx], pre=deep)
        env.note('lemmas=%d aggregates=%d' % (CTX.nlem, len(CTX.aggs)))
    return body


def make_deep80_body(nseq, nsub, lo, hi):
    """real distributions supported on depths lo..hi: corrected == projected up to 2^-40 relative."""
    n, ns = nseq, nsub

    def body(env):
        dadi, Numerics, LP = _mods()
        cov, c = _cov(env, 'c', hi, support=set(range(lo, hi + 1)))
        CTX.reset(env, [c[0]])
        m = env.array('m', (n + 1,), lo=0)
        if env.symbolic:
            nocall = LP.probability_of_no_call_1D_GATK_multisample(cov, n, 0)
            for V, _ in list(CTX.aggs.values()):
                _lemma(env, V.t <= S.tz(Fr(hi + 1, 2 ** lo)))
            for a in range(n + 1):
                x = nocall[a]
                if isinstance(x, S.Sym) and x.c is None:
                    _lemma(env, z3.And(x.t >= 0, x.t <= 1))
                    _lemma(env, z3.Not(z3.simplify((x > 1).t)))

        def func(params, nn, pts):
            return _spectrum(dadi, np.array(m, dtype=object if env.symbolic else float))
        lp = LP.make_low_pass_func_GATK_multisample(func, {'pop0': cov}, ['pop0'], [n], [ns], sim_threshold=1)
        out = lp(None, [ns], None)
        if env.symbolic:
            for V, _ in list(CTX.aggs.values()):
                _lemma(env, V.t <= S.tz(Fr(hi + 1, 2 ** lo)))
        od = np.ma.getdata(out)
        tot = env.const(Fr(0))
        for i in range(1, n):
            tot = tot + m[i]
        for j in range(ns + 1):
            want = env.const(Fr(0))
            for i in range(1, n):
                w = orc_hyper(n, ns, i, j)
                if w != 0:
                    want = want + m[i] * w
            c_eq(env, 'depths %d..%d: out[%d] == projection (rel 2^-40)' % (lo, hi, j), od[j], want,
                 slack=Fr(1, 2 ** 40), scale=tot)
        env.note('lemmas=%d aggregates=%d' % (CTX.nlem, len(CTX.aggs)))
    return body


# ---- stretch: inbreeding
LIP = 4     # |projection_matrix(F)[i,j] - projection_matrix(0)[i,j]| <= LIP * F
SL = Fr(1, 2 ** 40)


def _geno_probs(env, p, F):
    """textbook genotype frequencies with inbreeding coefficient F at allele frequency p (hom-ref, het, hom-alt)"""
    q = 1 - p
    return (q * q + F * (p * q), (1 - F) * (2 * p * q), p * p + F * (p * q))


def orc_inbred_vector_weights(env, m, a, F):
    """P(ordered genotype vector | allele count a) with inbreeding: prod_t freq(g_t) at p = a/(2m), renormalised
    over the vectors with allele count a.  Returns {vector: weight}."""
    vs = _vectors(m, a)
    if a == 0 or a == 2 * m:
        return {vs[0]: env.const(Fr(1))}
    fr = _geno_probs(env, Fr(a, 2 * m), F)
    w = {}
    tot = env.const(Fr(0))
    for g in vs:
        t = env.const(Fr(1))
        for gi in g:
            t = t * fr[gi]
        w[g] = t
        tot = tot + t
    return {g: w[g] / tot for g in vs}


def make_inbreeding_part_body(n):
    """only F symbolic: partition probabilities and projection_matrix(F)"""
    def body(env):
        dadi, Numerics, LP = _mods()
        F = env.real('F', lo=0, hi=1, lo_open=True, hi_open=True)
        CTX.reset(None)
        one = env.const(Fr(1))
        m = n // 2
        W = {}
        for a in range(n + 1):
            parts, probs = LP.partitions_and_probabilities(n, 'allele_frequency', F, a)
            env.holds('partitions a=%d' % a, sorted(tuple(p) for p in parts) == orc_partitions(m, a))
            W[a] = orc_inbred_vector_weights(env, m, a, F)
            tot = env.const(Fr(0))
            for p, pr in zip(parts, probs):
                want = env.const(Fr(0))
                for g, w in W[a].items():
                    if sorted(g) == list(p):
                        want = want + w
                env.eq('F>0: P(%s) == inbred genotype-frequency model' % (p,), pr, want, slack=SL, scale=one)
                c_le(env, 'F>0: P(%s) >= 0' % (p,), 0, pr)
                tot = tot + pr
            env.eq('F>0: partition probabilities a=%d sum to 1' % a, tot, one, slack=SL, scale=one)
        parts_g, probs_g = LP.partitions_and_probabilities(n, 'genotype', F)
        for a in range(n + 1):
            parts, probs = LP.partitions_and_probabilities(n, 'allele_frequency', F, a)
            env.holds('genotype mode partitions a=%d' % a, [list(p) for p in parts_g[a]] == [list(p) for p in parts])
            for p, x, y in zip(parts, probs, probs_g[a]):
                env.eq('F>0: genotype mode == af mode %s' % (p,), x, y)
        for nsub in range(2, n + 1, 2):
            k = nsub // 2
            M = LP.projection_matrix(n, nsub, F)
            M0 = LP.projection_matrix(n, nsub, 0)
            for i in range(n + 1):
                tot = env.const(Fr(0))
                for j in range(nsub + 1):
                    want = env.const(Fr(0))
                    for g, w in W[i].items():
                        cnt = sum(1 for sub in itertools.combinations(g, k) if sum(sub) == j)
                        if cnt:
                            want = want + w * Fr(cnt, math.comb(m, k))
                    env.eq('F>0: proj(nsub=%d)[%d,%d] == subsample of inbred genotypes' % (nsub, i, j), M[i, j], want,
                           slack=SL, scale=one)
                    c_le(env, 'F>0: proj(nsub=%d)[%d,%d] >= 0' % (nsub, i, j), 0, M[i, j])
                    tot = tot + M[i, j]
                    # history: the F=0 matrix requested AFTER the F>0 one is still the hypergeometric projection
                    # (no memo shared between the two, cf. Numerics._projection_cache)
                    env.eq('history: proj_0(nsub=%d)[%d,%d] after proj_F is hypergeometric' % (nsub, i, j), M0[i, j],
                           env.const(Fr(math.comb(i, j) * math.comb(n - i, nsub - j), math.comb(n, nsub))))
                    d = M[i, j] - M0[i, j]
                    lab = 'F->0: |proj_F - proj_0|[%d,%d] <= %d F (nsub=%d)' % (i, j, LIP, nsub)
                    if env.symbolic:
                        env.holds(lab, (d <= F * LIP + SL) & (-d <= F * LIP + SL))
                    else:
                        env.holds(lab, abs(d) <= LIP * F + 1e-9)
                env.eq('F>0: proj(nsub=%d) row %d sums to 1' % (nsub, i), tot, one, slack=SL, scale=one)
    return body


def make_inbreeding_cov_body(D, n):
    """F and the coverage distribution symbolic: calling_error_matrix(F) and the no-call probability"""
    def body(env):
        dadi, Numerics, LP = _mods()
        F = env.real('F', lo=0, hi=1, lo_open=True, hi_open=True)
        cov, c = _cov(env, 'c', D)
        env.assume(c[0] < 1)
        CTX.reset(env, [c[0]])
        one = env.const(Fr(1))
        for nsub in range(2, n + 1, 2):
            E = LP.calling_error_matrix(cov, nsub, F)
            for a in range(nsub + 1):
                tot = env.const(Fr(0))
                for b in range(nsub + 1):
                    c_le(env, 'F>0: E(nsub=%d)[%d,%d] >= 0' % (nsub, a, b), 0, E[a, b])
                    tot = tot + E[a, b]
                c_eq(env, 'F>0: E(nsub=%d) row %d sums to 1' % (nsub, a), tot, one, slack=SL, scale=one)
        res = LP.probability_of_no_call_1D_GATK_multisample(cov, n, F)
        for a in range(n + 1):
            c_le(env, 'F>0: nocall[%d] >= 0' % a, 0, res[a])
            c_le(env, 'F>0: nocall[%d] <= 1' % a, res[a], one + SL)
    return body


def stub_validation_body(env):
    """the exact stubs agree with scipy on their domain (harness validation; decided numerically, no claim about dadi)"""
    if not env.symbolic:
        env.holds('stub validation runs in the symbolic worker only', True)
        return
    import scipy.special as sp
    import scipy.stats.distributions as ssd
    env.holds('esf.selftest', esf.selftest() > 100)
    ok = True
    for n in range(0, 7):
        for k in range(-1, n + 2):
            for p in (Fr(0), Fr(1, 7), Fr(1, 2), Fr(9, 10), Fr(1)):
                got = esf.binom_pmf(k, n, S.C(p))
                ok = ok and abs(float(S.Sym.lift(got).c) - ssd.binom.pmf(k, n, float(p))) < 1e-12
            ok = ok and esf.comb(n, k) == int(round(sp.comb(n, k)))
    env.holds('esf.binom_pmf / esf.comb == scipy', bool(ok))
    # formal log-Gamma algebra: BetaBinomln through the stubs, evaluated at rational (alpha, beta), vs scipy
    a, b = S.R('va'), S.R('vb')
    ok = True
    for n in (2, 3):
        for i in range(n + 1):
            form = esf.lncomb(n, i) + _betaln_sym(i + a, n - i + b) - _betaln_sym(a, b)
            val = form.exp()
            for av, bv in ((Fr(1, 3), Fr(5, 2)), (Fr(7, 2), Fr(1, 9)), (Fr(2), Fr(3))):
                t = z3.simplify(z3.substitute(val.t, (a.t, S.tz(av)), (b.t, S.tz(bv))))
                num = float(Fr(t.numerator_as_long(), t.denominator_as_long()))
                ref = math.exp(math.log(sp.comb(n, i)) + sp.betaln(i + float(av), n - i + float(bv)) - sp.betaln(float(av), float(bv)))
                ok = ok and abs(num - ref) < 1e-10
    env.holds('LnForm Beta-binomial == scipy', bool(ok))


# ================================================================================================
def units(tier, seed):
    th = (tier == 'thorough')
    us = []

    def add(name, body, params, min_ob, timeout=None, stretch=False, setup=_setup, paths=1, qt=120000):
        # n_sequenced = 8 is beyond the planned bounds (degree-4 polynomial inequalities, close to what z3
        # decides within the budget): those units are extras and may be inconclusive without failing the check
        stretch = stretch or name in ('nocall-D4-n8', 'nocall-D80sparse-n8')
        us.append(H.Unit(name, body, params=params, setup=setup, min_obligations=min_ob,
                         timeout_s=timeout or (1100 if th else 170), expect_paths=paths, maxpaths=8,
                         query_timeout_ms=qt, stretch=stretch))

    add('stub-validation', stub_validation_body, dict(what='exact stubs vs scipy'), 3, setup=_setup_inbreeding)
    for n in range(2, (20 if th else 12) + 1, 2):
        add('partitions-n%d' % n, make_partitions_body(n), dict(n_sequenced=n), 8 * n)
    for n in range(2, (20 if th else 8) + 1, 2):
        add('projmat-F0-n%d' % n, make_projmat_body(n), dict(n_sequenced=n), 2 * (n + 1))
    nocall_cfg = [(1, 2), (3, 2), (3, 4), (8, 4), (3, 6), (4, 6)]
    if th:
        nocall_cfg += [(4, 8), (20, 4), (80, 4)]
    for D, n in nocall_cfg:
        add('nocall-D%d-n%d' % (D, n), make_nocall_body(D, n), dict(max_depth=D, n_sequenced=n), 3 * (n + 1))
    for D, n in ([(3, 2), (3, 4), (3, 6)] + ([(3, 8), (3, 10), (80, 4)] if th else [])):
        add('enough-D%d-n%d' % (D, n), make_enough_body(D, n), dict(max_depth=D, n_sequenced=n), 3 * (n // 2))
    if th:   # depths 0..80 with symbolic mass on an enumerated sparse support (fewer solver variables)
        for n in (6, 8):
            add('nocall-D80sparse-n%d' % n, make_nocall_body(80, n, SPARSE80),
                dict(max_depth=80, support=list(SPARSE80), n_sequenced=n), 3 * (n + 1))
        add('enough-D80sparse-n8', make_enough_body(80, 8, SPARSE80),
            dict(max_depth=80, support=list(SPARSE80), n_sequenced=8), 12)
    heterr_cfg = [(1, 2), (3, 2), (3, 4), (8, 4), (4, 6)]
    if th:
        heterr_cfg += [(4, 8), (20, 4), (80, 2)]
    for D, ns in heterr_cfg:
        add('heterr-D%d-s%d' % (D, ns), make_heterr_body(D, ns), dict(max_depth=D, n_subsampling=ns), 3 * (ns + 1) ** 2)
    pipe_cfg = [((3,), (2,), (2,)), ((3,), (4,), (2,)), ((3,), (4,), (4,)), ((2, 2), (2, 2), (2, 2)),
                ((2, 2), (4, 2), (4, 2)), ((2, 2, 2), (2, 2, 2), (2, 2, 2))]
    if th:
        pipe_cfg += [((4,), (6,), (2,)), ((4,), (6,), (4,)), ((4,), (6,), (6,)), ((80,), (4,), (2,)),
                     ((2, 2), (4, 2), (2, 2)), ((2, 2), (4, 4), (2, 2)),
                     ((2, 2, 2), (2, 2, 2), (2, 2, 2))]
    for Ds, nseq, nsub in pipe_cfg:
        nm = 'pipeline-%dpop-D%s-seq%s-sub%s' % (len(nseq), 'x'.join(map(str, Ds)), 'x'.join(map(str, nseq)),
                                               'x'.join(map(str, nsub)))
        nout = int(np.prod([s + 1 for s in nsub]))
        add(nm, make_pipeline_body(Ds, nseq, nsub), dict(max_depth=list(Ds), n_sequenced=list(nseq),
                                                         n_subsampling=list(nsub), sim_threshold=1), 4 * nout)
    # ---- call history: two data sets with the same population labels / sizes / options but different coverage, in one
    #      process (a memo keyed on the labels alone would hand the second wrapper the first one's matrices)
    class _Pref:
        def __init__(self, env, p):
            self._e, self._p, self.symbolic = env, p, env.symbolic

        def __getattr__(self, k):
            return getattr(self._e, k)

        def real(self, name, *a, **kw):
            return self._e.real(self._p + name, *a, **kw)

        def array(self, name, *a, **kw):
            return self._e.array(self._p + name, *a, **kw)

        def eq(self, label, *a, **kw):
            return self._e.eq(self._p + ':' + label, *a, **kw)

        def holds(self, label, *a, **kw):
            return self._e.holds(self._p + ':' + label, *a, **kw)

    def hist_body(cfgs):
        bodies = [make_pipeline_body(*c_, full=False) for c_ in cfgs]

        def body(env):
            for k_, b_ in enumerate(bodies):
                b_(_Pref(env, 'h%d' % k_))
        return body
    add('pipeline-history-1pop-D2-then-D3-seq4-sub2', hist_body([((2,), (4,), (2,)), ((3,), (4,), (2,))]),
        dict(history=[[2, 4, 2], [3, 4, 2]], sim_threshold=1), 12)
    for nseq, nsub in ([(4, 2)] + ([(4, 4), (6, 4)] if th else [])):
        add('deep-depth78to80-seq%d-sub%d' % (nseq, nsub), make_deep80_body(nseq, nsub, 78, 80),
            dict(n_sequenced=nseq, n_subsampling=nsub, depths=[78, 80]), nsub + 1)
    for n in ([2, 4, 6] + ([8] if th else [])):
        add('inbreeding-partitions-n%d' % n, make_inbreeding_part_body(n), dict(n_sequenced=n, F='symbolic in (0,1)'),
            6 * n, setup=_setup_inbreeding)
    for D, n in ([(2, 2), (2, 4)] + ([(3, 4)] if th else [])):
        add('inbreeding-coverage-D%d-n%d' % (D, n), make_inbreeding_cov_body(D, n),
            dict(max_depth=D, n_sequenced=n, F='symbolic in (0,1)'), 4 * n, stretch=True, setup=_setup_inbreeding)
    return us
