"""C01 (fragment) - one-population integration vs theory: exact discrete consequences.

The convergence statement of C01 (error ~ dt, 1.5 % at a tenth of the step, coalescent expectations for 1-4 epochs)
is a limit statement over hundreds of steps on 30-60 point grids and is NOT claimed.  Two exact consequences of the same
theory are decided here, for all grids / sizes / theta0 / beta / dt:
  (S) the textbook neutral equilibrium theta0*nu/x * 4 beta/(beta+1)^2 (what PhiManip.phi_1D returns for gamma=0) is a
      fixed point of the real one-population integrator at every interior frequency 0 < x < 1, for any number of steps
      (the values stored at x=0 and x=1 are boundary bookkeeping that the interior rows never read);
  (H) heterozygosity decays at rate 1/(2N): for EVERY density, one implicit step maps H = sum_j w_j x_j(1-x_j) phi_j to
      H' with H'(1/dt + kappa/nu) = H/dt (+ influx), kappa = (beta+1)^2/(4 beta); the influx raises H by
      dt*theta0/2*(1-x_1).  This pins the time unit (2N generations), the 1/nu drift, the theta0/2 influx and the beta factor.
"""
import numpy as np

from engine import harness as H
from engine import symreal as S
from checks import kernels as K
from checks.c04 import weights

META = dict(
    explanation=(
        'Fragment.  (S) PhiManip.phi_1D(gamma=0) is proved equal to the textbook neutral equilibrium theta0*nu/x*4beta/(beta+1)^2 '
        'for symbolic grid, nu, theta0, beta, and Integration.one_pop (constant driver -> tridiag; time-dependent driver -> '
        'implicit_1Dx from its LLVM IR) is run on it with the tridiagonal solver replaced by its contract: z3 proves a[1]=0 and '
        'that rows 1..L-1 of the system are satisfied by the equilibrium itself, so by uniqueness (lemma T1\', proved in C02) the '
        'step returns the equilibrium at every frequency>0; the hook then returns exactly that and the argument repeats for '
        'every further step (T<=k*dt).  (H) for arbitrary densities the captured coefficients satisfy, column by column, '
        'sum_j w_j g_j A_jk = (1/dt + kappa/nu) w_k g_k with g=x(1-x) (gamma=0), i.e. heterozygosity decays by exactly '
        'dt*kappa/nu per implicit step, and the influx adds dt*theta0/2*(1-x_1); both drivers, nu(t) time-dependent too.  '
        'The convergence/accuracy part of C01 is not claimed.'),
    functions=['PhiManip.phi_1D / phi_1D_genic / phi_1D_snm', 'Integration.one_pop', 'Integration._one_pop_const_params',
               'Integration._inject_mutations_1D', 'implicit_1Dx (IR)', 'tridiag (contract)'],
    files=K.FILES + ['dadi/PhiManip.py'],
    bounds=dict(quick='symbolic grids L=4..6, symbolic nu, theta0, beta, T; 1-3 time steps (T<=k*dt), constant and '
                      'function-of-time drivers, delj off and on; heterozygosity law also with linear-growth nu(t)',
                thorough='L up to 7 for (H); (S) L<=6 (uniqueness lemma bound n<=5)'),
    outside=['convergence under refinement, the 1.5% figure, coalescent expectations for multi-epoch histories, n<=30 spectra',
             'selection equilibria (gamma!=0): the discrete scheme preserves them only up to grid error; finiteness / '
             'non-negativity / continuity across regime switches (float overflow guards, scipy.integrate.quad)',
             'round-off'],
    stubs=['tridiag -> contract returning the proved solution', 'Integration._compute_dt -> fresh dt with T<=k*dt',
           'dadi.Demes event log -> no-op'],
    assumptions=['doubles as reals', 'the documented scheme (C02) is the reference discretisation',
                 'denominators occurring in a query non-zero'],
)


def _stationary_unit(L, mode, ksteps, delj):
    def body(env):
        from dadi import Integration, PhiManip
        xx = env.grid('x', L)
        nu, theta0, beta = env.pos('nu'), env.pos('theta0'), env.pos('beta')
        T = env.pos('T')
        wrap = (lambda v: v) if mode == 'const' else (lambda v: (lambda t, v=v: v))
        saved = (Integration._compute_dt, Integration.use_delj_trick)
        Integration.use_delj_trick = bool(delj)
        try:
            if not env.symbolic:
                K.concrete_modules()
                phi0 = PhiManip.phi_1D(xx, nu=nu, theta0=theta0, beta=beta)
                out = Integration.one_pop(phi0, xx, T, nu=wrap(nu), theta0=wrap(theta0), beta=wrap(beta))
                for j in range(1, L - 1):
                    env.eq('closed form[%d]' % j, phi0[j], theta0 * nu / xx[j] * 4 * beta / ((beta + 1) * (beta + 1)))
                    env.eq('stationary[%d]' % j, out[j], phi0[j])
                return
            si = K.sym_integration()
            phi0 = PhiManip.phi_1D(xx, nu=nu, theta0=theta0, beta=beta)
            for j in range(1, L):
                env.eq('closed form[%d]' % j, phi0[j], theta0 * nu / xx[j] * 4 * beta / ((beta + 1) * (beta + 1)))
            first = [True]

            def stub_dt(*a):
                d = S.R('DT')
                if first[0]:
                    first[0] = False
                    S.CUR.assume(d.t > 0)
                    S.CUR.assume((T <= ksteps * d).t)
                return d
            Integration._compute_dt = stub_dt
            # contract hook returns [fresh boundary value] + equilibrium: justified per call by the obligations below
            si.cap.make_u = lambda k, n: [S.R('bndlo%d' % k)] + [phi0[j] for j in range(1, n - 1)] + [S.R('bndhi%d' % k)]
            out = Integration.one_pop(phi0, xx, T, nu=wrap(nu), theta0=wrap(theta0), beta=wrap(beta))
            calls = si.cap.calls
            env.holds('at least one step', len(calls) >= 1)
            env.holds('at most %d steps' % ksteps, len(calls) <= ksteps)
            for cl in calls:
                env.eq('step%d: a[1]=0 (interior decoupled from the x=0 boundary value)' % cl.k, cl.a[1], 0)
                env.eq('step%d: c[L-2]=0 (interior decoupled from the x=1 boundary value)' % cl.k, cl.c[L - 2], 0)
                for j in range(1, L - 1):
                    lhs = cl.b[j] * phi0[j]
                    if j > 1:
                        lhs = lhs + cl.a[j] * phi0[j - 1]
                    if j < L - 1:
                        lhs = lhs + cl.c[j] * phi0[j + 1]
                    env.eq('step%d: row %d satisfied by the equilibrium' % (cl.k, j), lhs, cl.r[j])
            for j in range(1, L - 1):
                env.eq('result[%d] is the equilibrium' % j, out[j], phi0[j])
        finally:
            Integration._compute_dt, Integration.use_delj_trick = saved
            if env.symbolic:
                K.sym_integration().cap.make_u = None
    return H.Unit('stationary-L%d-%s-steps%d-delj%d' % (L, mode, ksteps, delj), body,
                  params=dict(L=L, mode=mode, steps=ksteps, delj=delj), min_obligations=3 * L - 2, timeout_s=900,
                  maxpaths=64)


def _hetero_unit(L, mode):
    def body(env):
        from dadi import Integration
        xx = env.grid('x', L)
        phi = env.array('p', (L,))
        nu, theta0, beta = env.pos('nu'), env.real('theta0', lo=0), env.pos('beta')
        T = env.pos('T')
        h = env.real('h', lo=0, hi=1)
        grow = env.real('grow', lo=0)
        if mode == 'const':
            kw = dict(nu=nu, theta0=theta0, beta=beta, h=h)
            nu_step = nu
        elif mode == 'func':
            kw = dict(nu=lambda t: nu, theta0=lambda t: theta0, beta=lambda t: beta, h=lambda t: h)
            nu_step = nu
        else:  # linear growth: the implicit step uses the size at the END of the step
            kw = dict(nu=lambda t: nu * (1 + grow * t), theta0=theta0, beta=beta, h=h)
            nu_step = nu * (1 + grow * T)
        w = weights(list(xx))
        g = [x * (1 - x) for x in xx]
        kappa = (beta + 1) * (beta + 1) / (4 * beta)
        saved = Integration._compute_dt
        try:
            if not env.symbolic:
                K.concrete_modules()
                Integration._compute_dt = lambda *a: np.inf
                out = Integration.one_pop(phi.copy(), xx, T, **kw)
                H0 = sum(w[j] * g[j] * phi[j] for j in range(L)) + T * theta0 / 2 * (1 - xx[1])
                H1 = sum(w[j] * g[j] * out[j] for j in range(L))
                env.eq('heterozygosity decay', H1 * (1 / T + kappa / nu_step), H0 / T)
                return
            si = K.sym_integration()
            first = [True]

            def stub_dt(*a):
                d = S.R('DT')
                if first[0]:
                    first[0] = False
                    S.CUR.assume(d.t > 0)
                    S.CUR.assume((T < d).t)
                return d
            Integration._compute_dt = stub_dt
            Integration.one_pop(phi.copy(), xx, T, **kw)
            calls = si.cap.calls
            env.holds('one step', len(calls) == 1)
            cl = calls[0]
            for k in range(L):
                col = cl.b[k] * w[k] * g[k]
                if k + 1 < L:
                    col = col + cl.a[k + 1] * w[k + 1] * g[k + 1]
                if k - 1 >= 0:
                    col = col + cl.c[k - 1] * w[k - 1] * g[k - 1]
                env.eq('column %d: sum_j w_j g_j A_jk = (1/dt + kappa/nu) w_k g_k' % k, col,
                       (1 / T + kappa / nu_step) * w[k] * g[k])
            # influx: r = (phi + injection)/dt raises sum w g phi by dt*theta0/2*(1-x_1)
            Hr = sum((w[j] * g[j] * cl.r[j] for j in range(1, L)), w[0] * g[0] * cl.r[0]) * T
            H0 = sum((w[j] * g[j] * phi[j] for j in range(1, L)), w[0] * g[0] * phi[0])
            env.eq('influx raises H by dt*theta0/2*(1-x_1)', Hr - H0, T * theta0 / 2 * (1 - xx[1]))
        finally:
            Integration._compute_dt = saved
    return H.Unit('heterozygosity-L%d-%s' % (L, mode), body, params=dict(L=L, mode=mode), min_obligations=L + 1,
                  timeout_s=900, maxpaths=64)


def units(tier, seed):
    thorough = tier == 'thorough'
    us = []
    for L in ((4, 5, 6) if thorough else (4, 5)):
        for mode in ('const', 'func'):
            for ks in ((1, 2, 3) if thorough else (1, 2)):
                us.append(_stationary_unit(L, mode, ks, 0))
        # (delj on: only the time-dependent driver - with gamma=0 the Python builder's formula is 0/0 and relies on
        #  float NaN guards, which are outside the real-number model)
        us.append(_stationary_unit(L, 'func', 1, 1))
    if not thorough:
        us.append(_stationary_unit(6, 'func', 3, 0))
    for L in ((4, 5, 6, 7) if thorough else (4, 5)):
        for mode in ('const', 'func', 'growth'):
            us.append(_hetero_unit(L, mode))
    return us


def concrete_setup():
    K.concrete_modules()
