"""C17 - DFE integration is the documented quadrature of a schedule-independent cache.

Real code: dadi.DFE.Cache1D_mod.Cache1D (integrate, integrate_point_pos, __init__/_single_process/_worker_sfs),
dadi.DFE.Cache2D_mod (Cache2D.integrate / integrate_point_pos / integrate_symmetric_point_pos / merge /
__init__/_single_process/_worker_sfs, mixture, mixture_symmetric_point_pos, mixture_point_pos),
dadi.DFE.Vourlaki2022.Vourlaki_mixture, dadi/DFE/PDFs.c biv_lognormal (clang LLVM-IR) and PDFs.biv_lognormal_py.

Cache objects are built with object.__new__ + attributes (rational gamma grid, symbolic spectra), the pdf is a
contract stub returning one symbolic weight per gamma *value*, scipy.integrate.quad/dblquad are contract stubs
returning one symbolic number per (integrand, fixed argument, limits).  The oracle is the documented
decomposition written out with explicit trapezoid weights.
"""
import contextlib
import copy
import itertools
import os
import re
import warnings
from fractions import Fraction as Fr

import numpy as np

from engine import harness as H
from engine import shims
from engine import symreal as S

warnings.filterwarnings('ignore', category=SyntaxWarning)

META = dict(
    explanation=(
        'The real Cache1D/Cache2D methods, mixture*, Vourlaki_mixture are executed on caches built with object.__new__ '
        '(exact rational negative gamma grid, non-uniform; every cached spectrum entry, theta, every proportion, rho '
        'and every pdf parameter a z3 real).  The pdf is a contract stub (one free real per abscissa value / pair, '
        'optionally symmetric), scipy.integrate.quad/dblquad are contract stubs (one free real per integrand x fixed '
        'argument x limits, identified by probing the integrand).  z3 proves per unmasked entry that the result '
        'equals theta times the documented decomposition written with explicit trapezoid weights: 1-D trapezoid + '
        'W_neu*S_neutral + W_lethal*S_0 (exterior_int=False: trapezoid only); 1-D point masses (1-sum p)*continuous + '
        'sum p_i*S(gamma_i) (cached, several, equal, evaluated on demand through demo_sel_func and then reused with '
        'another theta, missing -> IndexError); 2-D double trapezoid + 4 edge tails + 3 corner tails (non-symmetric '
        'pdf: all from their own integrals; symmetric pdf: shortcut equals the full formula); point-mass quadrant '
        'weights p++,p+-,p-+,p-- of the docstring with the ++ spectrum, the two marginal integrals and integrate() for '
        '--; integrate_symmetric_point_pos; mixture / mixture_symmetric_point_pos / mixture_point_pos / '
        'Vourlaki_mixture weights and the parameter slice each density receives; results with a second theta are the '
        'same bracket times that theta (linearity); with all cached spectra equal the result is spectrum*theta*(sum of '
        'all quadrature weights).  Cache construction: real __init__/_single_process with a placeholder model, '
        'split_jobs partition, Cache2D.merge for every multiset of split jobs (each job 0,1 or 2 copies, several '
        'orders): raises iff a job is missing or two copies differ (the differing entry is symbolic: z3 explores the '
        'equal and the unequal path), otherwise equals the unsplit cache and leaves inputs untouched; _multiple_'
        'processes/_worker_sfs under an in-process model of Manager/Queue/Process (enumerated worker counts, '
        'job->worker schedules, result orders, worker raising on any gamma): failure reported, otherwise same cache.  '
        'Compiled biv_lognormal: clang LLVM-IR of PDFs.c, called through the argument order of PDFs_cython.pyx and '
        'the wrapper PDFs.biv_lognormal, equals PDFs.biv_lognormal_py and the textbook density (EXP/LOG/SQRT '
        'uninterpreted, arguments proved equal); compiled biv_ind_gamma equals the product of the two textbook gamma '
        'densities for the 2,3,4,5-parameter layouts with Gamma() and pow() uninterpreted.  Polynomial identities are '
        'first normalised by z3.simplify(som=True) on the residual lhs-rhs (identical polynomials cancel to 0), what '
        'remains is decided by the solver.  Additional units run integrate() on a fully symbolic negative increasing '
        'gamma grid.'),
    functions=['dadi.DFE.Cache1D_mod.Cache1D.integrate', 'dadi.DFE.Cache1D_mod.Cache1D.integrate_point_pos',
               'dadi.DFE.Cache1D_mod.Cache1D.__init__', 'dadi.DFE.Cache1D_mod.Cache1D._single_process',
               'dadi.DFE.Cache1D_mod.Cache1D._multiple_processes', 'dadi.DFE.Cache1D_mod.Cache1D._worker_sfs',
               'dadi.DFE.Cache2D_mod.Cache2D.integrate', 'dadi.DFE.Cache2D_mod.Cache2D.integrate_point_pos',
               'dadi.DFE.Cache2D_mod.Cache2D.integrate_symmetric_point_pos', 'dadi.DFE.Cache2D_mod.Cache2D.merge',
               'dadi.DFE.Cache2D_mod.Cache2D.__init__', 'dadi.DFE.Cache2D_mod.Cache2D._single_process',
               'dadi.DFE.Cache2D_mod.Cache2D._multiple_processes', 'dadi.DFE.Cache2D_mod.Cache2D._worker_sfs',
               'dadi.DFE.Cache2D_mod.mixture', 'dadi.DFE.Cache2D_mod.mixture_symmetric_point_pos',
               'dadi.DFE.Cache2D_mod.mixture_point_pos', 'dadi.DFE.Vourlaki2022.Vourlaki_mixture',
               'dadi/DFE/PDFs.c:biv_lognormal', 'dadi/DFE/PDFs.c:biv_ind_gamma', 'dadi.DFE.PDFs.biv_lognormal',
               'dadi.DFE.PDFs.biv_ind_gamma', 'dadi.DFE.PDFs.biv_lognormal_py'],
    files=['dadi/DFE/Cache1D_mod.py', 'dadi/DFE/Cache2D_mod.py', 'dadi/DFE/Vourlaki2022.py', 'dadi/DFE/PDFs.py',
           'dadi/DFE/PDFs.c', 'dadi/DFE/PDFs_cython.pyx'],
    bounds=dict(
        quick='negative gamma grid sizes N=2,3 (1-D), N=2 (2-D), mixtures N1=3/N2=2 (exact dyadic grids) plus fully '
              'symbolic grids N=3 (1-D), N=2 (2-D, non-symmetric pdf); cached positive gammas {2,5}; '
              'spectrum shapes (4,) and (2,2); Npos=1,2; symmetric and non-symmetric pdf; split_jobs 1..4 with every '
              'multiset in {0,1,2}^k copies (one order each, all three orders for the exact partition) and one '
              'conflicting copy per job; worker model: cpus in {2,3,5,16}, 4 schedules, 2 result orders, a fault on '
              'each single job / first+last / all jobs; biv_lognormal on 2x2 and 1x3 abscissae, 3- and 5-parameter '
              'layouts; biv_ind_gamma 1x2, 2..5 parameters',
        thorough='N=1..4 (1-D), N=2,3,4 (2-D integrate; point masses N=2,3), mixtures (3,2),(2,3),(4,3); symbolic grids '
                 'N=2..4 (1-D), 2,3 (2-D); also 3x3 spectra; split_jobs 1..6 (k<=4: every '
                 'multiset x 3 orders and every conflicting duplicate; k=5,6: complete / one missing / one duplicated); '
                 'worker model cpus 2..16; biv_lognormal up to 3x3; biv_ind_gamma up to 2x2'),
    outside=['OS-level multiprocessing (real processes, pickling, manager proxies, bounded-queue blocking, a worker '
             'killed by a signal): only the Python logic around them is run, under a sequentially consistent model',
             'GPU workers', 'accuracy of scipy quad/dblquad and of the trapezoid rule (quadrature error), so "total '
             'weight = 1" is not claimed, only "result = spectrum * theta * sum of the weights used"',
             'the both-lethal corner (gamma1 and gamma2 beyond the grid): the code and its comments carry no term for '
             'it; the oracle follows that documented decomposition',
             'the heuristic symmetry detection at three test points: the pdf is either symmetric everywhere or '
             'asymmetric at the first test pair',
             'accuracy of the Lanczos gamma_func in PDFs.c (Gamma is uninterpreted) and hence biv_ind_gamma vs scipy; '
             'the univariate scipy.stats pdfs',
             'merge of caches built with different grids/parameters (merge compares spectra only)',
             'float round-off; gamma_pts=1 for Cache2D (numpy.squeeze drops the axis)',
             'spectrum entries masked in the result (corners)'],
    stubs=['sel_dist -> one free real per abscissa value (pair), recorded parameter vector',
           'scipy.integrate.quad / dblquad -> one free real per (integrand, fixed argument, limits); limits and '
           'integrand are part of the name, so a wrong limit or wrong argument order yields a different variable',
           'demo_sel_func -> placeholder spectrum per gamma (pair) with symbolic entries',
           'multiprocessing.Manager/Process -> in-process sequential model (worker units only)',
           'EXP/LOG/SQRT/POW/Gamma uninterpreted (congruence only)',
           'numpy array constructors/allclose -> object-array shim (numpy.array keeps raising on None/array mixtures)',
           'PDFs_cython -> LLVM-IR interpreter of the current PDFs.c marshalled as the tracked .pyx says'],
    assumptions=['doubles modelled as reals', 'gamma grid values exact dyadic rationals', 'recorded denominators != 0',
                 'positive point-mass gammas are lookup keys (concrete)'],
)


# ----------------------------------------------------------------------------------------------------------
# naming of exact constants (gamma values, integration limits): the stubs are keyed on *values*
class Probe(float):
    """Sentinel abscissa used by the quad/dblquad stubs to identify the integrand (which argument of the pdf
    is the integration variable, which value the other argument is fixed at, which parameters are passed)."""
    tag = 'x'


def _fq(v):
    if isinstance(v, S.Sym):
        if v.c is None:
            raise ValueError('not a constant')
        return v.c
    if isinstance(v, Fr):
        return v
    if isinstance(v, (int, np.integer)):
        return Fr(int(v))
    f = float(v)
    if f == float('inf'):
        return 'inf'
    if f == float('-inf'):
        return '-inf'
    return Fr(f)


def nm(v):
    """Canonical name of an exact constant (or, for the symbolic-grid units, of a symbolic abscissa term: the
    code under test and the oracle both form it as -g_i from the same grid variable)."""
    if isinstance(v, S.Sym) and v.c is None:
        return 'sym<%s>' % str(v.t).replace('\n', ' ')
    try:
        f = _fq(v)
    except Exception:
        return None
    if isinstance(f, str):
        return f
    return str(f.numerator) if f.denominator == 1 else '%d/%d' % (f.numerator, f.denominator)


def objarr(vals, env):
    a = np.empty(len(vals), dtype=object if env.symbolic else float)
    for i, v in enumerate(vals):
        a[i] = v
    return a


@contextlib.contextmanager
def patched(pairs):
    """Temporarily replace module globals / attributes: [(obj, name, value)]."""
    saved = []
    try:
        for obj, name, val in pairs:
            saved.append((obj, name, getattr(obj, name)))
            setattr(obj, name, val)
        yield
    finally:
        for obj, name, old in reversed(saved):
            setattr(obj, name, old)


class Stubs:
    """Contract stubs for one probability density and for scipy.integrate.quad/dblquad applied to it.

    pdf(value...) is one real number per argument value (variable named after the value), the integral of an
    integrand over [a,b] is one real number per (integrand, a, b).  With symmetric=True the density is symmetric
    in its two arguments: names are canonicalised so that f(x,y) and f(y,x) (and their integrals) coincide."""

    def __init__(self, env, tag, symmetric=False):
        self.env = env
        self.tag = tag
        self.symmetric = symmetric
        self.calls = []      # parameter lists of array (grid) evaluations
        self.probes = []     # parameter lists seen through integrand probes
        self.quads = []
        self.bad = []
        self._probe = None

    def var(self, key):
        return self.env.real('%s:%s' % (self.tag, key))

    def _name(self, v, what):
        n = nm(v)
        if n is None:
            self.bad.append('%s: non-constant abscissa %r' % (what, v))
            n = 'bad%d' % len(self.bad)
        return n

    # ---- univariate density  sel_dist(xx, params)
    def pdf1(self, xx, params):
        if isinstance(xx, Probe):
            self._probe = ('1', None, None)
            self.probes.append(list(params))
            return 0.0
        arr = np.atleast_1d(np.asarray(xx, dtype=object))
        out = np.empty(arr.shape, dtype=object if self.env.symbolic else float)
        for idx in np.ndindex(*arr.shape):
            out[idx] = self.w1(arr[idx])
        self.calls.append(list(params))
        return out

    def w1(self, x):
        return self.var('f(%s)' % self._name(x, 'pdf1'))

    # ---- bivariate density  sel_dist(xx, yy, params)
    def pdf2(self, xx, yy, params):
        px, py = isinstance(xx, Probe), isinstance(yy, Probe)
        if px or py:
            if px and py:
                self._probe = ('2', xx.tag, yy.tag)
            elif px:
                self._probe = ('2', xx.tag, self._name(yy, 'pdf2-fixed'))
            else:
                self._probe = ('2', self._name(xx, 'pdf2-fixed'), yy.tag)
            self.probes.append(list(params))
            return 0.0
        X = np.atleast_1d(np.asarray(xx, dtype=object))
        Y = np.atleast_1d(np.asarray(yy, dtype=object))
        out = np.empty((len(X), len(Y)), dtype=object if self.env.symbolic else float)
        for i in range(len(X)):
            for j in range(len(Y)):
                out[i, j] = self.w2(X[i], Y[j])
        self.calls.append(list(params))
        return np.squeeze(out)

    def w2(self, x, y):
        a, b = self._name(x, 'pdf2'), self._name(y, 'pdf2')
        if self.symmetric and _fq(y) < _fq(x):
            a, b = b, a
        return self.var('f(%s,%s)' % (a, b))

    # ---- names of the integrals (also used by the oracle, from the documented meaning)
    def I1(self, a, b):
        """int_a^b f(x) dx"""
        return self.var('I[%s..%s]' % (nm(a), nm(b)))

    def E(self, axis, fixed, a, b):
        """axis=0: int_a^b f(x, fixed) dx ; axis=1: int_a^b f(fixed, y) dy"""
        if self.symmetric:
            return self.var('E[fix=%s|%s..%s]' % (nm(fixed), nm(a), nm(b)))
        return self.var('E[int-arg%d,fix=%s|%s..%s]' % (axis, nm(fixed), nm(a), nm(b)))

    def D(self, r0, r1):
        """int_{x in r0} int_{y in r1} f(x, y)"""
        k0 = '%s..%s' % (nm(r0[0]), nm(r0[1]))
        k1 = '%s..%s' % (nm(r1[0]), nm(r1[1]))
        if self.symmetric and k1 < k0:
            k0, k1 = k1, k0
        return self.var('D[%s|%s]' % (k0, k1))

    # ---- scipy.integrate contract stubs
    def quad(self, func, a, b, args=(), **kw):
        if not isinstance(args, tuple):
            args = (args,)
        self._probe = None
        p = Probe(0.123456789)
        func(p, *args)
        pr = self._probe
        self.quads.append(('quad', pr, nm(a), nm(b)))
        if pr is None or nm(a) is None or nm(b) is None:
            self.bad.append('quad: integrand/limits not understood')
            return self.var('Q?%d' % len(self.quads)), 0.0
        if pr[0] == '1':
            return self.I1(a, b), 0.0
        if pr[1] == 'x':
            return self._E_named(0, pr[2], a, b), 0.0
        return self._E_named(1, pr[1], a, b), 0.0

    def _E_named(self, axis, fixedname, a, b):
        if self.symmetric:
            return self.var('E[fix=%s|%s..%s]' % (fixedname, nm(a), nm(b)))
        return self.var('E[int-arg%d,fix=%s|%s..%s]' % (axis, fixedname, nm(a), nm(b)))

    def dblquad(self, func, a, b, gfun, hfun, args=(), **kw):
        """scipy contract: int_{x=a}^{b} int_{y=gfun(x)}^{hfun(x)} func(y, x, *args) dy dx."""
        self._probe = None
        py, px = Probe(0.2345), Probe(0.3456)
        py.tag, px.tag = 'y', 'x'
        func(py, px, *tuple(args))
        pr = self._probe
        yr = (gfun(px), hfun(px))
        xr = (a, b)
        self.quads.append(('dblquad', pr, tuple(map(nm, xr)), tuple(map(nm, yr))))
        if pr is None or pr[0] != '2' or {pr[1], pr[2]} != {'x', 'y'} or None in map(nm, xr + yr):
            self.bad.append('dblquad: integrand/limits not understood')
            return self.var('D?%d' % len(self.quads)), 0.0
        # pr[1] is the probe that landed in the pdf's first argument
        r0 = yr if pr[1] == 'y' else xr
        r1 = xr if pr[1] == 'y' else yr
        return self.D(r0, r1), 0.0


class FakeScipy:
    """Stands in for the module-global `scipy` of a DFE module: scipy.integrate.quad / dblquad -> the contract
    stubs of the density used with that module."""

    def __init__(self, st):
        import types
        self.integrate = types.SimpleNamespace(quad=st.quad, dblquad=st.dblquad)
        self.stats = None


def trap_weights(g, env):
    """Textbook composite trapezoid weights on the (non-uniform) grid g[0] < g[1] < ...: T_0=(g1-g0)/2,
    T_i=(g_{i+1}-g_{i-1})/2, T_last=(g_last-g_{last-1})/2; a single point has weight 0."""
    n = len(g)
    T = []
    for i in range(n):
        lo = g[i - 1] if i > 0 else g[i]
        hi = g[i + 1] if i < n - 1 else g[i]
        T.append((hi - lo) / 2)
    return T


# the gamma grids used (exact dyadic rationals so that float replays are exact too); negative, increasing
NEG = {1: [Fr(-3)],
       2: [Fr(-4), Fr(-1, 2)],
       3: [Fr(-8), Fr(-3, 2), Fr(-1, 4)],
       4: [Fr(-16), Fr(-5), Fr(-3, 2), Fr(-1, 8)]}
POS = [Fr(2), Fr(5)]


def eqp(env, label, a, b):
    """a == b for polynomial expressions: in the symbolic run the residual a-b is first brought to sum-of-monomials
    normal form by z3's simplifier (identical polynomials cancel to 0), and the solver then decides residual == 0;
    the float replay compares a and b directly."""
    if env.symbolic:
        import z3
        r = z3.simplify(S.tz(a) - S.tz(b), som=True, som_blowup=100000000)
        for _ in range(8):          # nested products need several passes
            if z3.is_rational_value(r):
                break
            r2 = z3.simplify(r, som=True, som_blowup=100000000)
            if z3.eq(r2, r):
                break
            r = r2
        env.eq(label, S.Sym(r), 0)
    else:
        env.eq(label, a, b)


def unmasked(res):
    m = np.ma.getmaskarray(res)
    return [idx for idx in np.ndindex(*m.shape) if not m[idx]]


def check_params(env, label, got, want):
    """the parameter vector handed to the density is exactly the documented slice"""
    got = list(got)
    env.holds(label + ':len', len(got) == len(want))
    if len(got) == len(want):
        for i, (a, b) in enumerate(zip(got, want)):
            env.eq('%s[%d]' % (label, i), a, b)


def no_bad(env, *stubs):
    for st in stubs:
        for b in st.bad:
            env.fail('stub:' + b)


def sym_grid(env, N, tag):
    """negative, strictly increasing grid of N symbolic values"""
    g = [env.real('%sg%d' % (tag, i), hi=0, hi_open=True) for i in range(N)]
    for i in range(N - 1):
        env.assume(g[i] < g[i + 1])
    env.assume(g[N - 1] < 0)
    return objarr(g, env)


def make_cache1d(env, N, npos, shape, tag='s1', equal=False, symgrid=False):
    import dadi
    from dadi.DFE import Cache1D
    c = object.__new__(Cache1D)
    neg = NEG[N]
    c.neg_gammas = sym_grid(env, N, tag) if symgrid else env.constarray(neg)
    c.gammas = np.array([float(x) for x in neg + POS[:npos]])
    G = N + npos
    if equal:
        U = env.array(tag + 'U', shape)
        sp = np.empty((G,) + shape, dtype=U.dtype)
        for i in range(G):
            sp[i] = U
        neu = U.copy()
    else:
        sp = env.array(tag + 'S', (G,) + shape)
        neu = env.array(tag + 'neu', shape)
    c.spectra = sp
    c.neu_spec = dadi.Spectrum(neu)
    c.params = (env.const(Fr(3, 2)),)
    c.ns = tuple(s - 1 for s in shape)
    c.pts = 10
    c.func_name = 'stub'
    return c


def cont1d(env, st, c, k, ext):
    """documented 1-D decomposition, entry k, for theta=1: trapezoid over the negative grid of pdf-weighted
    spectra + W_neu * neutral spectrum + W_del * most deleterious spectrum"""
    N = len(c.neg_gammas)
    g = list(c.neg_gammas)
    T = trap_weights(g, env)
    tot = env.const(Fr(0))
    for i in range(N):
        tot = tot + T[i] * st.w1(-g[i]) * c.spectra[(i,) + k]
    if ext:
        tot = tot + st.I1(0, -g[N - 1]) * np.ma.getdata(c.neu_spec)[k]
        tot = tot + st.I1(-g[0], float('inf')) * c.spectra[(0,) + k]
    return tot


def body_1d_integrate(N, ext, shape, equal, symgrid=False):
    def body(env):
        import dadi
        from dadi.DFE import Cache1D_mod
        c = make_cache1d(env, N, 1, shape, equal=equal, symgrid=symgrid)
        snap = c.spectra.copy()
        st = Stubs(env, 'p')
        theta = env.real('theta')
        theta2 = env.real('theta2')
        prm = [env.real('a0'), env.real('a1')]
        with patched([(Cache1D_mod, 'scipy', FakeScipy(st))]):
            res = c.integrate(prm, 'ignored-ns', st.pdf1, theta, 'ignored-pts', exterior_int=ext) if not ext \
                else c.integrate(prm, None, st.pdf1, theta)
            res2 = c.integrate(prm, None, st.pdf1, theta2, None, ext)
        env.holds('type', isinstance(res, dadi.Spectrum))
        no_bad(env, st)
        for i, p in enumerate(st.calls + st.probes):
            check_params(env, 'pdf-params%d' % i, p, prm)
        env.holds('n-quad', len(st.quads) == (4 if ext else 0))
        d, d2 = np.ma.getdata(res), np.ma.getdata(res2)
        ks = unmasked(res)
        env.holds('has-entries', len(ks) >= 1)
        for k in ks:
            if equal:
                g = list(c.neg_gammas)
                T = trap_weights(g, env)
                W = env.const(Fr(0))
                for i in range(N):
                    W = W + T[i] * st.w1(-g[i])
                if ext:
                    W = W + st.I1(0, -g[N - 1]) + st.I1(-g[0], float('inf'))
                eqp(env, 'equal-spectra%s' % list(k), d[k], c.spectra[(0,) + k] * theta * W)
            else:
                eqp(env, 'entry%s' % list(k), d[k], theta * cont1d(env, st, c, k, ext))
            eqp(env, 'theta-homogeneous%s' % list(k), d[k] * theta2, d2[k] * theta)
        env.holds('cache-unchanged', all(a is b or a == b for a, b in zip(snap.ravel(), c.spectra.ravel()))
                  if env.symbolic else bool(np.all(snap == c.spectra)))
    return body




# ----------------------------------------------------------------------------------------------------------
# 1-D point masses
class DemoStub:
    """Stand-in for a demographic model with selection: returns one symbolic placeholder spectrum per
    trailing gamma argument(s) (named after the gamma values) and records how it was called."""

    def __init__(self, env, shape, tag='demo', fail_on=()):
        self.env, self.shape, self.tag = env, shape, tag
        self.calls = []
        self.fail_on = set(fail_on)
        self.__name__ = 'demo_stub'

    def value(self, gkey):
        return self.env.array('%s[%s]' % (self.tag, gkey), self.shape)

    def key(self, gs):
        return ','.join('%r' % float(g) for g in gs)

    def make(self, ngam):
        import dadi

        def demo_stub(params, ns, pts):
            self.calls.append((tuple(params), ns, pts))
            k = self.key(params[-ngam:])
            if k in self.fail_on:
                raise ValueError('worker fault injected at gamma=%s' % k)
            fs = dadi.Spectrum(self.value(k))
            fs.extrap_x = 0.125
            return fs
        return demo_stub


def body_1d_pointpos(N, scenario, shape, ext):
    def body(env):
        import dadi
        from dadi.DFE import Cache1D_mod
        c = make_cache1d(env, N, 2, shape)
        st = Stubs(env, 'p')
        theta, theta2 = env.real('theta'), env.real('theta2')
        a0 = env.real('a0')
        p1, p2 = env.real('ppos1'), env.real('ppos2')
        g1, g2, gnew = float(POS[0]), float(POS[1]), 7.0
        demo = DemoStub(env, shape)
        dfun = None
        if scenario == 'cached1':
            prm, npos, pts = [a0, p1, g1], 1, [(p1, g1)]
        elif scenario == 'cached2':
            prm, npos, pts = [a0, p1, g1, p2, g2], 2, [(p1, g1), (p2, g2)]
        elif scenario == 'cached2-same':
            prm, npos, pts = [a0, p1, g2, p2, g2], 2, [(p1, g2), (p2, g2)]
        elif scenario == 'uncached-demo':
            prm, npos, pts, dfun = [a0, p1, gnew], 1, [(p1, gnew)], demo.make(1)
        elif scenario == 'mixed2-demo':
            prm, npos, pts, dfun = [a0, p1, gnew, p2, g1], 2, [(p1, gnew), (p2, g1)], demo.make(1)
        elif scenario == 'missing':
            prm, npos, pts = [a0, p1, gnew], 1, None
        else:
            raise ValueError(scenario)
        kw = {}
        if npos != 1:
            kw['Npos'] = npos
        if not ext:
            kw['exterior_int'] = False
        with patched([(Cache1D_mod, 'scipy', FakeScipy(st))]):
            if scenario == 'missing':
                try:
                    c.integrate_point_pos(prm, None, st.pdf1, theta, None, **kw)
                    env.fail('uncached gammapos without demo_sel_func accepted')
                except IndexError:
                    env.holds('uncached gammapos rejected', True)
                return
            res = c.integrate_point_pos(prm, None, st.pdf1, theta, dfun, **kw)
            # second call on the same cache object with another theta (the first call may have extended the cache)
            res2 = c.integrate_point_pos(prm, None, st.pdf1, theta2, dfun, **kw)
        env.holds('type', isinstance(res, dadi.Spectrum))
        no_bad(env, st)
        for i, p in enumerate(st.calls + st.probes):
            check_params(env, 'pdf-params%d' % i, p, [a0])
        if dfun is not None:
            env.holds('demo called once (cached afterwards)', len(demo.calls) == 1)
            if demo.calls:
                prms, ns_, pts_ = demo.calls[0]
                env.holds('demo args', len(prms) == 2 and prms[-1] == gnew and ns_ == c.ns and pts_ == c.pts)
                env.eq('demo demographic params', prms[0], c.params[0])
        d, d2 = np.ma.getdata(res), np.ma.getdata(res2)
        ks = unmasked(res)
        env.holds('has-entries', len(ks) >= 1)
        gl = [float(x) for x in NEG[N] + POS]

        def S_at(g, k):
            if g == gnew:
                return demo.value(demo.key([g]))[k]
            return c.spectra[(gl.index(g),) + k]
        for k in ks:
            cont = cont1d(env, st, c, k, ext)
            psum = env.const(Fr(0))
            mix = env.const(Fr(0))
            for (p, g) in pts:
                psum = psum + p
                mix = mix + p * S_at(g, k)
            want = (1 - psum) * cont + mix
            eqp(env, 'entry%s' % list(k), d[k], theta * want)
            eqp(env, 'second-call-entry%s' % list(k), d2[k], theta2 * want)
            eqp(env, 'theta-homogeneous%s' % list(k), d[k] * theta2, d2[k] * theta)
    return body


# ----------------------------------------------------------------------------------------------------------
# 2-D
def make_cache2d(env, N, npos, shape, tag='s2', equal=False, symgrid=False):
    from dadi.DFE import Cache2D
    c = object.__new__(Cache2D)
    neg = NEG[N]
    c.neg_gammas = sym_grid(env, N, tag) if symgrid else env.constarray(neg)
    c.gammas = np.array([float(x) for x in neg + POS[:npos]])
    G = N + npos
    if equal:
        U = env.array(tag + 'U', shape)
        sp = np.empty((G, G) + shape, dtype=U.dtype)
        for i in range(G):
            for j in range(G):
                sp[i, j] = U
    else:
        sp = env.array(tag + 'S', (G, G) + shape)
    c.spectra = sp
    c.params = (env.const(Fr(3, 2)),)
    c.ns = tuple(s - 1 for s in shape)
    c.pts = 10
    c.func_name = 'stub'
    return c


INF = float('inf')


def weights2d(env, st, c, ext):
    """documented 2-D decomposition for theta=1 as a list of (weight, i, j): result = sum weight * S[i, j].
    Axis 0 / first pdf argument = gamma1, axis 1 / second argument = gamma2; index 0 = most deleterious grid
    value, index N-1 = most nearly neutral one."""
    g = list(c.neg_gammas)
    N = len(g)
    T = trap_weights(g, env)
    lo, hi = -g[0], -g[N - 1]          # |gamma| beyond lo: "lethal" tail; below hi: "neutral" tail
    out = []
    for i in range(N):
        for j in range(N):
            out.append((T[i] * T[j] * st.w2(-g[i], -g[j]), i, j))
    if ext:
        for i in range(N):
            # gamma1 on the grid (index i), gamma2 outside: mass int f(g_i, y) dy goes to the nearest cached column
            out.append((T[i] * st.E(1, -g[i], lo, INF), i, 0))
            out.append((T[i] * st.E(1, -g[i], 0, hi), i, N - 1))
            # gamma2 on the grid (index i), gamma1 outside
            out.append((T[i] * st.E(0, -g[i], lo, INF), 0, i))
            out.append((T[i] * st.E(0, -g[i], 0, hi), N - 1, i))
        out.append((st.D((0, hi), (0, hi)), N - 1, N - 1))       # both nearly neutral
        out.append((st.D((lo, INF), (0, hi)), 0, N - 1))         # gamma1 lethal, gamma2 neutral
        out.append((st.D((0, hi), (lo, INF)), N - 1, 0))         # gamma1 neutral, gamma2 lethal
    return out


def cont2d(env, st, c, k, ext):
    tot = env.const(Fr(0))
    for w, i, j in weights2d(env, st, c, ext):
        tot = tot + w * c.spectra[(i, j) + k]
    return tot


def assume_asymmetric(env, st):
    """non-symmetric density: it differs from its transpose at dadi's first off-diagonal test point"""
    tx = np.logspace(-2, 2, 3)
    env.assume(st.w2(tx[0], tx[1]) != st.w2(tx[1], tx[0]))


def body_2d_integrate(N, ext, symmetric, shape, equal, symgrid=False):
    def body(env):
        import dadi
        from dadi.DFE import Cache2D_mod
        c = make_cache2d(env, N, 1, shape, equal=equal, symgrid=symgrid)
        snap = c.spectra.copy()
        st = Stubs(env, 'q', symmetric=symmetric)
        if not symmetric:
            assume_asymmetric(env, st)
        theta, theta2 = env.real('theta'), env.real('theta2')
        prm = [env.real('b0'), env.real('b1'), env.real('b2')]
        with patched([(Cache2D_mod, 'scipy', FakeScipy(st))]):
            if ext:
                res = c.integrate(prm, None, st.pdf2, theta, None)
            else:
                res = c.integrate(prm, 'ignored', st.pdf2, theta, 'ignored', exterior_int=False)
            res2 = c.integrate(prm, None, st.pdf2, theta2, None, ext)
        env.holds('type', isinstance(res, dadi.Spectrum))
        no_bad(env, st)
        for i, p in enumerate(st.calls + st.probes):
            check_params(env, 'pdf-params%d' % i, p, prm)
        nq = 0 if not ext else 2 * ((2 * N + 2) if symmetric else (4 * N + 3))
        env.holds('n-quad', len(st.quads) == nq)
        d, d2 = np.ma.getdata(res), np.ma.getdata(res2)
        ks = unmasked(res)
        env.holds('has-entries', len(ks) >= 2)
        for k in ks:
            if equal:
                W = env.const(Fr(0))
                for w, i, j in weights2d(env, st, c, ext):
                    W = W + w
                eqp(env, 'equal-spectra%s' % list(k), d[k], c.spectra[(0, 0) + k] * theta * W)
            else:
                eqp(env, 'entry%s' % list(k), d[k], theta * cont2d(env, st, c, k, ext))
            eqp(env, 'theta-homogeneous%s' % list(k), d[k] * theta2, d2[k] * theta)
        env.holds('cache-unchanged', all(a is b or a == b for a, b in zip(snap.ravel(), c.spectra.ravel()))
                  if env.symbolic else bool(np.all(snap == c.spectra)))
    return body


def quadrant_mix(env, st, c, k, p1, gp1, p2, gp2, rho):
    """documented point-mass model for theta=1 (docstring of Cache2D.integrate_point_pos):
       p++ = p1 p2 + rho (sqrt(p1 p2) - p1 p2),  p+- = (1-rho) p1 (1-p2),  p-+ = (1-rho)(1-p1) p2,
       p-- = (1-p1)(1-p2) + rho (1 - sqrt(p1 p2) - (1-p1)(1-p2));
       ++ is the cached spectrum at (gp1, gp2); +- integrates the cached row gamma1=gp1 over the marginal density
       of gamma2 (trapezoid of the joint weights over gamma1), -+ symmetrically; -- is integrate() with theta=1."""
    g = list(c.neg_gammas)
    N = len(g)
    T = trap_weights(g, env)
    gl = list(c.gammas)
    i1, i2 = gl.index(gp1), gl.index(gp2)
    negneg = cont2d(env, st, c, k, True)
    pospos = c.spectra[(i1, i2) + k]
    posneg = env.const(Fr(0))
    negpos = env.const(Fr(0))
    for j in range(N):
        marg2 = env.const(Fr(0))      # density of gamma2 = g_j
        marg1 = env.const(Fr(0))      # density of gamma1 = g_j
        for i in range(N):
            marg2 = marg2 + T[i] * st.w2(-g[i], -g[j])
            marg1 = marg1 + T[i] * st.w2(-g[j], -g[i])
        posneg = posneg + T[j] * marg2 * c.spectra[(i1, j) + k]
        negpos = negpos + T[j] * marg1 * c.spectra[(j, i2) + k]
    r = np.sqrt(p1 * p2)
    ppp = p1 * p2 + rho * (r - p1 * p2)
    ppn = (1 - rho) * p1 * (1 - p2)
    pnp = (1 - rho) * (1 - p1) * p2
    pnn = (1 - p1) * (1 - p2) + rho * (1 - r - (1 - p1) * (1 - p2))
    return ppp * pospos + ppn * posneg + pnp * negpos + pnn * negneg


def body_2d_pointpos(N, scenario, symmetric, shape):
    def body(env):
        import dadi
        from dadi.DFE import Cache2D_mod
        c = make_cache2d(env, N, 2, shape)
        st = Stubs(env, 'q', symmetric=symmetric)
        if not symmetric:
            assume_asymmetric(env, st)
        theta, theta2 = env.real('theta'), env.real('theta2')
        b0, b1 = env.real('b0'), env.real('b1')
        rho = env.real('rho')
        p1, p2 = env.real('ppos1', lo=0), env.real('ppos2', lo=0)
        g1, g2, gnew = float(POS[0]), float(POS[1]), 7.0
        with patched([(Cache2D_mod, 'scipy', FakeScipy(st))]):
            if scenario in ('distinct', 'same', 'swapped', 'rho-default'):
                gp1, gp2 = dict(distinct=(g1, g2), same=(g1, g1), swapped=(g2, g1))[scenario] \
                    if scenario != 'rho-default' else (g1, g2)
                prm = [b0, b1, p1, gp1, p2, gp2]
                pdfprm = [b0, b1]
                if scenario == 'rho-default':
                    rho = env.const(Fr(0))
                    res = c.integrate_point_pos(prm, None, st.pdf2, theta)
                    res2 = c.integrate_point_pos(prm, None, st.pdf2, theta2)
                else:
                    res = c.integrate_point_pos(prm, None, st.pdf2, theta, rho=rho)
                    res2 = c.integrate_point_pos(prm, 'ignored', st.pdf2, theta2, rho, 'ignored')
            elif scenario == 'symmetric-pp':
                gp1 = gp2 = g2
                p2 = p1
                prm = [b0, b1, rho, p1, g2]
                pdfprm = [b0, b1, rho]
                res = c.integrate_symmetric_point_pos(prm, None, st.pdf2, theta)
                res2 = c.integrate_symmetric_point_pos(prm, None, st.pdf2, theta2, None)
            elif scenario in ('missing1', 'missing2', 'missing-sym'):
                try:
                    if scenario == 'missing-sym':
                        c.integrate_symmetric_point_pos([b0, b1, rho, p1, gnew], None, st.pdf2, theta)
                    elif scenario == 'missing1':
                        c.integrate_point_pos([b0, b1, p1, gnew, p2, g1], None, st.pdf2, theta, rho=rho)
                    else:
                        c.integrate_point_pos([b0, b1, p1, g1, p2, gnew], None, st.pdf2, theta, rho=rho)
                    env.fail('uncached positive gamma accepted')
                except IndexError:
                    env.holds('uncached positive gamma rejected', True)
                return
            else:
                raise ValueError(scenario)
        env.holds('type', isinstance(res, dadi.Spectrum))
        no_bad(env, st)
        for i, p in enumerate(st.calls + st.probes):
            check_params(env, 'pdf-params%d' % i, p, pdfprm)
        d, d2 = np.ma.getdata(res), np.ma.getdata(res2)
        ks = unmasked(res)
        env.holds('has-entries', len(ks) >= 2)
        for k in ks:
            want = quadrant_mix(env, st, c, k, p1, gp1, p2, gp2, rho)
            eqp(env, 'entry%s' % list(k), d[k], theta * want)
            # linear in theta: the same theta-free bracket with the other theta
            eqp(env, 'other-theta-entry%s' % list(k), d2[k], theta2 * want)
    return body


# ----------------------------------------------------------------------------------------------------------
# mixtures
def body_mixture(kind, N1, N2, symmetric, shape, ext=True):
    def body(env):
        import types
        import dadi
        from dadi.DFE import Cache1D_mod, Cache2D_mod, Vourlaki2022
        s1 = make_cache1d(env, N1, 2, shape, tag='s1')
        s2 = make_cache2d(env, N2, 2, shape, tag='s2')
        st1 = Stubs(env, 'p')
        st2 = Stubs(env, 'q', symmetric=symmetric)
        if not symmetric:
            assume_asymmetric(env, st2)
        theta = env.real('theta')
        theta2 = env.real('theta2')
        a0, a1 = env.real('a0'), env.real('a1')
        rho = env.real('rho')
        p2d = env.real('p2d')
        p1, p2 = env.real('ppos1', lo=0), env.real('ppos2', lo=0)
        g1, g2, gnew = float(POS[0]), float(POS[1]), 7.0
        pats = [(Cache1D_mod, 'scipy', FakeScipy(st1)), (Cache2D_mod, 'scipy', FakeScipy(st2)),
                (Vourlaki2022, 'scipy', FakeScipy(st1)),
                (Vourlaki2022, 'PDFs', types.SimpleNamespace(gamma=st1.pdf1, biv_ind_gamma=st2.pdf2))]

        def call(th):
            if kind == 'mixture':
                prm = [a0, a1, rho, p2d]
                if ext:
                    return Cache2D_mod.mixture(prm, None, s1, s2, st1.pdf1, st2.pdf2, th, None)
                return Cache2D_mod.mixture(prm, None, s1, s2, st1.pdf1, st2.pdf2, th, None, exterior_int=False)
            if kind == 'mixture_symmetric_point_pos':
                return Cache2D_mod.mixture_symmetric_point_pos([a0, a1, rho, p1, g1, p2d], None, s1, s2,
                                                               st1.pdf1, st2.pdf2, th)
            if kind == 'mixture_point_pos':
                return Cache2D_mod.mixture_point_pos([a0, a1, rho, p1, g1, p2, g2, p2d], None, s1, s2,
                                                     st1.pdf1, st2.pdf2, th)
            if kind == 'mixture_symmetric_point_pos-missing':
                return Cache2D_mod.mixture_symmetric_point_pos([a0, a1, rho, p1, gnew, p2d], None, s1, s2,
                                                               st1.pdf1, st2.pdf2, th)
            if kind == 'vourlaki':
                return Vourlaki2022.Vourlaki_mixture([a0, a1, p1, g1, env.real('pchange'), env.real('pchange_pos')],
                                                     None, s1, s2, th, None)
            if kind == 'vourlaki-missing':
                return Vourlaki2022.Vourlaki_mixture([a0, a1, p1, gnew, env.real('pchange'),
                                                      env.real('pchange_pos')], None, s1, s2, th, None)
            raise ValueError(kind)
        with patched(pats):
            if kind.endswith('-missing'):
                try:
                    call(theta)
                    env.fail('uncached positive gamma accepted')
                except IndexError:
                    env.holds('uncached positive gamma rejected', True)
                return
            res = call(theta)
            res2 = call(theta2)
        env.holds('type', isinstance(res, dadi.Spectrum))
        no_bad(env, st1, st2)
        # which parameters each density must receive (docstrings)
        if kind == 'vourlaki':
            want1, want2 = [a0, a1], [a0, a1]
        elif kind == 'mixture':
            want1, want2 = [a0, a1], [a0, a1, rho]
        else:
            want1, want2 = [a0, a1], [a0, a1, rho]
        for i, p in enumerate(st1.calls + st1.probes):
            check_params(env, 'pdf1-params%d' % i, p, want1)
        for i, p in enumerate(st2.calls + st2.probes):
            check_params(env, 'pdf2-params%d' % i, p, want2)
        d, d2 = np.ma.getdata(res), np.ma.getdata(res2)
        ks = unmasked(res)
        env.holds('has-entries', len(ks) >= 2)
        gl1 = list(s1.gammas)
        for k in ks:
            if kind == 'mixture':
                want = (1 - p2d) * cont1d(env, st1, s1, k, ext) + p2d * cont2d(env, st2, s2, k, ext)
            elif kind == 'mixture_symmetric_point_pos':
                f1 = (1 - p1) * cont1d(env, st1, s1, k, True) + p1 * s1.spectra[(gl1.index(g1),) + k]
                f2 = quadrant_mix(env, st2, s2, k, p1, g1, p1, g1, rho)
                want = (1 - p2d) * f1 + p2d * f2
            elif kind == 'mixture_point_pos':
                # 1-D (perfectly correlated) component: population-1 point mass (docstring: params1 = pdf, ppos1,
                # gamma_pos1)
                f1 = (1 - p1) * cont1d(env, st1, s1, k, True) + p1 * s1.spectra[(gl1.index(g1),) + k]
                f2 = quadrant_mix(env, st2, s2, k, p1, g1, p2, g2, rho)
                want = (1 - p2d) * f1 + p2d * f2
            else:
                want = vourlaki_oracle(env, st1, st2, s1, s2, k, p1, g1, env.real('pchange'),
                                       env.real('pchange_pos'))
            eqp(env, 'entry%s' % list(k), d[k], theta * want)
            # linear in theta: the same theta-free bracket with the other theta
            eqp(env, 'other-theta-entry%s' % list(k), d2[k], theta2 * want)
    return body


def vourlaki_oracle(env, stg, stb, s1, s2, k, ppos_wild, gpos, pchange, pchange_pos):
    """Vourlaki et al. mixture for theta=1 (pop1 = wild, pop2 = domesticate):
    wild negative/unchanged: 1-D DFE;  wild negative/changed/dom. negative: independent 2-D DFE;
    wild negative/changed/dom. positive: (neg, pos) marginal;  wild positive/unchanged and wild positive/changed/
    dom. positive: cached (gpos, gpos);  wild positive/changed/dom. negative: (pos, neg) marginal.
    Marginals: trapezoid of the univariate density over the 2-D cache's negative grid + neutral/lethal tails."""
    g = list(s2.neg_gammas)
    N = len(g)
    T = trap_weights(g, env)
    ig = list(s2.gammas).index(gpos)
    m5 = cont1d(env, stg, s1, k, True)
    m6 = cont2d(env, stb, s2, k, True)
    m2 = s2.spectra[(ig, ig) + k]
    wneu = stg.I1(0, -g[N - 1])
    wdel = stg.I1(-g[0], INF)
    m4 = wdel * s2.spectra[(ig, 0) + k] + wneu * s2.spectra[(ig, N - 1) + k]
    m7 = wdel * s2.spectra[(0, ig) + k] + wneu * s2.spectra[(N - 1, ig) + k]
    for j in range(N):
        m4 = m4 + T[j] * stg.w1(-g[j]) * s2.spectra[(ig, j) + k]
        m7 = m7 + T[j] * stg.w1(-g[j]) * s2.spectra[(j, ig) + k]
    pw, pc, pp = ppos_wild, pchange, pchange_pos
    return (m5 * (1 - pw) * (1 - pc) + m6 * (1 - pw) * pc * (1 - pp) + m7 * (1 - pw) * pc * pp
            + m2 * pw * (1 - pc) + m2 * pw * pc * pp + m4 * pw * pc * (1 - pp))


# ----------------------------------------------------------------------------------------------------------
# cache construction: single process, split jobs + merge, in-process model of the worker pool
GB = (0.25, 4.0)


def _grid_ok(gam, n, extra):
    """gammas = -logspace(log10(hi), log10(lo), n) ++ additional: negative, increasing, geometric, then extra."""
    gam = [float(x) for x in gam]
    if len(gam) != n + len(extra):
        return False
    neg = gam[:n]
    ok = all(x < 0 for x in neg) and all(neg[i] < neg[i + 1] for i in range(n - 1))
    ok = ok and abs(neg[0] + GB[1]) <= 1e-12 * GB[1] and (n == 1 or abs(neg[-1] + GB[0]) <= 1e-12 * GB[0])
    if n > 2:
        r = [neg[i + 1] / neg[i] for i in range(n - 1)]
        ok = ok and all(abs(x - r[0]) <= 1e-12 * abs(r[0]) for x in r)
    return ok and gam[n:] == [float(x) for x in extra]


def same_array(env, label, got, want):
    got = np.asarray(np.ma.getdata(got))
    want = np.asarray(want)
    if got.shape != want.shape:
        env.fail(label + ':shape %r != %r' % (got.shape, want.shape))
        return
    for idx in np.ndindex(*got.shape):
        env.eq('%s%s' % (label, list(idx)), got[idx], want[idx])


def body_build_1d(n, extra, shape):
    def body(env):
        import dadi
        from dadi.DFE import Cache1D
        demo = DemoStub(env, shape)
        dp = (env.const(Fr(3, 2)), env.const(Fr(1, 2)))
        c = Cache1D(dp, [s - 1 for s in shape], demo.make(1), [10], gamma_bounds=GB, gamma_pts=n,
                    additional_gammas=list(extra), cpus=1)
        env.holds('gamma grid', _grid_ok(c.gammas, n, extra))
        env.holds('neg_gammas', [float(x) for x in c.neg_gammas] == [float(x) for x in c.gammas[:n]])
        env.holds('spectra shape', np.shape(c.spectra) == (n + len(extra),) + shape)
        for i, g in enumerate(c.gammas):
            same_array(env, 'spectrum%d' % i, c.spectra[i], demo.value(demo.key([g])))
        same_array(env, 'neutral', c.neu_spec, demo.value(demo.key([0])))
        env.holds('one evaluation per gamma + neutral', len(demo.calls) == n + len(extra) + 1)
        for (prms, ns_, pts_) in demo.calls:
            env.holds('demo args', len(prms) == 3 and ns_ == [s - 1 for s in shape] and pts_ == 10)
            env.eq('demo p0', prms[0], dp[0])
            env.eq('demo p1', prms[1], dp[1])
    return body


def _build2d(env, demo, n, extra, shape, **kw):
    from dadi.DFE import Cache2D
    dp = (env.const(Fr(3, 2)),)
    return Cache2D(dp, [s - 1 for s in shape], demo.make(2), 10, gamma_bounds=GB, gamma_pts=n,
                   additional_gammas=list(extra), cpus=1, **kw)


def body_build_2d(n, extra, shape):
    def body(env):
        demo = DemoStub(env, shape)
        c = _build2d(env, demo, n, extra, shape)
        G = n + len(extra)
        env.holds('gamma grid', _grid_ok(c.gammas, n, extra))
        env.holds('neg_gammas', [float(x) for x in c.neg_gammas] == [float(x) for x in c.gammas[:n]])
        env.holds('spectra shape', np.shape(c.spectra) == (G, G) + shape)
        for i, ga in enumerate(c.gammas):
            for j, gb in enumerate(c.gammas):
                same_array(env, 'spectrum%d,%d' % (i, j), c.spectra[i, j], demo.value(demo.key([ga, gb])))
        env.holds('one evaluation per pair', len(demo.calls) == G * G)
    return body


def body_split_merge(n, extra, shape, k, counts, order, conflict):
    """counts[j] in {0,1,2}: how many copies of split job j are handed to merge; `conflict`: index of a job whose
    second copy has one unmasked entry replaced by a fresh symbolic value (None: copies are identical)."""
    def body(env):
        from dadi.DFE import Cache2D
        demo = DemoStub(env, shape)
        full = _build2d(env, demo, n, extra, shape)
        G = n + len(extra)
        parts = [_build2d(env, DemoStub(env, shape), n, extra, shape, split_jobs=k, this_job_id=j) for j in range(k)]
        # each job computed exactly its share: evaluation number ii*G+jj modulo k
        for j, p in enumerate(parts):
            have = [[p.spectra[a][b] is not None for b in range(G)] for a in range(G)]
            want = [[(a * G + b) % k == j for b in range(G)] for a in range(G)]
            env.holds('job %d share' % j, have == want)
        lst = []
        perturbed = None
        for j in range(k):
            for rep in range(counts[j]):
                p = copy.deepcopy(parts[j])
                if rep == 1 and conflict == j:
                    cells = [(a, b) for a in range(G) for b in range(G) if p.spectra[a][b] is not None]
                    a, b = cells[-1]
                    fs = p.spectra[a][b].copy()
                    kk = unmasked(fs)[0]
                    perturbed = (np.ma.getdata(fs)[kk], env.real('other'))
                    np.ma.getdata(fs)[kk] = perturbed[1]
                    p.spectra[a][b] = fs
                lst.append(p)
        if order == 'rev':
            lst = lst[::-1]
        elif order == 'rot' and lst:
            lst = lst[1:] + lst[:1]
        if not lst:
            try:
                Cache2D.merge(lst)
                env.fail('empty merge accepted')
            except Exception:
                env.holds('empty merge rejected', True)
            return
        snap = [[[None if x is None else np.array(np.ma.getdata(x), copy=True) for x in row] for row in p.spectra]
                for p in lst]
        complete = all(cn >= 1 for cn in counts)
        try:
            m = Cache2D.merge(lst)
            raised = False
        except ValueError:
            raised = True
        if perturbed is not None:
            same = perturbed[0] == perturbed[1]
            differ = bool(not same) if not env.symbolic else (not same)   # forks symbolically
        else:
            differ = False
        if (not complete) or differ:
            env.holds('missing or conflicting job reported', raised)
            return
        env.holds('complete consistent merge accepted', not raised)
        if raised:
            return
        env.holds('merged shape', np.shape(m.spectra) == (G, G) + shape)
        for a in range(G):
            for b in range(G):
                for idx in unmasked(parts[(a * G + b) % k].spectra[a][b]):
                    env.eq('merged%d,%d%s' % (a, b, list(idx)), np.ma.getdata(m.spectra)[(a, b) + idx],
                           np.ma.getdata(full.spectra)[(a, b) + idx])
        # inputs untouched
        ok = True
        for p, sn in zip(lst, snap):
            for row, srow in zip(p.spectra, sn):
                for x, sx in zip(row, srow):
                    if (x is None) != (sx is None):
                        ok = False
                    elif x is not None:
                        xd = np.ma.getdata(x)
                        ok = ok and all((u is v) or bool(u == v) for u, v in zip(xd.ravel(), sx.ravel())) \
                            if env.symbolic else ok and bool(np.all(xd == sx))
        env.holds('merge leaves its inputs unchanged', ok)
    return body


class _FakeMP:
    """In-process model of multiprocessing.Manager/Process: a FIFO queue that hands every item to exactly one
    worker (which worker: the enumerated schedule), a shared list, workers that run to completion when joined.
    Result order: grouped by worker, optionally reversed."""

    def __init__(self, schedule, reverse_results):
        mp = self
        self.schedule = schedule
        self.reverse = reverse_results
        self.cur = None
        self.nproc = 0
        self.jobs = []

        class Q:
            def __init__(self, maxsize=0):
                pass

            def put(self, item):
                mp.jobs.append(item)

            def get(self):
                w = mp.cur
                real = [t for t, it in enumerate(mp.jobs) if it is not None]
                for pos, t in enumerate(real):
                    if mp.assign(mp.jobs[t], mp.nproc) == w:
                        return mp.jobs.pop(t)
                t = mp.jobs.index(None)
                return mp.jobs.pop(t)

        class L(list):
            def __iter__(self):
                items = list(list.__iter__(self))
                return iter(items[::-1] if mp.reverse else items)

        class Manager:
            def __enter__(self):
                return self

            def __exit__(self, *a):
                return False

            def Queue(self, maxsize=0):
                return Q(maxsize)

            def list(self):
                return L()

        class Process:
            def __init__(self, target=None, args=()):
                self.target, self.args = target, args
                self.idx = mp.nproc
                mp.nproc += 1

            def start(self):
                pass

            def join(self):
                mp.cur = self.idx
                self.target(*self.args)
        self.Manager, self.Process = Manager, Process

    def assign(self, item, nproc):
        jobno = item[0] if len(item) == 2 else item[0] * 1000 + item[1]
        if self.schedule == 'first':
            return 0
        if self.schedule == 'last':
            return nproc - 1
        if self.schedule == 'rr':
            return jobno % nproc
        return (7 * jobno + 3) % nproc


def body_workers(dim, n, extra, shape, cpus, schedule, reverse, faults):
    def body(env):
        import multiprocessing
        import types
        from dadi.DFE import Cache1D, Cache2D, Cache1D_mod, Cache2D_mod
        G = n + len(extra)
        ref_demo = DemoStub(env, shape)
        if dim == 1:
            ref = Cache1D((env.const(Fr(3, 2)),), [s - 1 for s in shape], ref_demo.make(1), [10], gamma_bounds=GB,
                          gamma_pts=n, additional_gammas=list(extra), cpus=1)
        else:
            ref = _build2d(env, ref_demo, n, extra, shape)
        gam = [float(x) for x in ref.gammas]
        if dim == 1:
            fail_on = {ref_demo.key([gam[i]]) for i in faults}
        else:
            fail_on = {ref_demo.key([gam[i // G], gam[i % G]]) for i in faults}
        demo = DemoStub(env, shape, fail_on=fail_on)
        fake = _FakeMP(schedule, reverse)
        quiet = types.SimpleNamespace(print_tb=lambda tb: None)
        pats = [(multiprocessing, 'Manager', fake.Manager), (multiprocessing, 'Process', fake.Process),
                (Cache1D_mod, 'traceback', quiet), (Cache2D_mod, 'traceback', quiet)]
        raised = False
        with patched(pats):
            try:
                if dim == 1:
                    c = Cache1D((env.const(Fr(3, 2)),), [s - 1 for s in shape], demo.make(1), [10], gamma_bounds=GB,
                                gamma_pts=n, additional_gammas=list(extra), cpus=cpus)
                else:
                    from dadi.DFE import Cache2D
                    c = Cache2D((env.const(Fr(3, 2)),), [s - 1 for s in shape], demo.make(2), 10, gamma_bounds=GB,
                                gamma_pts=n, additional_gammas=list(extra), cpus=cpus)
            except Exception:
                raised = True
        env.holds('pool of %d workers used' % cpus, fake.nproc == cpus)
        if faults:
            env.holds('failed worker reported', raised)
            return
        env.holds('no spurious failure', not raised)
        if raised:
            return
        env.holds('same grid', [float(x) for x in c.gammas] == gam)
        same_array(env, 'spectra', c.spectra, np.ma.getdata(ref.spectra))
        if dim == 1:
            same_array(env, 'neutral', c.neu_spec, np.ma.getdata(ref.neu_spec))
    return body


# ----------------------------------------------------------------------------------------------------------
# compiled bivariate lognormal (dadi/DFE/PDFs.c through the marshalling of PDFs_cython.pyx and PDFs.py)
def _pyx_marshalling(repo, fname='biv_lognormal'):
    """Argument list of the C call and output shape, read from the tracked PDFs_cython.pyx."""
    src = open(os.path.join(repo, 'dadi', 'DFE', 'PDFs_cython.pyx')).read()
    alias = re.search(r'void\s+(\w+)\s+"%s"' % fname, src).group(1)
    m = re.search(r'def\s+%s\s*\((.*?)\)\s*:(.*?)(?=\ndef\s|\Z)' % fname, src, re.S)
    pnames = [p.split()[-1] for p in m.group(1).split(',')]
    body = m.group(2)
    shape = re.search(r'(\w+)\s*=\s*np\.empty\(\((.*?)\)\s*,', body)
    call = re.search(re.escape(alias) + r'\s*\((.*?)\)\s*(?:\n|\Z)', body, re.S)
    args = [a.strip() for a in call.group(1).replace('\n', ' ').split(',')]
    ret = re.search(r'return\s+(\w+)', body).group(1)
    return pnames, shape.group(1), shape.group(2), args, ret


class _CythonTwin:
    """dadi.DFE.PDFs_cython stand-in built from the tracked .pyx + the current PDFs.c: LLVM-IR interpreter
    (symbolic doubles) or a gcc build through ctypes (float replay)."""

    def __init__(self, env):
        self.env = env
        self.repo = H.REPO
        self.cpath = os.path.join(self.repo, 'dadi', 'DFE', 'PDFs.c')
        self.marsh = {f: _pyx_marshalling(self.repo, f) for f in ('biv_lognormal', 'biv_ind_gamma')}
        if env.symbolic:
            from engine import llir
            self.ir = llir.Module()
            text = llir.c_to_ir(self.cpath, [os.path.dirname(self.cpath)])
            # engine.llir's scalar-global pattern trips over `constant [8 x double] [...]` tables (the Lanczos
            # coefficients of gamma_func): register those here, hand the rest to the engine's parser
            keep = []
            for ln in text.split('\n'):
                mm = re.match(r'^@([\w.]+) = .*constant \[(\d+) x double\] \[(.*)\], align', ln)
                if mm:
                    reg = llir.Region('@' + mm.group(1), 8 * int(mm.group(2)))
                    for kk, item in enumerate(llir.split_args(mm.group(3))):
                        reg.cells[8 * kk] = llir._dbl(item.split()[-1])
                    self.ir.globals['@' + mm.group(1)] = llir.Ptr(reg, 0)
                else:
                    keep.append(ln)
            self.ir.sources.append(self.cpath)
            self.ir.parse('\n'.join(keep))
            # Gamma function: uninterpreted (the accuracy of the Lanczos approximation is outside the claim)
            self.ir.hooks['gamma_func'] = lambda mod, z: gammaf(z)
        else:
            import ctypes
            import subprocess
            import tempfile
            out = os.path.join(tempfile.gettempdir(), 'c17_pdfs_%d.so' % os.getpid())
            subprocess.run(['gcc', '-O1', '-ffp-contract=off', '-shared', '-fPIC', '-o', out, self.cpath, '-lm'],
                           check=True, capture_output=True)
            self.lib = ctypes.CDLL(out)

    def biv_lognormal(self, *pyargs):
        return self._call('biv_lognormal', pyargs)

    def biv_ind_gamma(self, *pyargs):
        return self._call('biv_ind_gamma', pyargs)

    def _call(self, fname, pyargs):
        pnames, outvar, outshape, cargs, ret = self.marsh[fname]
        loc = dict(zip(pnames, pyargs))
        shp = eval('(%s)' % outshape, {}, loc)
        n = int(np.prod(shp))
        if self.env.symbolic:
            outp = self.ir.malloc(8 * n, 'zz')
            vals = []
            for a in cargs:
                mm = re.match(r'<\s*double\s*\*\s*>\s*(\w+)\.data$', a)
                if mm and mm.group(1) == outvar:
                    vals.append(outp)
                elif mm:
                    vals.append(self.ir.arr_in(np.asarray(loc[mm.group(1)], dtype=object).ravel(), mm.group(1)))
                else:
                    vals.append(int(eval(a, {}, loc)))
            self.ir.call(fname, vals)
            flat = self.ir.arr_out(outp, n)
            res = np.empty(n, dtype=object)
            for i, v in enumerate(flat):
                res[i] = v
            return res.reshape(shp)
        import ctypes
        zz = np.empty(shp, dtype=np.float64)
        loc[outvar] = zz
        vals, keep = [], []
        for a in cargs:
            mm = re.match(r'<\s*double\s*\*\s*>\s*(\w+)\.data$', a)
            if mm:
                arr = np.ascontiguousarray(loc[mm.group(1)], dtype=np.float64) if mm.group(1) != outvar else zz
                keep.append(arr)
                vals.append(ctypes.c_void_p(arr.ctypes.data))
            else:
                vals.append(ctypes.c_int(int(eval(a, {}, loc))))
        f = getattr(self.lib, fname)
        f.restype = None
        f(*vals)
        return zz


def gammaf(z):
    """Gamma(z): uninterpreted in the symbolic run, math.gamma on floats."""
    if isinstance(z, S.Sym):
        import z3
        return S.Sym(z3.Function('GAMMAF', z3.RealSort(), z3.RealSort())(z.t))
    import math
    return math.gamma(float(z))


def body_c_ind_gamma(n, m, nparams):
    """structure of the compiled independent-gamma density: output[i,j] = g(x_i; a1,b1) * g(y_j; a2,b2) with
    g(x;a,b) = x^(a-1) exp(-x/b) / (b^a Gamma(a)) and the documented parameter layouts (2,3: shared; 4,5: a1,a2,b1,b2;
    a trailing extra parameter is ignored)."""
    def body(env):
        from dadi.DFE import PDFs
        xs = env.array('x', (n,), lo=Fr(1, 100))
        ys = env.array('y', (m,), lo=Fr(1, 100))
        if nparams in (2, 3):
            a1 = a2 = env.real('alpha', lo=Fr(1, 2))
            b1 = b2 = env.real('beta', lo=Fr(1, 100))
            prm = [a1, b1]
        else:
            a1, a2 = env.real('alpha1', lo=Fr(1, 2)), env.real('alpha2', lo=Fr(1, 2))
            b1, b2 = env.real('beta1', lo=Fr(1, 100)), env.real('beta2', lo=Fr(1, 100))
            prm = [a1, a2, b1, b2]
        if nparams in (3, 5):
            prm = prm + [env.real('ignored')]
        twin = _CythonTwin(env)
        with patched([(PDFs, 'PDFs_cython', twin)]):
            got = PDFs.biv_ind_gamma(xs, ys, prm)
        got = np.asarray(got).reshape(n, m)

        def g(x, a, b):
            return x ** (a - 1) * np.exp(-x / b) / (b ** a * gammaf(a))
        for i in range(n):
            for j in range(m):
                env.eq('C==textbook[%d,%d]' % (i, j), got[i, j], g(xs[i], a1, b1) * g(ys[j], a2, b2))
    return body


def body_c_lognormal(n, m, nparams):
    def body(env):
        from dadi.DFE import PDFs
        xs = env.array('x', (n,), lo=Fr(1, 100))
        ys = env.array('y', (m,), lo=Fr(1, 100))
        rho = env.real('rho', lo=Fr(-99, 100), hi=Fr(99, 100))
        if nparams == 3:
            mu1 = mu2 = env.real('mu')
            s1 = s2 = env.real('sigma', lo=Fr(1, 100))
            prm = [mu1, s1, rho]
        else:
            mu1, mu2 = env.real('mu1'), env.real('mu2')
            s1, s2 = env.real('sigma1', lo=Fr(1, 100)), env.real('sigma2', lo=Fr(1, 100))
            prm = [mu1, mu2, s1, s2, rho]
        twin = _CythonTwin(env)
        with patched([(PDFs, 'PDFs_cython', twin)]):
            got = PDFs.biv_lognormal(xs, ys, prm)
        ref = PDFs.biv_lognormal_py(xs, ys, prm)
        got = np.asarray(got).reshape(n, m)
        ref = np.asarray(ref).reshape(n, m)
        twopi = env.const(Fr(float(np.pi))) * 2 if env.symbolic else 2 * np.pi
        for i in range(n):
            for j in range(m):
                a = (np.log(xs[i]) - mu1) / s1
                b = (np.log(ys[j]) - mu2) / s2
                q = (a * a - 2 * rho * a * b + b * b) / (1 - rho * rho)
                text = np.exp(-q / 2) / (twopi * s1 * s2 * np.sqrt(1 - rho * rho) * xs[i] * ys[j])
                env.eq_struct('C==biv_lognormal_py[%d,%d]' % (i, j), got[i, j], ref[i, j])
                env.eq_struct('C==textbook[%d,%d]' % (i, j), got[i, j], text)
    return body


class PrefEnv:
    """env proxy that prefixes obligation labels (several enumerated cases in one unit)."""

    def __init__(self, env, pref):
        self._e, self._p = env, pref

    def __getattr__(self, k):
        return getattr(self._e, k)

    def eq(self, label, *a, **kw):
        return self._e.eq(self._p + label, *a, **kw)

    def holds(self, label, *a, **kw):
        return self._e.holds(self._p + label, *a, **kw)

    def fail(self, label, *a, **kw):
        return self._e.fail(self._p + label, *a, **kw)

    def eq_struct(self, label, *a, **kw):
        return self._e.eq_struct(self._p + label, *a, **kw)


def batch(named_bodies):
    def body(env):
        for name, b in named_bodies:
            b(PrefEnv(env, name + ':'))
    return body


# ----------------------------------------------------------------------------------------------------------
def _setup():
    import logging
    import dadi
    from dadi import Spectrum_mod
    from dadi.DFE import Cache1D_mod, Cache2D_mod, PDFs, Vourlaki2022
    logging.getLogger('Numerics').setLevel(logging.ERROR)
    for m in (Cache1D_mod, Cache2D_mod, PDFs, Vourlaki2022, Spectrum_mod):
        shim = shims.install_numpy(m)
        if m in (Cache1D_mod, Cache2D_mod):
            object.__setattr__(shim, 'array', _strict_array(shim))
    shims.patch_spectrum_dtype(dadi.Spectrum)


def _strict_array(shim):
    """numpy.array on a nested list that mixes None with arrays raises ValueError (inhomogeneous shape) in real
    NumPy; the object-dtype shim would build a ragged object array instead.  Keep NumPy's behaviour."""
    base = type(shim).array

    def has(x, pred):
        if isinstance(x, (list, tuple)):
            return any(has(e, pred) for e in x)
        return pred(x)

    def array(obj, dtype=None, **kw):
        if isinstance(obj, list) and has(obj, lambda e: e is None) and has(obj, lambda e: isinstance(e, np.ndarray)):
            raise ValueError('setting an array element with a sequence. The requested array has an inhomogeneous '
                             'shape')
        return base(shim, obj, dtype, **kw)
    return array


def _U(name, body, params, **kw):
    kw.setdefault('setup', _setup)
    kw.setdefault('expect_paths', 1)
    kw.setdefault('timeout_s', 600)
    return H.Unit(name, body, params=params, **kw)


def units(tier, seed):
    us = []
    th = tier == 'thorough'
    sh1 = (4,)
    sh2 = (2, 2)
    # ---- Cache1D.integrate
    for N in ([1, 2, 3, 4] if th else [2, 3]):
        for ext in (True, False):
            us.append(_U('1d-integrate-N%d-%s' % (N, 'ext' if ext else 'noext'),
                         body_1d_integrate(N, ext, sh1 if N > 1 else (3, 3), False),
                         dict(N=N, exterior_int=ext), min_obligations=8))
        us.append(_U('1d-equal-spectra-N%d' % N, body_1d_integrate(N, True, sh1, True), dict(N=N),
                     min_obligations=8))
    if th:
        us.append(_U('1d-integrate-N3-2pop-ext', body_1d_integrate(3, True, (3, 3), False), dict(N=3, shape=[3, 3]),
                     min_obligations=12))
        us.append(_U('1d-equal-spectra-N3-noext', body_1d_integrate(3, False, sh1, True), dict(N=3),
                     min_obligations=8))
    # symbolic gamma grids (any negative increasing grid of that size)
    for N in ([2, 3, 4] if th else [3]):
        us.append(_U('1d-integrate-symbolic-grid-N%d' % N, body_1d_integrate(N, True, sh1, False, symgrid=True),
                     dict(N=N, grid='symbolic'), min_obligations=8))
    for N in ([2, 3] if th else [2]):
        us.append(_U('2d-integrate-symbolic-grid-N%d' % N, body_2d_integrate(N, True, False, sh2, False, symgrid=True),
                     dict(N=N, grid='symbolic'), min_obligations=8))
    if th:
        for sym in (False, True):
            us.append(_U('2d-integrate-N4-%s-ext' % ('sym' if sym else 'asym'),
                         body_2d_integrate(4, True, sym, sh2, False), dict(N=4, symmetric=sym), min_obligations=8))
        us.append(_U('2d-equal-spectra-N4-asym', body_2d_integrate(4, True, False, sh2, True), dict(N=4),
                     min_obligations=8))
        us.append(_U('mix-mixture_point_pos-N4.3-asym', body_mixture('mixture_point_pos', 4, 3, False, sh2),
                     dict(kind='mixture_point_pos', N1=4, N2=3), min_obligations=6))
        us.append(_U('mix-vourlaki-N4.3-sym', body_mixture('vourlaki', 4, 3, True, sh2),
                     dict(kind='vourlaki', N1=4, N2=3), min_obligations=6))
    # ---- Cache1D.integrate_point_pos
    for N in ([2, 3] if th else [2]):
        for sc in ('cached1', 'cached2', 'cached2-same', 'uncached-demo', 'mixed2-demo', 'missing'):
            us.append(_U('1d-pointpos-N%d-%s' % (N, sc), body_1d_pointpos(N, sc, sh1, True), dict(N=N, scenario=sc),
                         min_obligations=1 if sc == 'missing' else 8))
    us.append(_U('1d-pointpos-N2-cached1-noext', body_1d_pointpos(2, 'cached1', sh1, False),
                 dict(N=2, scenario='cached1', exterior_int=False), min_obligations=8))
    # ---- Cache2D.integrate
    for N in ([2, 3] if th else [2]):
        for sym in (False, True):
            for ext in (True, False):
                if not ext and sym:
                    continue
                us.append(_U('2d-integrate-N%d-%s-%s' % (N, 'sym' if sym else 'asym', 'ext' if ext else 'noext'),
                             body_2d_integrate(N, ext, sym, sh2, False), dict(N=N, symmetric=sym, exterior_int=ext),
                             min_obligations=8))
            us.append(_U('2d-equal-spectra-N%d-%s' % (N, 'sym' if sym else 'asym'),
                         body_2d_integrate(N, True, sym, sh2, True), dict(N=N, symmetric=sym), min_obligations=8))
    if th:
        us.append(_U('2d-integrate-N2-asym-ext-3x3', body_2d_integrate(2, True, False, (3, 3), False),
                     dict(N=2, shape=[3, 3]), min_obligations=16))
    # ---- Cache2D.integrate_point_pos / integrate_symmetric_point_pos
    for N in ([2, 3] if th else [2]):
        for sc in ('distinct', 'same', 'swapped', 'rho-default', 'symmetric-pp', 'missing1', 'missing2', 'missing-sym'):
            for sym in (False, True):
                if sym and sc in ('swapped', 'rho-default', 'missing1', 'missing2') and not th:
                    continue
                if N == 3 and sc.startswith('missing'):
                    continue
                us.append(_U('2d-pointpos-N%d-%s-%s' % (N, sc, 'sym' if sym else 'asym'),
                             body_2d_pointpos(N, sc, sym, sh2), dict(N=N, scenario=sc, symmetric=sym),
                             min_obligations=1 if sc.startswith('missing') else 6))
    # ---- mixtures
    for kind in ('mixture', 'mixture_symmetric_point_pos', 'mixture_point_pos', 'vourlaki',
                 'mixture_symmetric_point_pos-missing', 'vourlaki-missing'):
        for sym in (False, True):
            for (N1, N2) in ([(3, 2), (2, 3)] if th else [(3, 2)]):
                if kind.endswith('missing') and (sym or N1 != 3):
                    continue
                us.append(_U('mix-%s-N%d.%d-%s' % (kind, N1, N2, 'sym' if sym else 'asym'),
                             body_mixture(kind, N1, N2, sym, sh2), dict(kind=kind, N1=N1, N2=N2, symmetric=sym),
                             min_obligations=1 if kind.endswith('missing') else 6))
    us.append(_U('mix-mixture-N3.2-asym-noext', body_mixture('mixture', 3, 2, False, sh2, ext=False),
                 dict(kind='mixture', exterior_int=False), min_obligations=6))
    # ---- cache construction, split jobs, merge
    us.append(_U('build-1d', body_build_1d(3, [2.0, 5.0], sh1), dict(gamma_pts=3, additional=[2.0, 5.0]),
                 min_obligations=20))
    us.append(_U('build-2d', body_build_2d(2, [2.0], sh2), dict(gamma_pts=2, additional=[2.0]), min_obligations=30))
    if th:
        us.append(_U('build-1d-n1', body_build_1d(1, [], sh1), dict(gamma_pts=1), min_obligations=8))
        us.append(_U('build-2d-n3', body_build_2d(3, [2.0, 5.0], sh2), dict(gamma_pts=3, additional=[2.0, 5.0]),
                     min_obligations=100))
    for k in ([1, 2, 3, 4, 5, 6] if th else [1, 2, 3, 4]):
        n, extra = 2, [2.0]
        if k <= 4:
            combos = list(itertools.product((0, 1, 2), repeat=k))
        else:
            combos = [tuple(1 for _ in range(k))] + \
                [tuple(0 if j == i else 1 for j in range(k)) for i in range(k)] + \
                [tuple(2 if j == i else 1 for j in range(k)) for i in range(k)]
        subs = []
        for counts in combos:
            orders = ['id', 'rev', 'rot'] if (th or sum(counts) == k) else ['id' if sum(counts) % 2 else 'rev']
            for order in orders:
                subs.append(('%s-%s' % (''.join(map(str, counts)), order),
                             body_split_merge(n, extra, sh2, k, counts, order, None)))
            for j in range(k):
                if counts[j] == 2 and all(cn >= 1 for cn in counts) and (th or sum(counts) == k + 1):
                    us.append(_U('merge-k%d-%s-conflict%d' % (k, ''.join(map(str, counts)), j),
                                 body_split_merge(n, extra, sh2, k, counts, 'id' if j % 2 else 'rev', j),
                                 dict(split_jobs=k, copies=list(counts), conflicting_job=j), min_obligations=2,
                                 expect_paths=2, timeout_s=300))
        nb = 1 if len(subs) <= 40 else (len(subs) + 39) // 40
        for b in range(nb):
            part = subs[b::nb]
            us.append(_U('merge-k%d-subsets-batch%d' % (k, b), batch(part),
                         dict(split_jobs=k, cases=[nm_ for nm_, _ in part]), min_obligations=len(part),
                         timeout_s=600))
    # ---- in-process model of the worker pool
    for dim in (1, 2):
        n, extra = (3, [2.0]) if dim == 1 else (2, [2.0])
        shp = sh1 if dim == 1 else sh2
        njobs = (n + len(extra)) ** dim
        cpus_l = [2, 3, 5, 16] if not th else list(range(2, 17))
        oks, flts = [], []
        for ci, cpus in enumerate(cpus_l):
            for si, sched in enumerate(['first', 'last', 'rr', 'mix']):
                if not th and (ci + si) % 2:
                    continue
                rev = bool((ci + si) % 3 == 0)
                oks.append(('cpus%d-%s%s' % (cpus, sched, '-rev' if rev else ''),
                            body_workers(dim, n, extra, shp, cpus, sched, rev, ())))
        fl = [(i,) for i in range(njobs)] + [(0, njobs - 1), tuple(range(njobs))]
        for fi, faults in enumerate(fl):
            for cpus in ([2, 16] if not th else [2, 3, 7, 16]):
                sched, rev = ['rr', 'mix', 'first', 'last'][fi % 4], bool(fi % 2)
                flts.append(('cpus%d-%s%s-fault%s' % (cpus, sched, '-rev' if rev else '', '_'.join(map(str, faults))),
                             body_workers(dim, n, extra, shp, cpus, sched, rev, faults)))
        for nm_, lst in (('ok', oks), ('faults', flts)):
            nb = (len(lst) + 15) // 16
            for b in range(nb):
                part = lst[b::nb]
                us.append(_U('workers-dim%d-%s-batch%d' % (dim, nm_, b), batch(part),
                             dict(dim=dim, cases=[x for x, _ in part]), min_obligations=2 * len(part), timeout_s=600))
    # ---- compiled bivariate lognormal
    for (n, m) in ([(2, 2), (1, 3)] if not th else [(2, 2), (1, 3), (3, 2), (3, 3)]):
        for npar in (3, 5):
            us.append(_U('c-biv-lognormal-%dx%d-params%d' % (n, m, npar), body_c_lognormal(n, m, npar),
                         dict(n=n, m=m, nparams=npar), min_obligations=2 * n * m, query_timeout_ms=120000))
    for (n, m) in ([(1, 2)] if not th else [(1, 2), (2, 2), (3, 1)]):
        for npar in (2, 3, 4, 5):
            us.append(_U('c-biv-ind-gamma-%dx%d-params%d' % (n, m, npar), body_c_ind_gamma(n, m, npar),
                         dict(n=n, m=m, nparams=npar), min_obligations=n * m, query_timeout_ms=120000))
    return us
