"""C06 - splits, admixture, pulses, removal and reordering conserve marginal densities.

Real code: every dadi.PhiManip.phi_*D_to_*D* constructor, every phi_*D_admix_* pulse (discovered by name),
remove_pop / filter_pops / reorder_pops, run unmodified on numpy object arrays of z3 reals (density entries, admixture
proportions) over rational grids.  numpy.searchsorted forks through the executor on `z_k < sum_p f_p x_p`, so the
explored paths are exactly the feasible cells of that arrangement (closed on the side where an admixed frequency lands
on a grid point, at 0 or at 1).

Oracles are written here (never call dadi): trapezoid weights w_k, the mixture frequency a = sum_p f_p x_p computed from
the *documented* meaning of the arguments (f<q> = fraction from population q; the remainder from the last source /
from the destination itself), the bracketing grid cell found by explicit comparisons, and the deposit rule
"density values at the two bracketing points in the linear-interpolation ratio, trapezoid mass equal to the source
density".  A pulse is "deposit on a copy of the destination axis, then integrate the old destination axis out".
"""
import inspect
import itertools
import linecache
import re
from fractions import Fraction as Fr

import numpy as np
import z3

from engine import harness as H
from engine import shims
from engine import symreal as S

META = dict(
    explanation=(
        'All PhiManip new-population constructors (phi_1D_to_2D, phi_2D_to_3D_split_1/2, phi_2D_to_3D(_admix), '
        'phi_3D_to_4D, phi_4D_to_5D), all in-place pulse functions phi_{2,3,4,5}D_admix_* (found by name; source / '
        'destination taken from the function name and cross-checked against the f<q> parameter names), remove_pop, '
        'filter_pops and reorder_pops are executed unmodified on object arrays of z3 reals: every density entry is a '
        'free real, admixture proportions are free reals constrained to the closed simplex (one or two symbolic, the '
        'others enumerated rationals, plus enumerated all-rational vectors incl. 0, unit vectors, sum=1 faces and '
        'vectors that land on grid points), grids are rational (uniform / dyadic approximation of dadi\'s exponential '
        'default_grid / strongly non-uniform; per-axis different grids and lengths where stated).  searchsorted forks '
        'on the symbolic proportions and every feasible cell of the arrangement is explored (cells are closed where '
        'an admixed frequency equals a grid point, 0 or 1).  On every path z3 proves: (a) the trapezoid marginal of '
        'the result over the new axis equals the source density, cell by cell; (b) the new axis is supported on the '
        'two adjacent grid points bracketing the mixture frequency sum_p f_p x_p, with density values in the '
        'linear-interpolation ratio, and every entry equals the explicit deposit oracle; pure splits and phi_1D_to_2D '
        'are diagonal copies phi/w; (c) every pulse result equals entry by entry "deposit on a copy of the '
        'destination axis then integrate the old destination out" computed by the oracle, its trapezoid marginal over '
        'the destination axis equals that of the input (joint density of the other populations conserved), it is the '
        'identity at proportion 0, raises nothing inside the simplex and raises ValueError on every path with sum f > '
        '1; (d) remove_pop / filter_pops equal explicit trapezoid sums, reorder_pops equals the explicit index '
        'permutation and rejects non-permutations.'),
    functions=['dadi.PhiManip.phi_1D_to_2D', 'dadi.PhiManip.phi_2D_to_3D_split_1', 'dadi.PhiManip.phi_2D_to_3D_split_2',
               'dadi.PhiManip.phi_2D_to_3D_admix', 'dadi.PhiManip.phi_2D_to_3D', 'dadi.PhiManip.phi_3D_to_4D',
               'dadi.PhiManip.phi_4D_to_5D', 'dadi.PhiManip._admixture_intermediates',
               'dadi.PhiManip._two_pop_admixture_intermediates', 'dadi.PhiManip._three_pop_admixture_intermediates',
               'dadi.PhiManip._four_pop_admixture_intermediates', 'dadi.PhiManip._five_pop_admixture_intermediates',
               'dadi.PhiManip.phi_2D_admix_1_into_2', 'dadi.PhiManip.phi_2D_admix_2_into_1',
               'dadi.PhiManip.phi_3D_admix_1_and_2_into_3', 'dadi.PhiManip.phi_3D_admix_1_and_3_into_2',
               'dadi.PhiManip.phi_3D_admix_2_and_3_into_1', 'dadi.PhiManip.phi_4D_admix_into_1',
               'dadi.PhiManip.phi_4D_admix_into_2', 'dadi.PhiManip.phi_4D_admix_into_3',
               'dadi.PhiManip.phi_4D_admix_into_4', 'dadi.PhiManip.phi_5D_admix_into_1',
               'dadi.PhiManip.phi_5D_admix_into_2', 'dadi.PhiManip.phi_5D_admix_into_3',
               'dadi.PhiManip.phi_5D_admix_into_4', 'dadi.PhiManip.phi_5D_admix_into_5', 'dadi.PhiManip.remove_pop',
               'dadi.PhiManip.filter_pops', 'dadi.PhiManip.reorder_pops', 'dadi.PhiManip.check_xx',
               'dadi.PhiManip._check_pulse_proportions',
               'dadi.Numerics.trapz'],
    files=['dadi/PhiManip.py', 'dadi/Numerics.py'],
    bounds=dict(
        quick='grids (rational): uni = k/(L-1); exp = dyadic approximation of Numerics.default_grid(L); irr/alt/mid/hig '
              '= strongly non-uniform; L = points per axis.  Constructors: phi_1D_to_2D L=4,5,5 (uni/exp/irr); '
              'phi_2D_to_3D_split_1/2 L=4 (uni/exp/irr); phi_2D_to_3D(_admix): symbolic f in [0,1], axis grids '
              '(uni4,irr5,exp5),(irr4)^3,(exp5,uni3,uni5),(uni5)^3; phi_3D_to_4D: one symbolic proportion + the other '
              '1/5 on (uni3,irr4,exp4,alt4),(irr4)^4, both symbolic on (uni3)^4,(uni3,alt3,uni3,exp4); phi_4D_to_5D: one '
              'symbolic + (1/5,1/7) on (uni3,irr3,alt3,uni3,exp4),(irr3)^5.  Pulses: 2-D both functions, symbolic f, '
              '(uni5)^2,(exp5)^2,(irr5)^2,(irr4,alt5),(uni5,exp4); 3-D all three, one symbolic + 1/5 on (uni4)^3,'
              '(irr4)^3,(exp4,alt4,irr4), both symbolic on (uni3)^3,(uni3,alt3,uni3); 4-D all four, one symbolic + '
              '(1/5,1/7) on (uni3)^4,(irr3)^4; 5-D all five, one symbolic + (1/8,1/4,1/16) on (uni3)^5 (range of the '
              'symbolic proportion split over 2 units); which slot is symbolic rotates with function and grid.  '
              'Every proportion-taking function additionally at 6-12 all-rational proportion vectors (0, every unit '
              'vector, faces sum=1, 1/2-vectors landing on grid points, generic (1/5,1/7,1/11,1/13) and its reverse) '
              'on a uniform and a non-uniform / per-axis-different grid tuple; 4-D/5-D pulses also with five pairwise '
              'different 3-point grids on the axes (hetgrid-*).  Rejection of sum f>1: all pulses, phi_3D_to_4D, '
              'phi_4D_to_5D, each f in [0,2], (uni3)^d.  remove_pop: every population of shapes (4),(3,4),(4,3,2),'
              '(2,3,4,2),(2,3,2,3,2); filter_pops: 15 (shape, tokeep) pairs in 2-5 dimensions incl. unsorted tokeep; '
              'reorder_pops: all permutations in 1-4 dimensions, 18 in 5, and 5 malformed orders per dimension.',
        thorough='as quick plus: L=6 (phi_1D_to_2D, 2-D pulses), L=5 splits / 3-D pulses; every proportion slot '
                 'symbolic in turn for 3-D/4-D sources on 3-point grids (4-point 4-D grids: one slot, 5-D: two slots '
                 'per function, rotating); two simultaneously '
                 'symbolic proportions for phi_3D_to_4D and 3-D pulses on 3- and 4-point grids incl. per-axis-different '
                 'ones, for phi_4D_to_5D and every 4-D pulse on (uni3)^d; 4-D pulses also on (alt3)^4,(uni4)^4,(exp4)^4; '
                 '5-D pulses with generic fixed proportions (1/5,1/7,1/11) on (uni3)^5 and (irr3)^5; '
                 'hetgrid-* also with a symbolic proportion; more shapes for remove_pop; all 120 orders in 5-D.'),
    outside=['float round-off (doubles modelled as reals), values > 1 of an admixed frequency produced by round-off',
             'symbolic grids (the searchsorted arrangement becomes non-linear): grids are enumerated rationals',
             'more than two simultaneously symbolic proportions (others are enumerated rationals)',
             'phi_1D_to_2D: the boundary entries phi_1D[0], phi_1D[-1] (density of non-segregating sites) are dropped '
             'by the code; conservation is claimed for interior entries, diagonal structure for all',
             'negative proportions', 'Demes bookkeeping (PhiManip.Demes replaced by a no-op namespace)',
             'grids longer than the listed ones'],
    stubs=['numpy array constructors inside dadi.PhiManip / dadi.Numerics -> object arrays',
           'PhiManip.Demes -> namespace of no-ops with a cache list',
           'formatting a symbolic proportion into the ValueError message (float(Sym)) is recognised as the raise '
           'site: a Realised error whose innermost PhiManip frame is a `raise ValueError(` statement counts as that '
           'ValueError',
           'local Ledger (this file): the 10^2-10^3 atomic equalities of a path are decided by z3 in chunks of 16 '
           'under pre & path-condition (the executor\'s assertions reduced to an equivalent irredundant subset), one '
           'further query per path proves all recorded divisors non-zero, and the harness receives one summary '
           'obligation per path (label carries the counts); any chunk not proved unsat is handed to the harness as an '
           'ordinary obligation (counterexample, replay, inconclusive handling unchanged)',
           'oracle bracket: the cell bracketing a mixture frequency is read off one model point of the path and the '
           'two inequalities z_l <= a <= z_{l+1} are then proved for the whole path'],
    assumptions=['doubles modelled as reals', 'density entries arbitrary reals (no sign assumed)',
                 'proportions >= 0; divisors are proved non-zero on every path, not assumed'],
)

# ---------------------------------------------------------------------------------------------
# rational grids: three families
_GR = {
    'uni': lambda L: [Fr(k, L - 1) for k in range(L)],
    # dyadic approximation of dadi.Numerics.default_grid(L) (exponential grid)
    'exp': lambda L: {2: [0, 1], 3: [0, Fr(1, 2), 1], 4: [0, Fr(1, 16), Fr(15, 16), 1],
                      5: [0, Fr(1, 64), Fr(1, 2), Fr(63, 64), 1],
                      6: [0, Fr(1, 128), Fr(11, 64), Fr(53, 64), Fr(127, 128), 1]}[L],
    # strongly non-uniform, no symmetry, few coincidences
    'irr': lambda L: {2: [0, 1], 3: [0, Fr(1, 7), 1], 4: [0, Fr(1, 97), Fr(3, 10), 1],
                      5: [0, Fr(1, 97), Fr(1, 10), Fr(7, 10), 1],
                      6: [0, Fr(1, 97), Fr(1, 10), Fr(3, 10), Fr(7, 10), 1]}[L],
    # further non-uniform families used for "different grid on every axis"
    'alt': lambda L: {2: [0, 1], 3: [0, Fr(3, 5), 1], 4: [0, Fr(1, 5), Fr(1, 2), 1],
                      5: [0, Fr(1, 9), Fr(1, 3), Fr(5, 6), 1]}[L],
    'mid': lambda L: {3: [0, Fr(1, 3), 1], 4: [0, Fr(1, 3), Fr(1, 2), 1]}[L],
    'hig': lambda L: {3: [0, Fr(4, 5), 1], 4: [0, Fr(2, 5), Fr(4, 5), 1]}[L],
}


def grid_pts(spec):
    """'uni4' -> list of 4 Fractions."""
    return [Fr(x) for x in _GR[spec[:3]](int(spec[3:]))]


# ---------------------------------------------------------------------------------------------
# discovery of the functions under test (names only; no dadi code is run here)
def discover():
    from dadi import PhiManip
    ctors, splits, pulses = [], [], []
    for name in sorted(dir(PhiManip)):
        fn = getattr(PhiManip, name)
        if not callable(fn) or not name.startswith('phi_'):
            continue
        params = list(inspect.signature(fn).parameters)
        m = re.match(r'phi_(\d)D_to_(\d)D(_split_(\d)|_admix)?$', name)
        if m:
            nsrc, ndst = int(m.group(1)), int(m.group(2))
            if ndst != nsrc + 1:
                raise RuntimeError('unexpected constructor %s' % name)
            if m.group(4):
                splits.append(dict(name=name, nsrc=nsrc, parent=int(m.group(4)) - 1))
            elif nsrc == 1:
                splits.append(dict(name=name, nsrc=1, parent=0))
            else:
                fpar = [p for p in params if re.match(r'f\d*$', p)]
                srcs = [int(p[1:]) - 1 for p in fpar]
                if srcs != list(range(nsrc - 1)):
                    raise RuntimeError('cannot interpret the proportions of %s%s' % (name, params))
                ctors.append(dict(name=name, nsrc=nsrc, nf=len(fpar)))
            continue
        m = re.match(r'phi_(\d)D_admix_(?:([\d_and]+)_)?into_(\d)$', name)
        if m:
            nd, dest = int(m.group(1)), int(m.group(3)) - 1
            want = [q for q in range(nd) if q != dest]
            if m.group(2):
                named = [int(t) - 1 for t in m.group(2).split('_and_')]
                if named != want:
                    raise RuntimeError('cannot interpret the sources of %s' % name)
            fpar = [p for p in params if re.match(r'f\d*$', p)]
            if nd == 2 and fpar == ['f']:
                srcs = want
            else:
                srcs = [int(p[1:]) - 1 for p in fpar]
            if srcs != want:
                raise RuntimeError('proportion parameters %s of %s do not match its name' % (fpar, name))
            pulses.append(dict(name=name, nd=nd, dest=dest, srcs=srcs))
            continue
    return ctors, splits, pulses


# ---------------------------------------------------------------------------------------------
def _setup():
    import types
    from dadi import Numerics, PhiManip
    shims.install_numpy(PhiManip)
    shims.install_numpy(Numerics)
    pd = types.SimpleNamespace(cache=[])
    for n in dir(PhiManip.Demes):
        if n[0].isupper():
            setattr(pd, n, (lambda *a, **k: None))
    shims.set_attr(PhiManip, 'Demes', pd)


def concrete_setup():
    import warnings
    warnings.filterwarnings('ignore')
    np.seterr(all='ignore')


# ---------------------------------------------------------------------------------------------
# oracles
def tw(env, g):
    """Trapezoid weights of grid g: w_k = (g[k+1]-g[k-1])/2, half cells at both ends."""
    L = len(g)
    half = env.const(Fr(1, 2))
    w = [env.const(Fr(0))] * L
    for k in range(L - 1):
        h = (g[k + 1] - g[k]) * half
        w[k] = w[k] + h
        w[k + 1] = w[k + 1] + h
    return w


def bracket(env, led, a, zz):
    """l with zz[l] <= a <= zz[l+1].  Floats: explicit comparisons.  Symbolic: the cell is read off one point of the
    current path (a model of pre & pc) and the two inequalities are added to the path's claims, i.e. proved for the
    whole path (a wrong guess cannot go unnoticed)."""
    L = len(zz)
    if env.symbolic:
        v = led.value(a)
        l = 0
        for k in range(1, L - 1):
            if led.value(zz[k]) < v:
                l = k
        led.holds('bracket-lo', zz[l] <= a, linear=True)
        led.holds('bracket-hi', a <= zz[l + 1], linear=True)
        return l
    l = 0
    for k in range(1, L - 1):
        if zz[k] < a:
            l = k
    return l


def deposit(env, led, a, zz, wz, mass):
    """Density values along the new axis for one source cell of density `mass` whose mixture frequency is `a`:
    only the two grid points bracketing `a` are non-zero, their values are in the linear-interpolation ratio
    (z_u - a) : (a - z_l), and the trapezoid mass sum_k w_k v_k equals `mass`."""
    l = bracket(env, led, a, zz)
    u = l + 1
    span = zz[u] - zz[l]
    fl = (zz[u] - a) / span
    fu = (a - zz[l]) / span
    dens = mass / (fl * wz[l] + fu * wz[u])
    out = [env.const(Fr(0))] * len(zz)
    out[l] = fl * dens
    out[u] = fu * dens
    return l, out


def mixture(env, fs, srcs, rest_axis, grids, c):
    """sum_q fs[q]*grids[srcs[q]][c[srcs[q]]] + (1-sum fs)*grids[rest_axis][c[rest_axis]]"""
    rest = env.const(Fr(1))
    a = env.const(Fr(0))
    for f, q in zip(fs, srcs):
        rest = rest - f
        a = a + f * grids[q][c[q]]
    return a + rest * grids[rest_axis][c[rest_axis]]


def props(env, spec):
    """spec: list of 'sym' | 'sym:lo:hi' | 'p/q'.  Symbolic ones are >= 0 (<= hi); the sum is constrained by the body."""
    fs = []
    for i, s in enumerate(spec):
        if s.startswith('sym'):
            parts = s.split(':')
            lo = Fr(parts[1]) if len(parts) > 1 else Fr(0)
            hi = Fr(parts[2]) if len(parts) > 2 else Fr(1)
            fs.append(env.real('f%d' % (i + 1), lo=lo, hi=hi))
        else:
            fs.append(env.const(Fr(s)))
    return fs


def total(env, fs):
    t = env.const(Fr(0))
    for f in fs:
        t = t + f
    return t


def _at_raise_site(tb):
    """True when the innermost dadi frame of traceback tb is executing a `raise ValueError(...)` statement."""
    last = None
    while tb is not None:
        fnm = tb.tb_frame.f_code.co_filename
        if fnm.endswith('PhiManip.py'):
            last = (fnm, tb.tb_lineno)
        tb = tb.tb_next
    if last is None:
        return False
    txt = ''.join(linecache.getline(last[0], n) for n in range(max(1, last[1] - 2), last[1] + 1))
    return 'raise ValueError' in txt or 'raise(ValueError' in txt


def rejected(fn, args):
    """Calls fn(*args); True when it raises ValueError (symbolically: also when building the message of that
    ValueError realises a symbolic proportion)."""
    try:
        fn(*args)
    except ValueError:
        return True
    except S.Realised as e:
        if _at_raise_site(e.__traceback__):
            return True
        raise
    return False


def call(fn, args):
    """fn(*args); a symbolic proportion realised while *formatting the message of a ValueError being raised* is that
    ValueError (on floats the formatting succeeds and the ValueError is raised)."""
    try:
        return fn(*args)
    except S.Realised as e:
        if _at_raise_site(e.__traceback__):
            raise ValueError('ValueError raised by the code (its message formats a symbolic value)') from e
        raise


def _grids(env, gspecs):
    return [env.grid('g%d' % i, len(grid_pts(s)), symbolic=False, points=grid_pts(s)) for i, s in enumerate(gspecs)]


# ---------------------------------------------------------------------------------------------
class Ledger:
    """Collects the atomic claims of one path and decides them with few solver calls.

    Why: the harness builds a fresh solver per obligation, re-asserts the whole path condition (several hundred
    searchsorted literals) and walks the claim in Python; that is 0.1-0.3 s of Python per obligation and next to
    nothing for z3, times 10^2-10^3 atomic equalities per path.  Here the atomic claims of a path are conjoined (in
    chunks) and decided by z3 under  pre & path-condition  (the executor's assertions, reduced to an equivalent
    irredundant subset, see hyp()):  `unsat` of  pre & pc & not(c1 & .. & ck)  proves every ci on this path.  One
    more query per path proves that every divisor recorded by the executor on this path (code under test and oracle
    alike) is non-zero under pre & pc, so no "divisors != 0" hypothesis is needed or used.  Only a chunk that is NOT proved (sat or
    unknown) is handed to the harness as an ordinary obligation, so counterexample extraction, replay on floats and
    the inconclusive bookkeeping stay with the harness.  Every path ends with one harness obligation whose label
    carries the counts.  On replay (floats) every atomic claim is evaluated separately with its own label."""
    CHUNK = 16

    def __init__(self, env, min_atoms=1):
        self.env, self.atoms, self.n, self.triv, self.min_atoms = env, [], 0, 0, min_atoms
        self._model = None
        self._hyp = None
        self.lin = []
        self.secs = 0.0
        self.nq = 0

    # ---- atomic claims
    def eq(self, label, a, b):
        env = self.env
        if not env.symbolic:
            env.eq(label, a, b)
            return
        a, b = S.Sym.lift(a), S.Sym.lift(b)
        self.n += 1
        if a.c is not None and b.c is not None:
            if a.c != b.c:
                env.eq(label, a, b)        # two different constants: fails on its own, with its own label
            else:
                self.triv += 1
            return
        if z3.eq(a.t, b.t):
            self.triv += 1
            return
        self.atoms.append((label, a.t == b.t))

    def holds(self, label, cond, linear=False):
        env = self.env
        if not env.symbolic:
            env.holds(label, cond)
            return
        self.n += 1
        if isinstance(cond, S.SymBool):
            (self.lin if linear else self.atoms).append((label, cond.t))
        elif not cond:
            env.fail(label)
        else:
            self.triv += 1

    # ---- a point of the current path (used to *guess* the bracketing cell; the guess is then proved)
    def value(self, x):
        x = S.Sym.lift(x)
        if x.c is not None:
            return x.c
        if self._model is None:
            s = S.CUR.solver
            if s.check() != z3.sat:
                raise S.ExplorationLimit('no model for the current path')
            self._model = s.model()
        v = self._model.eval(x.t, model_completion=True)
        if z3.is_rational_value(v):
            return Fr(v.numerator_as_long(), v.denominator_as_long())
        raise S.ExplorationLimit('non-rational model value')

    def hyp(self):
        """pre & pc of the current path, reduced to an equivalent irredundant subset: a literal is dropped only when
        the literals kept so far imply it (decided by z3 on the linear path literals), so the kept set is
        equivalent to pre & pc.  Shrinks several hundred searchsorted literals to a handful."""
        if self._hyp is None:
            seen, kept = set(), []
            s = z3.Solver()
            s.set('timeout', 20000)
            for a in S.CUR.solver.assertions():
                if a.get_id() in seen:
                    continue
                seen.add(a.get_id())
                s.push()
                s.add(z3.Not(a))
                r = s.check()
                s.pop()
                if r != z3.unsat:       # not implied (or undecided): keep it
                    kept.append(a)
                    s.add(a)
            self._hyp = kept
        return self._hyp

    def _unsat(self, cs):
        """unsat of  pre & pc & cs  on a fresh (non-incremental: z3 then uses its full tactic pipeline, which is what
        decides the non-linear identities quickly) solver."""
        import time
        t0 = time.time()
        s = z3.Solver()
        s.set('timeout', 30000)
        for c in self.hyp():
            s.add(c)
        for c in cs:
            s.add(c)
        r = s.check()
        self.secs += time.time() - t0
        self.nq += 1
        return r == z3.unsat

    def finish(self):
        env = self.env
        if not env.symbolic:
            return
        dens = list(S.CUR.denoms.values()) if S.CUR is not None else []
        nz = [d != 0 for d in dens]
        sent = 0
        if dens and not self._unsat([z3.Or(*[d == 0 for d in dens])]):
            env.holds('divisors met on this path are non-zero', S.SymBool(z3.And(*nz)))
            sent += 1
        for group, size, hyp in ((self.lin, len(self.lin) or 1, []), (self.atoms, self.CHUNK, [])):
            for i in range(0, len(group), size):
                ch = group[i:i + size]
                conj = z3.And(*[c for _, c in ch]) if len(ch) > 1 else ch[0][1]
                if self._unsat(hyp + [z3.Not(conj)]):
                    continue
                # not proved here: the harness decides (model -> replay, or unknown -> inconclusive); hand over the
                # atomic claims that fail on their own first so that the counterexample label is specific
                bad = [(lab, c) for lab, c in ch if not self._unsat(hyp + [z3.Not(c)])][:3]
                for lab, c in (bad or [('claims[%s .. %s](%d)' % (ch[0][0], ch[-1][0], len(ch)), conj)]):
                    env.holds(lab, S.SymBool(c))
                    sent += 1
        lab = 'path summary: %d atomic claims (%d syntactic, %d linear + %d non-linear proved unsat under pre & pc in ' \
              'chunks of <=%d, %d handed to the harness); %d divisors proved non-zero' % (
                  self.n, self.triv, len(self.lin), len(self.atoms), self.CHUNK, sent, len(dens))
        env.holds(lab, self.n >= self.min_atoms)
        env.note(lab + '; %d queries %.2fs' % (self.nq, self.secs))


# ---------------------------------------------------------------------------------------------
# bodies
def check_ctor(env, led, tag, res, phi, fs, grids, nsrc, entries=True):
    """res = constructor(phi, fs, grids): new axis is the last one, sources 0..nsrc-1, the last source gets 1-sum."""
    zz = grids[nsrc]
    wz = tw(env, zz)
    Lz = len(zz)
    if tuple(res.shape) != tuple(phi.shape) + (Lz,):
        env.fail(tag + 'shape')
        return
    zero = env.const(Fr(0))
    gm = gs = ge = led
    for c in np.ndindex(*phi.shape):
        a = mixture(env, fs, list(range(nsrc - 1)), nsrc - 1, grids, c)
        l, want = deposit(env, led, a, zz, wz, phi[c])
        u = l + 1
        marg = zero
        for k in range(Lz):
            marg = marg + wz[k] * res[c + (k,)]
        # (a) integrating the new population out gives the source density back
        gm.eq('%smarginal%s' % (tag, list(c)), marg, phi[c])
        # (b) support = the two grid points bracketing the mixture frequency; values in the interpolation ratio
        for k in range(Lz):
            if k != l and k != u:
                gs.eq('%ssupport%s' % (tag, list(c + (k,))), res[c + (k,)], zero)
        gs.eq('%sratio%s' % (tag, list(c)), res[c + (l,)] * (a - zz[l]), res[c + (u,)] * (zz[u] - a))
        if entries:
            ge.eq('%sentry%s' % (tag, list(c + (l,))), res[c + (l,)], want[l])
            ge.eq('%sentry%s' % (tag, list(c + (u,))), res[c + (u,)], want[u])


def make_ctor_body(name, nsrc, gspecs, fspec):
    def body(env):
        from dadi import PhiManip
        fn = getattr(PhiManip, name)
        grids = _grids(env, gspecs)
        phi = env.array('phi', tuple(len(g) for g in grids[:nsrc]))
        fs = props(env, fspec)
        env.assume(total(env, fs) <= 1)
        res = call(fn, [phi.copy()] + fs + grids)
        led = Ledger(env, 3 * phi.size)
        check_ctor(env, led, '', np.asarray(res), phi, fs, grids, nsrc)
        led.finish()
    return body


def make_ctor_points_body(name, nsrc, gspecs, points):
    def body(env):
        from dadi import PhiManip
        fn = getattr(PhiManip, name)
        grids = _grids(env, gspecs)
        phi = env.array('phi', tuple(len(g) for g in grids[:nsrc]))
        led = Ledger(env, 3 * phi.size * len(points))
        for pi, pt in enumerate(points):
            fs = [env.const(Fr(s)) for s in pt]
            res = call(fn, [phi.copy()] + fs + grids)
            check_ctor(env, led, 'pt%d:' % pi, np.asarray(res), phi, fs, grids, nsrc)
        led.finish()
    return body


def make_split_body(name, nsrc, parent, gspec):
    """phi_1D_to_2D / phi_2D_to_3D_split_k(xx, phi): the new population is a copy of `parent`."""
    def body(env):
        from dadi import PhiManip
        fn = getattr(PhiManip, name)
        xx = _grids(env, [gspec])[0]
        L = len(xx)
        w = tw(env, xx)
        phi = env.array('phi', (L,) * nsrc)
        res = np.asarray(fn(xx, phi.copy()))
        env.holds('shape', tuple(res.shape) == (L,) * (nsrc + 1))
        if tuple(res.shape) != (L,) * (nsrc + 1):
            return
        zero = env.const(Fr(0))
        for c in np.ndindex(*phi.shape):
            boundary = nsrc == 1 and c[0] in (0, L - 1)
            for k in range(L):
                if k != c[parent]:
                    env.eq('offdiag%s' % list(c + (k,)), res[c + (k,)], zero)
            if boundary:
                continue        # phi_1D_to_2D drops the two non-segregating boundary entries (outside the claim)
            # the copy: all the mass of cell c sits at the parent's own frequency, density phi/w
            env.eq('diag%s' % list(c), res[c + (c[parent],)] * w[c[parent]], phi[c])
            marg = zero
            for k in range(L):
                marg = marg + w[k] * res[c + (k,)]
            env.eq('marginal%s' % list(c), marg, phi[c])
        if nsrc == 1:
            # symmetric in the two populations: integrating the *old* one out gives the same 1-D density
            for k in range(1, L - 1):
                marg = zero
                for i in range(L):
                    marg = marg + w[i] * res[i, k]
                env.eq('marginal-old[%d]' % k, marg, phi[k])
    return body


def pulse_oracle(env, led, phi, fs, srcs, dest, grids):
    """Explicit "deposit on a copy of axis `dest`, integrate the old axis out"."""
    zz = grids[dest]
    wz = tw(env, zz)
    Lz = len(zz)
    T = {}
    for c in np.ndindex(*phi.shape):
        a = mixture(env, fs, srcs, dest, grids, c)
        T[c] = deposit(env, led, a, zz, wz, phi[c])[1]
    want = np.empty(phi.shape, dtype=object)
    for c in np.ndindex(*phi.shape):
        k = c[dest]
        s = env.const(Fr(0))
        for j in range(Lz):
            cj = c[:dest] + (j,) + c[dest + 1:]
            s = s + wz[j] * T[cj][k]
        want[c] = s
    return want, wz


def check_pulse(env, led, tag, res, phi, fs, srcs, dest, grids, identity=False):
    if tuple(res.shape) != tuple(phi.shape):
        env.fail(tag + 'shape')
        return
    want, wz = pulse_oracle(env, led, phi, fs, srcs, dest, grids)
    ge = gi = gm = led
    for c in np.ndindex(*phi.shape):
        ge.eq('%sentry%s' % (tag, list(c)), res[c], want[c])
        if identity:
            gi.eq('%sidentity%s' % (tag, list(c)), res[c], phi[c])
    # joint density of the other populations: trapezoid marginal over the destination axis unchanged
    zero = env.const(Fr(0))
    for c in np.ndindex(*phi.shape):
        if c[dest] != 0:
            continue
        m0, m1 = zero, zero
        for k in range(phi.shape[dest]):
            ck = c[:dest] + (k,) + c[dest + 1:]
            m0 = m0 + wz[k] * phi[ck]
            m1 = m1 + wz[k] * res[ck]
        gm.eq('%smarginal%s' % (tag, list(c[:dest] + c[dest + 1:])), m1, m0)


def make_pulse_body(name, nd, dest, srcs, gspecs, fspec):
    def body(env):
        from dadi import PhiManip
        fn = getattr(PhiManip, name)
        grids = _grids(env, gspecs)
        phi = env.array('phi', tuple(len(g) for g in grids))
        fs = props(env, fspec)
        env.assume(total(env, fs) <= 1)
        res = call(fn, [phi.copy()] + fs + grids)
        led = Ledger(env, phi.size)
        check_pulse(env, led, '', np.asarray(res), phi, fs, srcs, dest, grids)
        led.finish()
    return body


def make_pulse_points_body(name, nd, dest, srcs, gspecs, points):
    def body(env):
        from dadi import PhiManip
        fn = getattr(PhiManip, name)
        grids = _grids(env, gspecs)
        phi = env.array('phi', tuple(len(g) for g in grids))
        led = Ledger(env, phi.size * len(points))
        for pi, pt in enumerate(points):
            fs = [env.const(Fr(s)) for s in pt]
            res = call(fn, [phi.copy()] + fs + grids)
            check_pulse(env, led, 'pt%d:' % pi, np.asarray(res), phi, fs, srcs, dest, grids,
                        identity=all(Fr(s) == 0 for s in pt))
        led.finish()
    return body


def make_reject_body(name, nd, nf, gspecs):
    """sum f > 1 (all f >= 0): ValueError on every path."""
    def body(env):
        from dadi import PhiManip
        fn = getattr(PhiManip, name)
        grids = _grids(env, gspecs)
        phi = env.array('phi', tuple(len(g) for g in grids[:nd]))
        fs = [env.real('f%d' % (i + 1), lo=0, hi=2) for i in range(nf)]
        env.assume(total(env, fs) > 1)
        if rejected(fn, [phi.copy()] + fs + grids):
            env.holds('rejected', True)
        else:
            env.fail('proportions summing above 1 accepted by %s' % name)
    return body


def make_remove_body(shape, popnum, gspec):
    def body(env):
        from dadi import PhiManip
        xx = _grids(env, [gspec])[0]
        w = tw(env, xx)
        phi = env.array('phi', tuple(shape))
        res = PhiManip.remove_pop(phi.copy(), xx, popnum)
        ax = popnum - 1
        oshape = tuple(s for i, s in enumerate(shape) if i != ax)
        res = np.asarray(res)
        env.holds('shape', tuple(res.shape) == oshape)
        if tuple(res.shape) != oshape:
            return
        for c in np.ndindex(*oshape):
            s = env.const(Fr(0))
            for k in range(shape[ax]):
                s = s + w[k] * phi[c[:ax] + (k,) + c[ax:]]
            env.eq('entry%s' % list(c), res[c], s)
    return body


def make_filter_body(shape, tokeep, gspec):
    def body(env):
        from dadi import PhiManip
        xx = _grids(env, [gspec])[0]
        w = tw(env, xx)
        phi = env.array('phi', tuple(shape))
        res = np.asarray(PhiManip.filter_pops(phi.copy(), xx, list(tokeep)))
        kept = sorted(p - 1 for p in tokeep)
        gone = [a for a in range(len(shape)) if a not in kept]
        oshape = tuple(shape[a] for a in kept)
        env.holds('shape', tuple(res.shape) == oshape)
        if tuple(res.shape) != oshape:
            return
        for c in np.ndindex(*oshape):
            s = env.const(Fr(0))
            for r in np.ndindex(*[shape[a] for a in gone]):
                idx = [0] * len(shape)
                wt = env.const(Fr(1))
                for a, i in zip(kept, c):
                    idx[a] = i
                for a, i in zip(gone, r):
                    idx[a] = i
                    wt = wt * w[i]
                s = s + wt * phi[tuple(idx)]
            env.eq('entry%s' % list(c), res[c], s)
    return body


class _Prefixed:
    """Env proxy that prefixes variable names and labels (several independent calls within one unit body)."""
    def __init__(self, env, prefix):
        self._e, self._p = env, prefix
        self.symbolic = env.symbolic

    def __getattr__(self, k):
        return getattr(self._e, k)

    def real(self, name, *a, **kw):
        return self._e.real(self._p + name, *a, **kw)

    def pos(self, name, *a, **kw):
        return self._e.pos(self._p + name, *a, **kw)

    def array(self, name, *a, **kw):
        return self._e.array(self._p + name, *a, **kw)

    def eq(self, label, *a, **kw):
        return self._e.eq(self._p + ':' + label, *a, **kw)

    def holds(self, label, *a, **kw):
        return self._e.holds(self._p + ':' + label, *a, **kw)


def make_history_body(bodies):
    """The same operation called several times in one process on DIFFERENT grids of equal length (and fresh
    densities): every call must be the operation on the grid it was given (no state kept between calls)."""
    def body(env):
        for i, b in enumerate(bodies):
            b(_Prefixed(env, 'call%d' % i))
    return body


def make_reorder_body(shape, orders, bad):
    def body(env):
        from dadi import PhiManip
        phi = env.array('phi', tuple(shape))
        for order in orders:
            res = np.asarray(PhiManip.reorder_pops(phi.copy(), list(order)))
            oshape = tuple(shape[p - 1] for p in order)
            env.holds('shape%s' % list(order), tuple(res.shape) == oshape)
            if tuple(res.shape) != oshape:
                continue
            for c in np.ndindex(*oshape):
                src = [0] * len(shape)
                for i, p in enumerate(order):
                    src[p - 1] = c[i]       # new population i is old population p
                env.eq('order%s%s' % (list(order), list(c)), res[c], phi[tuple(src)])
        for order in bad:
            try:
                PhiManip.reorder_pops(phi.copy(), list(order))
                env.fail('malformed order %s accepted' % list(order))
            except ValueError:
                env.holds('malformed order %s rejected' % list(order), True)
    return body


# ---------------------------------------------------------------------------------------------
def _pts(nf):
    """Enumerated rational proportion vectors of length nf: 0, unit vectors, faces sum=1, grid-landing, generic."""
    gen = [Fr(1, 5), Fr(1, 7), Fr(1, 11), Fr(1, 13)][:nf]
    pts = [[Fr(0)] * nf]
    for i in range(nf):
        e = [Fr(0)] * nf
        e[i] = Fr(1)
        pts.append(e)
    pts.append(gen)
    pts.append([Fr(1, 2)] + [Fr(0)] * (nf - 1))
    if nf >= 2:
        pts.append([Fr(0)] * (nf - 1) + [Fr(1, 2)])
        pts.append([Fr(1, 2), Fr(1, 2)] + [Fr(0)] * (nf - 2))                   # on the face sum = 1
        pts.append([Fr(1, 3)] + [Fr(0)] * (nf - 2) + [Fr(2, 3)])                # on the face sum = 1
        pts.append(list(reversed(gen)))
    if nf >= 3:
        pts.append([Fr(1, 4)] * nf if nf == 4 else [Fr(1, 4), Fr(1, 2), Fr(1, 4)])   # sum = 1, all positive
    else:
        pts.append([Fr(1, 3)] + [Fr(0)] * (nf - 1))
        pts.append([Fr(1, 97)] + [Fr(0)] * (nf - 1))
    out = []
    for p in pts:
        s = [str(x) for x in p]
        if s not in out:
            out.append(s)
    return out


def _slots(nf, sym, fixed=('1/5', '1/7', '1/11')):
    """fspec with the slots in `sym` symbolic and the others the enumerated rationals."""
    spec, it = [], iter(fixed)
    for i in range(nf):
        spec.append(sym[i] if i in sym else next(it))
    return spec


def _chunks(hi, n):
    """n closed sub-intervals of [0, hi] (strings)."""
    hi = Fr(hi)
    return [(str(hi * k / n), str(hi * (k + 1) / n)) for k in range(n)]


def units(tier, seed):
    ctors, splits, pulses = discover()
    thorough = tier == 'thorough'
    us = []

    def add(name, body, params, min_ob, paths=1, timeout=None, maxpaths=4000):
        us.append(H.Unit(name, body, params=params, setup=_setup, min_obligations=min_ob,
                         timeout_s=timeout or (1500 if thorough else 400), expect_paths=paths, maxpaths=maxpaths,
                         query_timeout_ms=120000))

    # ---- (d) remove / filter / reorder -------------------------------------------------------
    rshapes = [(4,), (3, 4), (4, 3, 2), (2, 3, 4, 2), (2, 3, 2, 3, 2)]
    if thorough:
        rshapes += [(5, 3), (3, 5, 4), (3, 2, 4, 3), (3, 2, 2, 3, 4)]
    fams = ['uni', 'exp', 'irr']
    for si, shape in enumerate(rshapes):
        for pop in range(1, len(shape) + 1):
            fam = fams[(si + pop) % 3]
            g = '%s%d' % (fam, shape[pop - 1])
            add('remove-%s-pop%d-%s' % ('x'.join(map(str, shape)), pop, g), make_remove_body(shape, pop, g),
                dict(shape=list(shape), popnum=pop, grid=g), int(np.prod(shape)) // shape[pop - 1])
    fshapes = [((3, 3), [[1], [2]]), ((3, 2, 3), [[2], [2, 1]]), ((3, 4, 3), [[2]]), ((4, 3, 4), [[3, 2], [1, 2]]),
               ((3, 2, 3, 3), [[2], [1, 2], [2, 4], [4, 2, 1]]), ((3, 3, 2, 3, 3), [[3], [3, 1], [5, 3, 2], [1, 2, 3, 4]])]
    for si, (shape, keeps) in enumerate(fshapes):
        for keep in keeps:
            rem = [a for a in range(len(shape)) if a + 1 not in keep]
            Ls = set(shape[a] for a in rem)
            if len(Ls) != 1:
                continue
            g = '%s%d' % (fams[(si + len(keep)) % 3], Ls.pop())
            add('filter-%s-keep%s-%s' % ('x'.join(map(str, shape)), ''.join(map(str, keep)), g),
                make_filter_body(shape, keep, g), dict(shape=list(shape), tokeep=keep, grid=g), 1)
    for shape in [(3,), (2, 3), (2, 3, 4), (2, 3, 2, 4), (2, 3, 2, 2, 3)]:
        nd = len(shape)
        perms = list(itertools.permutations(range(1, nd + 1)))
        if nd == 5 and not thorough:
            perms = perms[::7]
        bad = [[0] + list(range(2, nd + 1)), list(range(1, nd)) + [nd + 1], list(range(1, nd + 1)) + [1],
               list(range(1, nd)), [1] * nd if nd > 1 else [2]]
        add('reorder-%s' % 'x'.join(map(str, shape)), make_reorder_body(shape, perms, bad),
            dict(shape=list(shape), orders=[list(p) for p in perms], bad=bad), len(perms) + len(bad))

    # ---- call histories: same operation, different grids of equal length, one process -------------
    hist = [('remove-3x4-pop2', [make_remove_body((3, 4), 2, g) for g in ('exp4', 'irr4', 'uni4')], 9, 1),
            ('remove-4x3x2-pop1', [make_remove_body((4, 3, 2), 1, g) for g in ('irr4', 'exp4')], 12, 1),
            ('filter-3x2x3-keep2', [make_filter_body((3, 2, 3), [2], g) for g in ('irr3', 'alt3', 'hig3')], 3, 1)]
    for sp in splits:
        if sp['nsrc'] == 1:
            hist.append(('split-%s' % sp['name'],
                         [make_split_body(sp['name'], 1, sp['parent'], g) for g in ('exp5', 'irr5', 'alt5')], 8, None))
    for ct in ctors:
        if ct['nsrc'] == 2:
            hist.append(('ctor-%s' % ct['name'],
                         [make_ctor_points_body(ct['name'], 2, gs, _pts(ct['nf'])[:2])
                          for gs in (['uni4', 'uni4', 'uni4'], ['irr4', 'alt4', 'exp4'])], 2, None))
    for pu in pulses:
        if pu['nd'] == 2:
            hist.append(('pulse-%s' % pu['name'],
                         [make_pulse_points_body(pu['name'], 2, pu['dest'], pu['srcs'], gs, _pts(len(pu['srcs']))[:2])
                          for gs in (['uni5', 'uni5'], ['irr5', 'alt5'])], 2, None))
    for nm, bodies, mo, paths in hist:
        us.append(H.Unit('hist-' + nm, make_history_body(bodies), params=dict(history=nm, calls=len(bodies)),
                         setup=_setup, min_obligations=mo, timeout_s=1500 if thorough else 400, expect_paths=paths,
                         maxpaths=4000, query_timeout_ms=120000))

    # ---- (a,b) new-population constructors ----------------------------------------------------
    for sp in splits:
        for g in (['uni4', 'exp5', 'irr5'] if sp['nsrc'] == 1 else ['uni4', 'exp4', 'irr4']) + \
                 (['uni6', 'irr6', 'exp6'] if thorough and sp['nsrc'] == 1 else []) + \
                 (['uni5', 'irr5'] if thorough and sp['nsrc'] == 2 else []):
            add('split-%s-%s' % (sp['name'], g), make_split_body(sp['name'], sp['nsrc'], sp['parent'], g),
                dict(fn=sp['name'], grid=g), 4)
    for ct in ctors:
        name, nsrc, nf = ct['name'], ct['nsrc'], ct['nf']
        if nsrc == 2:
            gl = [['uni4', 'irr5', 'exp5'], ['irr4', 'irr4', 'irr4'], ['exp5', 'uni3', 'uni5'], ['uni5', 'uni5', 'uni5']]
            if thorough:
                gl += [['irr5', 'exp5', 'alt5'], ['exp5', 'exp5', 'exp5'], ['uni6', 'irr5', 'irr6']]
            for gs in gl:
                add('ctor-%s-%s-sym' % (name, '.'.join(gs)), make_ctor_body(name, nsrc, gs, ['sym']),
                    dict(fn=name, grids=gs, f=['sym']), 4, paths=4)
            ptsg = [['uni4', 'uni4', 'uni4'], ['irr4', 'alt5', 'exp5']]
        elif nsrc == 3:
            gl1 = [['uni3', 'irr4', 'exp4', 'alt4'], ['irr4', 'irr4', 'irr4', 'irr4']]
            gl2 = [['uni3', 'uni3', 'uni3', 'uni3'], ['uni3', 'alt3', 'uni3', 'exp4']]
            if thorough:
                gl1 += [['uni4'] * 4, ['exp4', 'alt4', 'irr4', 'irr5']]
                gl2 += [['irr3'] * 4, ['alt3', 'irr3', 'uni3', 'exp4']]
            for gi, gs in enumerate(gl1):
                for slot in range(nf):
                    if not thorough and slot != gi % nf:
                        continue
                    fspec = _slots(nf, {slot: 'sym'})
                    add('ctor-%s-%s-sym%d' % (name, '.'.join(gs), slot + 1), make_ctor_body(name, nsrc, gs, fspec),
                        dict(fn=name, grids=gs, f=fspec), 4, paths=4)
            for gs in gl2:
                fspec = ['sym', 'sym']
                add('ctor-%s-%s-sym12' % (name, '.'.join(gs)), make_ctor_body(name, nsrc, gs, fspec),
                    dict(fn=name, grids=gs, f=fspec), 8, paths=8)
            ptsg = [['uni3', 'uni3', 'uni3', 'uni3'], ['irr4', 'alt3', 'exp4', 'uni4']]
        else:
            gl1 = [['uni3', 'irr3', 'alt3', 'uni3', 'exp4'], ['irr3'] * 5]
            if thorough:
                gl1 += [['uni3'] * 5, ['alt3', 'uni3', 'irr3', 'exp4', 'irr4']]
            for gi, gs in enumerate(gl1):
                for slot in range(nf):
                    if not thorough and slot != (gi + 1) % nf:
                        continue
                    fspec = _slots(nf, {slot: 'sym'})
                    add('ctor-%s-%s-sym%d' % (name, '.'.join(gs), slot + 1), make_ctor_body(name, nsrc, gs, fspec),
                        dict(fn=name, grids=gs, f=fspec), 4, paths=4)
            if thorough:
                fspec = _slots(nf, {0: 'sym', 2: 'sym'})
                add('ctor-%s-uni3-sym13' % name, make_ctor_body(name, nsrc, ['uni3'] * 5, fspec),
                    dict(fn=name, grids=['uni3'] * 5, f=fspec), 8, paths=8)
            ptsg = [['uni3'] * 5, ['irr3', 'alt3', 'uni3', 'exp4', 'irr4']]
        for gs in ptsg:
            pts = _pts(nf)
            add('ctor-%s-%s-points' % (name, '.'.join(gs)), make_ctor_points_body(name, nsrc, gs, pts),
                dict(fn=name, grids=gs, points=pts), 1)
        if nf >= 2:
            gs = ['uni3'] * (nsrc + 1)
            add('reject-%s' % name, make_reject_body(name, nsrc, nf, gs), dict(fn=name, grids=gs), 1)

    # ---- (c) pulses -------------------------------------------------------------------------------
    for pi, pu in enumerate(pulses):
        name, nd, dest, srcs = pu['name'], pu['nd'], pu['dest'], pu['srcs']
        nf = len(srcs)
        if nd == 2:
            symg = [['uni5', 'uni5'], ['exp5', 'exp5'], ['irr5', 'irr5'], ['irr4', 'alt5'], ['uni5', 'exp4']]
            if thorough:
                symg += [['uni6', 'uni6'], ['irr6', 'irr6'], ['exp6', 'exp6'], ['alt5', 'irr6'], ['exp6', 'alt4']]
            for gs in symg:
                add('pulse-%s-%s-sym' % (name, '.'.join(gs)), make_pulse_body(name, nd, dest, srcs, gs, ['sym']),
                    dict(fn=name, grids=gs, f=['sym']), 4, paths=4)
            ptsg = [['uni5', 'uni5'], ['irr5', 'alt4']]
        elif nd == 3:
            g1 = [['uni4'] * 3, ['irr4'] * 3, ['exp4', 'alt4', 'irr4']]
            g2 = [['uni3'] * 3, ['uni3', 'alt3', 'uni3']]
            if thorough:
                g1 += [['exp4'] * 3, ['uni5'] * 3, ['irr4', 'uni3', 'alt5']]
                g2 += [['irr3'] * 3, ['alt3', 'irr3', 'uni3'], ['uni4'] * 3]
            for gi, gs in enumerate(g1):
                for slot in range(nf):
                    if not thorough and slot != (gi + pi) % nf:
                        continue
                    fspec = _slots(nf, {slot: 'sym'})
                    add('pulse-%s-%s-sym%d' % (name, '.'.join(gs), slot + 1),
                        make_pulse_body(name, nd, dest, srcs, gs, fspec), dict(fn=name, grids=gs, f=fspec), 4, paths=4)
            for gs in g2:
                fspec = ['sym', 'sym']
                add('pulse-%s-%s-sym12' % (name, '.'.join(gs)), make_pulse_body(name, nd, dest, srcs, gs, fspec),
                    dict(fn=name, grids=gs, f=fspec), 8, paths=8)
            ptsg = [['uni4'] * 3, ['irr4', 'alt3', 'exp4']]
        elif nd == 4:
            g1 = [['uni3'] * 4, ['irr3'] * 4]
            if thorough:
                g1 += [['alt3'] * 4, ['uni4'] * 4, ['exp4'] * 4]
            for gi, gs in enumerate(g1):
                for slot in range(nf):
                    if not thorough and slot != (gi + pi) % nf:
                        continue
                    if thorough and gs[0].endswith('4') and slot != (gi + pi) % nf:
                        continue        # 4-point grids: one slot per function, rotating (time budget)
                    fspec = _slots(nf, {slot: 'sym'})
                    add('pulse-%s-%s-sym%d' % (name, '.'.join(gs), slot + 1),
                        make_pulse_body(name, nd, dest, srcs, gs, fspec), dict(fn=name, grids=gs, f=fspec), 4, paths=4)
            if thorough:
                fspec = _slots(nf, {0: 'sym', 2: 'sym'}, fixed=('1/4',))
                add('pulse-%s-uni3-sym13' % name, make_pulse_body(name, nd, dest, srcs, ['uni3'] * 4, fspec),
                    dict(fn=name, grids=['uni3'] * 4, f=fspec), 8, paths=8)
            ptsg = [['uni3'] * 4, ['irr4'] * 4]
        else:
            # quick: dyadic fixed proportions (few distinct breakpoints), thorough: generic ones, every slot symbolic
            cfgs = [(['uni3'] * 5, ('1/8', '1/4', '1/16'), 2, [pi % nf])]
            if thorough:
                cfgs = [(['uni3'] * 5, ('1/5', '1/7', '1/11'), 3, [pi % nf, (pi + 2) % nf]),
                        (['irr3'] * 5, ('1/5', '1/7', '1/11'), 3, [(pi + 2) % nf]),
                        (['uni3'] * 5, ('1/8', '1/4', '1/16'), 2, [(pi + 1) % nf])]
            for gs, fixed, nparts, slots in cfgs:
                top = Fr(1) - sum(Fr(x) for x in fixed)
                for slot in slots:
                    for ci, (lo, hi) in enumerate(_chunks(top, nparts)):
                        fspec = _slots(nf, {slot: 'sym:%s:%s' % (lo, hi)}, fixed=fixed)
                        add('pulse-%s-%s-fix%s-sym%d-part%d' % (name, gs[0], fixed[0].replace('/', '_'), slot + 1, ci),
                            make_pulse_body(name, nd, dest, srcs, gs, fspec), dict(fn=name, grids=gs, f=fspec), 3,
                            paths=3)
            ptsg = [['uni3'] * 5, ['irr3'] * 5]
        if nd >= 4:
            # a different grid on every axis (same lengths): the destination grid must be the one that is used
            pool = ['uni3', 'alt3', 'irr3', 'mid3', 'hig3']
            gs = [pool[(q + dest + 1) % 5] for q in range(nd)]
            pts = _pts(nf)
            add('hetgrid-%s-%s-points' % (name, '.'.join(gs)), make_pulse_points_body(name, nd, dest, srcs, gs, pts),
                dict(fn=name, grids=gs, points=pts), 1)
            if thorough:
                fixed = ('1/8', '1/4', '1/16')[:nf - 1]
                nparts = 3 if nd == 5 else 1
                for ci, (lo, hi) in enumerate(_chunks(Fr(1) - sum(Fr(x) for x in fixed), nparts)):
                    fspec = _slots(nf, {pi % nf: 'sym:%s:%s' % (lo, hi)}, fixed=fixed)
                    add('hetgrid-%s-%s-sym%d-part%d' % (name, '.'.join(gs), pi % nf + 1, ci),
                        make_pulse_body(name, nd, dest, srcs, gs, fspec), dict(fn=name, grids=gs, f=fspec), 1,
                        paths=(1 if nparts > 1 else 3))
        for gs in ptsg:
            pts = _pts(nf)
            add('pulse-%s-%s-points' % (name, '.'.join(gs)), make_pulse_points_body(name, nd, dest, srcs, gs, pts),
                dict(fn=name, grids=gs, points=pts), 1)
        gs = ['uni3'] * nd
        add('reject-%s' % name, make_reject_body(name, nd, nf, gs), dict(fn=name, grids=gs), 1)
    return us
