"""C07 - grid extrapolation is exact for polynomial grid dependence with 1-6 grid sizes.

Real code: Numerics.make_extrap_func / make_extrap_log_func (+ the Lagrange helpers they
dispatch to).  The wrapped model is a harness function returning, for grid size pts_k, the value
sum_{d<k} c_d * x_k**d with *symbolic* distinct x_k and symbolic coefficient arrays.
"""
import itertools
from fractions import Fraction as Fr

import numpy as np

from engine import harness as H
from engine import shims
from engine import symreal as S

META = dict(
    explanation=(
        'Numerics.make_extrap_func/make_extrap_log_func are executed on numpy object arrays of z3 reals: the '
        'wrapped model returns P(x_k)=sum_{d<k} c_d x_k^d for k=1..6 symbolic pairwise-distinct positive x_k and '
        'symbolic coefficients; z3 proves on every feasible path (argmin ordering x fail_mag fallback outcomes) that '
        'each returned entry equals c_0 (exp(c_0) in log mode) when the fallback is not triggered and equals the '
        'value at the smallest x when it is; all orders of the grid list are covered because no order is assumed '
        '(plus explicit permutations of pts for k<=4); labels, pts positional/keyword, k=0/7 rejection are checked '
        'on the same runs.'),
    functions=['dadi.Numerics.make_extrap_func', 'dadi.Numerics.make_extrap_log_func', 'dadi.Numerics.linear_extrap',
               'dadi.Numerics.quadratic_extrap', 'dadi.Numerics.cubic_extrap', 'dadi.Numerics.quartic_extrap',
               'dadi.Numerics.quintic_extrap'],
    files=['dadi/Numerics.py', 'dadi/Spectrum_mod.py'],
    bounds=dict(quick='k=1..6 grid sizes; entries per result: 2 (k<=4), 1 (k>=5); array-valued (explicit extrap_x_l '
                      'and .extrap_x attribute) and Spectrum-valued models in linear mode, array-valued in log mode; '
                      'fail_mag=10 default; all permutations of the pts list for k<=3',
                thorough='as quick, entries 2 for all k, all permutations of pts for k<=4'),
    outside=['float round-off of the Lagrange formulas', 'scalar-valued models', 'VALUES of Spectrum-valued models in log mode '
             '(numpy.ma domain masking of log of an uninterpreted EXP term; their labels, type, folding flag and mask are checked)', 'k>6 other than rejection'],
    stubs=['EXP/LOG uninterpreted with the axiom instance LOG(EXP(t))=t; equalities between EXP(..) terms are established by proving the arguments equal (congruence)', 'numpy.log10 inside Numerics -> fresh reals (contract: some real number; its argument is proved equal to extrapolant/best separately)', 'numpy array constructors -> object arrays'],
    assumptions=['doubles modelled as reals', 'x_k pairwise distinct and > 0', 'recorded denominators != 0'],
)


class ArrX(np.ndarray):
    """ndarray that can carry an extrap_x attribute (what a model result looks like)."""
    pass


LOGS = []
ASSUME_POS = [False]
_cnt = [0]


def _fresh_log10(x):
    """Contract stub for numpy.log10 inside Numerics: returns fresh reals L (one per entry) and records
    (argument, L).  Weaker than the function itself (any property proved for arbitrary L holds for log10);
    masked inputs get numpy.ma's domain masking (entries <= 0 become masked)."""
    def fresh(v):
        _cnt[0] += 1
        return S.R('L%d' % _cnt[0])
    if isinstance(x, np.ma.MaskedArray) and ASSUME_POS[0]:
        # k >= 3, Spectrum-valued: the claim is restricted to entries whose log10 argument is positive (where
        # "decades away" is defined).  On that domain numpy.ma's domain masking never triggers, so the stub
        # omits it (it would fork on the sign of a high-degree rational function); entries are independent.
        args = np.array(np.ma.getdata(x), dtype=object)
        out = np.empty(args.shape, dtype=object)
        for idx in np.ndindex(*args.shape):
            out[idx] = fresh(args[idx])
        LOGS.append((args, out))
        return np.ma.masked_array(out, mask=np.ma.getmaskarray(x).copy())
    if isinstance(x, np.ma.MaskedArray):
        args = np.array(np.ma.getdata(x), dtype=object)
        res = shims.MaShim(np.ma)._domain(x, lambda v: v <= 0, fresh)
        LOGS.append((args, np.ma.getdata(res)))
        return res
    args = np.asarray(x, dtype=object)
    out = np.empty(args.shape, dtype=object)
    for idx in np.ndindex(*args.shape):
        out[idx] = fresh(args[idx])
    LOGS.append((args, out))
    return out


def _lifted(ufunc):
    """numpy.exp / numpy.log inside Numerics: the real ufunc (so that Spectrum.__array_wrap__ and numpy.ma's domain
    logic run), after lifting plain Python numbers stored in an object array (numpy.ma's fill values at masked entries)
    to exact constants - object-dtype ufunc loops need a method on every element."""
    def f(x):
        if isinstance(x, np.ndarray) and x.dtype == object:
            d = np.ma.getdata(x)
            if any(not isinstance(v, S.Sym) for v in d.flat):
                x = x.copy()
                d = np.ma.getdata(x)
                for idx in np.ndindex(*d.shape):
                    if not isinstance(d[idx], S.Sym):
                        d[idx] = S.Sym.lift(d[idx])
        return ufunc(x)
    return f


def _setup():
    import logging
    import dadi
    from dadi import Numerics, Spectrum_mod
    logging.getLogger('Numerics').setLevel(logging.ERROR)
    shims.install_numpy(Numerics, overrides={'log10': _fresh_log10, 'exp': _lifted(np.exp), 'log': _lifted(np.log)})
    shims.install_numpy(Spectrum_mod)
    shims.patch_spectrum_dtype(dadi.Spectrum)


def make_body(k, n, mode, valued, perm, kw, warm=False):
    def body(env):
        import dadi
        from dadi import Numerics
        xs = [env.real('x%d' % i, lo=0, lo_open=True) for i in range(k)]
        if warm:
            # the SAME extrapolating function object is first called with another list of grids (sizes k+1..2k, their
            # own x values): the call under test must not depend on that earlier call
            ws = [env.real('w%d' % i, lo=0, lo_open=True) for i in range(k)]
            for i in range(k - 1):
                env.assume(ws[i] < ws[i + 1])
            xs = xs + ws
        if k <= 3 and not warm:
            # no order assumed: every ordering of the grid sizes is covered symbolically
            for i in range(k):
                for j in range(i):
                    env.assume(xs[i] != xs[j])
        else:
            # k >= 4: values ordered x0 < x1 < ...; the *list* order is the enumerated permutation
            for i in range(k - 1):
                env.assume(xs[i] < xs[i + 1])
        coef = env.array('c', (k, n))
        pts_l = [10 * (i + 1) for i in perm]
        del LOGS[:]
        returned = []
        ASSUME_POS[0] = (valued == 'spectrum' and (k >= 3 or warm))

        def poly(i):
            v = coef[0] + 0 * xs[i]
            for d in range(1, k):
                v = v + coef[d] * xs[i] ** d
            return v

        def model(dummy, pts):
            i = pts // 10 - 1
            v = poly(i)
            if mode == 'log':
                v = np.exp(v)
            if valued == 'spectrum':
                fs = dadi.Spectrum(v, mask_corners=False, pop_ids=['popA'])
                fs.extrap_x = xs[i]
                returned.append((i, fs))
                return fs
            if valued == 'attr':
                a = np.asarray(v).view(ArrX)
                a.extrap_x = xs[i]
                returned.append((i, a))
                return a
            a = np.asarray(v)
            returned.append((i, a))
            return a
        xl = [xs[i] for i in perm] if valued == 'list' else None
        if mode == 'log':
            f = Numerics.make_extrap_log_func(model, extrap_x_l=xl)
        else:
            f = Numerics.make_extrap_func(model, extrap_x_l=xl)
        with np.errstate(all='ignore'):
            if warm:
                f(7, [10 * (k + i + 1) for i in range(k)])
                del LOGS[:]
                del returned[:]
            if kw:
                res = f(7, pts=list(pts_l))
            else:
                res = f(7, list(pts_l))
        expected = np.exp(coef[0]) if mode == 'log' else coef[0]
        # the arrays the model handed back must not have been modified (a memoising model would otherwise be corrupted,
        # and an extrapolant aliasing the finest-grid result defeats the fall-back)
        for i, arr in returned:
            want_i = np.exp(poly(i)) if mode == 'log' else poly(i)
            got_i = np.asarray(np.ma.getdata(arr))
            for j in range(n):
                env.eq_struct('model result of grid %d entry %d unchanged' % (i, j), got_i[j], want_i[j])
        env.holds('result is not one of the model results', all(res is not arr for _, arr in returned) or k == 1)
        resd = np.asarray(np.ma.getdata(res))
        if k == 1:
            for j in range(n):
                env.eq_struct('entry%d' % j, resd[j], expected[j])
        else:
            # the supplied grid with the smallest x (same scan order as numpy.argmin: first minimum)
            imin = perm[0]
            for i in perm[1:]:
                if xs[i] < xs[imin]:
                    imin = i
            bestv = np.exp(poly(imin)) if mode == 'log' else poly(imin)
            for j in range(n):
                best = bestv[j]
                if env.symbolic:
                    if len(LOGS) != 1:
                        env.fail('log10 called %d times' % len(LOGS))
                        return
                    arg, L = LOGS[0][0][j], LOGS[0][1][j]
                    # the code measures the distance of *its* extrapolant from *its* best value:
                    env.eq_struct('decades-arg%d' % j, arg, expected[j] / best)
                    pos = True if ASSUME_POS[0] else (arg > 0)
                    failed = (abs(L) > 10) if isinstance(L, S.Sym) else False
                else:
                    with np.errstate(all='ignore'):
                        ratio = expected[j] / best
                        pos = ratio > 0
                        if valued == 'spectrum' and (k >= 3 or warm) and not pos:
                            continue  # outside the claim (see _fresh_log10)
                        failed = abs(np.log10(ratio)) > 10
                # "decades away" is only defined for a positive ratio; there a masked Spectrum and a plain
                # array legitimately differ (numpy.ma masks log10 of values <= 0), so for ratio <= 0 only
                # "one of the two candidate values" is claimed for Spectrum-valued models.
                if valued == 'spectrum' and not pos:
                    want = best if resd[j] == best else expected[j]
                else:
                    want = best if failed else expected[j]
                env.eq_struct('entry%d' % j, resd[j], want)
        if valued == 'spectrum':
            env.holds('labels', list(res.pop_ids) == ['popA'])
            env.holds('type', isinstance(res, dadi.Spectrum))
    return body


def misc_body(env):
    """k=0 and k=7 are rejected; pts positional and keyword give identical results."""
    from dadi import Numerics
    xs = [env.real('x%d' % i, lo=0, lo_open=True) for i in range(7)]
    for i in range(7):
        for j in range(i):
            env.assume(xs[i] != xs[j])
    c = env.array('c', (2,))

    def model(dummy, pts):
        i = pts // 10 - 1
        return np.asarray(c + 0 * xs[i])
    for mk in (Numerics.make_extrap_func, Numerics.make_extrap_log_func):
        f = mk(model, extrap_x_l=xs)
        for kk in (0, 7):
            try:
                f(1, [10 * (i + 1) for i in range(kk)])
                env.fail('k=%d accepted by %s' % (kk, mk.__name__))
            except ValueError:
                env.holds('k=%d rejected' % kk, True)
    f = Numerics.make_extrap_func(model, extrap_x_l=xs[:2])
    a = f(1, [10, 20])
    b = f(1, pts=[10, 20])
    env.same('pts kw == positional', np.asarray(a), np.asarray(b))
    # scalar pts: single evaluation, no extrapolation
    r = f(1, 10)
    env.same('scalar pts', np.asarray(r), c)


def make_intx_body(k, mode):
    """extrap_x_l given as exact Python integers (legal: the x values only need to be proportional to the grid spacing).
    CONCRETE unit (enumeration, labelled as such): with integer x the real code forms its Lagrange weights in floating
    point, so the claim is numerical: for each monomial x^d, d < k, the extrapolated value is the constant term (1 for
    d = 0, 0 otherwise) within 1e-9 of the data scale, in linear and log mode."""
    def body(env):
        import math
        from dadi import Numerics
        xi = [840 // (10 * (i + 1)) if 840 % (10 * (i + 1)) == 0 else 97 - 7 * i for i in range(k)]   # distinct ints
        # concrete unit: the real numpy inside Numerics (dtypes matter here), not the symbolic run's shim and stubs
        saved = Numerics.numpy
        Numerics.numpy = np
        try:
            _intx_run(env, Numerics, k, mode, xi)
        finally:
            Numerics.numpy = saved
    return body


def _intx_run(env, Numerics, k, mode, xi):
    if True:
        for d in range(k):
            def model(dummy, pts, d=d):
                x = float(xi[pts // 10 - 1])
                v = np.array([5.0 + (x / 100.0) ** d, 7.0 + (x / 100.0) ** d])     # away from 0: no fall-back
                return np.exp(v) if mode == 'log' else v
            mk = Numerics.make_extrap_log_func if mode == 'log' else Numerics.make_extrap_func
            f = mk(model, extrap_x_l=[int(v) for v in xi])
            with np.errstate(all='ignore'):
                res = np.asarray(f(7, [10 * (i + 1) for i in range(k)]), dtype=float)
            want = np.array([6.0 if d == 0 else 5.0, 8.0 if d == 0 else 7.0])
            if mode == 'log':
                want = np.exp(want)
            for j in range(2):
                env.holds('monomial x^%d entry %d: got %r want %r' % (d, j, float(res[j]), float(want[j])),
                          bool(abs(res[j] - want[j]) <= 1e-9 * max(1.0, abs(want[j]))))


def make_labels_log_body(k, shape, folded):
    """Log variant with a Spectrum-valued model: attributes only (labels, type, folding flag, mask).  Entries are fresh
    positive reals, so numpy.ma's domain masking of log never triggers and no value claim is made."""
    def body(env):
        import dadi
        from dadi import Numerics
        xs = [env.real('x%d' % i, lo=0, lo_open=True) for i in range(k)]
        for i in range(k - 1):
            env.assume(xs[i] < xs[i + 1])
        labels = ['pop%c' % (65 + d) for d in range(len(shape))]
        ys = [env.array('y%d' % i, shape, lo=0) for i in range(k)]
        for y in ys:
            for v in y.flat:
                env.assume(v > 0)
        del LOGS[:]
        ASSUME_POS[0] = True

        def model(dummy, pts):
            i = pts // 10 - 1
            fs = dadi.Spectrum(ys[i].copy(), mask_corners=True, pop_ids=list(labels))
            if folded:
                fs = fs.fold()
            fs.extrap_x = xs[i]
            return fs
        f = Numerics.make_extrap_log_func(model)
        with np.errstate(all='ignore'):
            res = f(7, [10 * (i + 1) for i in range(k)])
        env.holds('type', isinstance(res, dadi.Spectrum))
        env.holds('labels %r' % (getattr(res, 'pop_ids', None),), getattr(res, 'pop_ids', None) is not None
                  and list(res.pop_ids) == labels)
        env.holds('folding flag', bool(getattr(res, 'folded', None)) == bool(folded))
        ref = dadi.Spectrum(ys[0].copy(), mask_corners=True)
        if folded:
            ref = ref.fold()
        env.holds('mask', np.array_equal(np.ma.getmaskarray(res), np.ma.getmaskarray(ref)))
    return body


def units(tier, seed):
    us = []
    for k in ((1, 2, 3) if tier == 'quick' else (1, 2, 3, 4)):
        for shape, folded in (((3,), False), ((2, 3), False), ((3,), True)):
            us.append(H.Unit('labels-log-spectrum-k%d-%s%s' % (k, 'x'.join(map(str, shape)), '-folded' if folded else ''),
                             make_labels_log_body(k, shape, folded), params=dict(k=k, shape=list(shape), folded=folded),
                             setup=_setup, min_obligations=4, timeout_s=400, maxpaths=4000, query_timeout_ms=60000))
    for k in range(1, 7):
        n = 2 if (k <= 4 or tier == 'thorough') else 1
        maxperm = 3 if tier == 'quick' else 4
        perms = list(itertools.permutations(range(k))) if k <= maxperm else \
            [tuple(range(k)), tuple(reversed(range(k))), tuple(range(2, k)) + (1, 0), (1, 0) + tuple(range(2, k))]
        for mode, valued in (('lin', 'list'), ('lin', 'attr'), ('lin', 'spectrum'), ('log', 'list')):
            for pi, perm in enumerate(perms):
                if pi > 1 and not (mode == 'lin' and valued == 'list') and k <= 3:
                    continue
                kw = (pi % 2 == 1)
                name = 'k%d-%s-%s-perm%s%s' % (k, mode, valued, ''.join(map(str, perm)), '-kw' if kw else '')
                us.append(H.Unit(name, make_body(k, n, mode, valued, perm, kw),
                                 params=dict(k=k, n=n, mode=mode, valued=valued, perm=list(perm), kw=kw),
                                 setup=_setup, min_obligations=n, timeout_s=900 if tier == 'thorough' else 400,
                                 expect_paths=(1 if k == 1 else 2), maxpaths=4000, query_timeout_ms=120000))
    for k in ((2, 3) if tier == 'quick' else (2, 3, 4)):
        for mode, valued in (('lin', 'attr'), ('lin', 'spectrum'), ('log', 'attr')):
            perm = tuple(range(k))
            us.append(H.Unit('reuse-k%d-%s-%s' % (k, mode, valued), make_body(k, 2, mode, valued, perm, False, warm=True),
                             params=dict(k=k, n=2, mode=mode, valued=valued, perm=list(perm), reuse=True), setup=_setup,
                             min_obligations=2, timeout_s=900 if tier == 'thorough' else 400, maxpaths=4000,
                             query_timeout_ms=120000))
    for k in range(2, 7):
        for mode in (('lin', 'log') if (tier == 'thorough' or k >= 5) else ('lin',)):
            us.append(H.Unit('intx-k%d-%s' % (k, mode), make_intx_body(k, mode), params=dict(k=k, mode=mode, x='python ints'),
                             setup=_setup, min_obligations=2, timeout_s=400, maxpaths=4000, query_timeout_ms=120000))
    us.append(H.Unit('misc-reject-kw', misc_body, setup=_setup, min_obligations=6))
    return us
