"""C05 - sampling a spectrum from phi is exact binomial integration on every code path.

Real code: Spectrum.from_phi (dispatch), _from_phi_1D_analytic, _from_phi_{2,3,4,5}D_linalg (+ cached_dbeta),
_from_phi_{1,2,3,4}D_direct (incl. het_ascertained), _from_phi_{2,3,4}D_admix_props, from_phi_inbreeding
(F = 0 delegation; F > 0 as stretch), Spectrum.project / marginalize where composed with them - all executed
unmodified on numpy object arrays of z3 reals.

Oracles written here (never calling dadi): hat-function weights
    W[d][i] = int B_{n,d}(x) h_i(x) dx,   B_{n,d}(x) = C(n,d) sum_j (-1)^j C(n-d,j) x^(d+j)
integrated term by term on each grid cell (antiderivative of a polynomial; no beta functions), tensorised over the
axes for the piecewise-multilinear interpolant; trapezoid weights x binomial (x heterozygosity) for the direct
paths; the admixed binomials for the admix_props paths.
"""
import itertools
import logging
import math
from fractions import Fraction as Fr

import numpy as np

from engine import esf
from engine import harness as H
from engine import shims
from engine import symreal as S

TAU = Fr(1, 2 ** 40)
# 5-D densities with force_direct / het_ascertained / admix_props: no code path exists and from_phi escapes with
# UnboundLocalError.  False: outside the claim (listed in META); True: unit `dispatch-5d-options` claims that such a
# call either returns the direct-path result or raises a deliberate ValueError / NotImplementedError.
CLAIM_5D_OPTIONS = False

META = dict(
    explanation=(
        'Spectrum.from_phi and the private samplers it dispatches to are executed unmodified on object arrays of z3 '
        'reals: the density phi is symbolic on every grid node (arbitrary reals for the exact laws, non-negative reals '
        'for the laws with slack), grids are symbolic (1-D: interior points 0<g1<..<1 quantified by z3; 2-D small) or '
        'fixed non-uniform rationals, admixture proportions are symbolic points of the simplex, the overshoot of a grid '
        'beyond [0,1] is a symbolic eps in [0,1e-16].  scipy.special.betainc/comb/gammaln are replaced by exact '
        'polynomial / factorial stubs (integer parameters only).  z3 proves entry by entry: (1) semi-analytic paths '
        '(1-D analytic, 2-5-D linalg recursion) equal the exact integral of C(n,d)x^d(1-x)^(n-d) against the '
        'piecewise-(multi)linear interpolant, computed by an independent term-wise polynomial antiderivative on each '
        'cell and tensorised over axes; (2) the total over all entries equals the trapezoid mass of phi; (3) exact '
        'linearity F(a*phi1+b*phi2)=a*F(phi1)+b*F(phi2) with symbolic a,b on every path; (4) project(from_phi(n),m) = '
        'from_phi(m) and marginalize(from_phi(phi)) = from_phi(trapezoid-marginal of phi) (both sides real code); (5) '
        'direct paths equal the tensor trapezoid of binomial x phi, het_ascertained variants the x(1-x)-weighted one on '
        'the right axis, and their totals equal the (weighted) trapezoid mass; (6) admix_props with identity rows = '
        'direct path exactly, with symbolic proportions = trapezoid of the admixed binomials and the total still equals '
        'the trapezoid mass (admixed sampling probabilities sum to one); (7) clamping of overshooting grids; (8) '
        'extrap_x = xx[1], pop_ids, corner mask, result type, argument validation (ValueError / NotImplementedError); '
        '(9) from_phi_inbreeding with all F = 0 is from_phi with direct integration.  1-D laws are exact identities; '
        '>=2-D semi-analytic laws are asserted up to a relative slack 2^-40 of the trapezoid mass of a non-negative '
        'density because dadi computes the constants (k+1)/((n+1)(n+2)) in floating point.'),
    functions=['dadi.Spectrum.from_phi', 'dadi.Spectrum._from_phi_1D_analytic', 'dadi.Spectrum._from_phi_1D_direct',
               'dadi.Spectrum._from_phi_2D_linalg', 'dadi.Spectrum._from_phi_3D_linalg',
               'dadi.Spectrum._from_phi_4D_linalg', 'dadi.Spectrum._from_phi_5D_linalg', 'dadi.Spectrum_mod.cached_dbeta',
               'dadi.Spectrum._from_phi_2D_direct', 'dadi.Spectrum._from_phi_3D_direct',
               'dadi.Spectrum._from_phi_4D_direct', 'dadi.Spectrum._from_phi_2D_admix_props',
               'dadi.Spectrum._from_phi_3D_admix_props', 'dadi.Spectrum._from_phi_4D_admix_props',
               'dadi.Spectrum.from_phi_inbreeding', 'dadi.Spectrum.project', 'dadi.Spectrum.marginalize',
               'dadi.Numerics.BetaBinomConvolution (stretch)', 'dadi.Spectrum._from_phi_1D_direct_inbreeding (stretch)'],
    files=['dadi/Spectrum_mod.py', 'dadi/Numerics.py'],
    bounds=dict(
        quick='1-D symbolic grid (interior points quantified): (L,n) in {(3,3),(4,1),(4,2),(4,3),(5,2)} for entries / mass '
              '(semi-analytic, direct, het_ascertained) and projection to every m<n, linearity and symbolic overshoot '
              'eps for (4,2),(4,3).  1-D rational non-uniform grids: n in {1,2,5,12,40}, L=6 (5 for n=40), projection '
              'to every m (n<=12) / 3 targets (n=40), overshoot and linearity for n=5,12 (L=5), a grid covering only '
              '[1/10,9/10].  Semi-analytic >=2-D (L = grid points, n = sample sizes per axis; later axes on different '
              'grids/lengths where the code allows): 2-D L4 n(2,3), L5 n(3,2), L3 n(1,2), symbolic 2-D grid L4 n(2,2) '
              '(exact constants); 3-D L(4,4,3) n(2,1,3), L4 n(1,2,1); 4-D L3 n(1,2,1,2), n(2,1,1,1); 5-D L3 '
              'n(1,1,1,1,1), n(2,1,1,1,1); each with entries, mass, linearity, projection (one axis at a time and all '
              'axes), marginalisation over <=6 admissible axis subsets; overshoot 1e-16 for 2-4-D.  Direct paths: 2-D '
              'L(4,5) n(2,3), L(4,4) n(1,2); 3-D L(4,3,4) n(2,1,3), L3 n(1,2,1); 4-D L(3,4,3,3) n(1,2,1,2), L3 '
              'n(2,1,1,1), all distinct grids per axis, het_ascertained none/xx/yy/zz (+aa on the private 4-D '
              'function), projection and marginalisation (none, yy).  admix_props: identity on all direct shapes; '
              'symbolic simplex rows 2-D (two rows) L(3,4) n(2,2), L(4,3) n(1,3), 3-D/4-D (one row) L3 n(1,2,1) / '
              'n(1,1,1,1).  Inbreeding F=0: 1-3-D.  Stretch (F>0): BetaBinomConvolution ploidy 2..6,8 (nInd 1; '
              'ploidy 2 and 3 also nInd 2; ploidy 3 then 2 and 2 then 3 with nInd 2 in one process), from_phi_inbreeding 1-D n<=4 ploidy 2/4 (+het), 2-D n(2,2); F->0 bound 1-D.',
        thorough='quick plus: 1-D symbolic (5,3),(5,4),(6,2),(4,4); rational grids every n = 1..40 with L=6; semi-analytic '
                 '2-D L6 n(4,3), L4 n(3,4), symbolic 2-D grid L4 n(2,3), L3 n(3,2); 3-D L(5,5,4) n(3,2,3), L(4,4,5) '
                 'n(2,3,2); 4-D L(4,4,4,3) n(2,2,1,2), L(3,3,4,4) n(1,2,2,1); 5-D L3 n(2,1,2,1,1), n(1,2,1,1,2) and 5-D '
                 'L4 n(1,1,1,1,1) (entries and mass only); direct 2-D L(6,4) n(4,3), 3-D L(5,4,3) n(2,3,2), 4-D '
                 'L(4,3,4,3) n(2,1,3,2); admixture 2-D L4 n(3,2), 3-D three symbolic rows n(1,1,1), L(4,3,3) n(2,1,2); '
                 'stretch: ploidy 7, nInd up to 3, 1-D n=6, 2-D ploidies (2,4) with het yy'),
    outside=['floating-point round-off (doubles modelled as reals; >=2-D semi-analytic laws up to 2^-40 of the mass)',
             'accuracy of scipy.special.betainc/comb themselves (replaced by their exact integer-parameter values)',
             'agreement of semi-analytic and direct paths with each other (they differ by the discretisation error by '
             'design; both are compared with their own definition and share mass / projection / marginal laws)',
             'the divergent=True option of _from_phi_1D_analytic (not reachable from from_phi)',
             '5-D with force_direct / het_ascertained / admix_props: no such code path exists and from_phi escapes with '
             'UnboundLocalError (missing feature, not asserted; unit dispatch-5d-options exists but is disabled by '
             'CLAIM_5D_OPTIONS=False).  Reproducer: import numpy as np, dadi; xx=np.array([0,.5,1.]); '
             'dadi.Spectrum.from_phi(np.ones((3,)*5),[1]*5,[xx]*5,force_direct=True)',
             'grid sizes / sample sizes beyond the bounds; >=2-D symbolic grids beyond L=5',
             'inbreeding F>0 (BetaBinomConvolution with non-integer alpha/beta): stretch units only'],
    stubs=['scipy.special.betainc inside Spectrum_mod -> engine.esf.betainc (exact polynomial for integer a,b) with its domain contract 0<=x<=1 turned into an obligation',
           'scipy.special.comb inside Spectrum_mod -> engine.esf.comb (math.comb)',
           'scipy.special.gammaln inside Numerics -> engine.esf.gammaln (exact ln of factorials) for Spectrum.project',
           'numpy array constructors inside Spectrum_mod / Numerics -> object arrays; allclose -> exact equality',
           'Spectrum.__new__ default dtype float -> object',
           'stretch units only: Numerics.betaln/_lncomb/math.exp -> exact log-space rational functions through the '
           'Gamma recurrence B(a+i,b+j)/B(a,b) = prod(a+k)prod(b+k)/prod(a+b+k)'],
    assumptions=['doubles modelled as reals', 'grids strictly increasing with first point 0 (or -eps) and last 1 (or '
                 '1+eps)', 'recorded denominators (grid spacings) != 0', 'slack laws: phi >= 0 on every node'],
)


# ---------------------------------------------------------------------------------------------
# setup
def _quiet():
    for n in ('Spectrum_mod', 'Numerics', 'dadi', 'dadi.Spectrum_mod'):
        logging.getLogger(n).setLevel(logging.CRITICAL)


DOMAIN = []   # (label, condition) recorded by the betainc stub during the current body run


def _betainc_checked(a, b, x):
    """esf.betainc plus its domain contract 0 <= x <= 1 (scipy returns nan outside): every argument is recorded
    and turned into an obligation by the body (`domain_obligations`)."""
    for v in np.ravel(np.asarray(x, dtype=object)):
        v = S.Sym.lift(v)
        if v.c is not None:
            if not (0 <= v.c <= 1):
                DOMAIN.append(('betainc argument %s outside [0,1]' % v.c, False))
        else:
            DOMAIN.append(('betainc argument in [0,1]', (v >= 0) & (v <= 1)))
    return esf.betainc(a, b, x)


def domain_obligations(env):
    if not env.symbolic:
        return
    seen = set()
    for label, cond in DOMAIN:
        key = cond.t.get_id() if isinstance(cond, S.SymBool) else cond
        if key in seen:
            continue
        seen.add(key)
        env.holds(label, cond)
    env.holds('betainc-domain-checked', True)


def _fresh_run(env):
    """Start of a body run: forget recorded domain conditions and dadi's beta-difference cache (so that every
    path re-executes, and re-records, the betainc calls)."""
    del DOMAIN[:]
    if env.symbolic:
        from dadi import Spectrum_mod
        Spectrum_mod._dbeta_cache.clear()


def _setup():
    import dadi
    from dadi import Numerics, Spectrum_mod
    _quiet()
    shims.install_numpy(Numerics)
    shims.install_numpy(Spectrum_mod)
    shims.patch_spectrum_dtype(dadi.Spectrum)
    shims.set_attr(Spectrum_mod, 'betainc', _betainc_checked)
    shims.set_attr(Spectrum_mod, 'comb', esf.comb)
    shims.set_attr(Numerics, 'gammaln', esf.gammaln)
    shims.set_attr(Numerics, 'comb', esf.comb)
    Spectrum_mod._dbeta_cache.clear()
    Numerics._projection_cache.clear()


class _ExactInt(np.ndarray):
    """Integer array whose division by an int is exact (Fraction) instead of rounded to double."""
    def __truediv__(self, o):
        if isinstance(o, (int, np.integer)):
            out = np.empty(self.shape, dtype=object)
            for idx in np.ndindex(*self.shape):
                out[idx] = S.C(Fr(int(np.ndarray.__getitem__(self, idx)), int(o)))
            return out
        return np.asarray(self) / o


def _setup_exact2d():
    """As _setup, plus: numpy.arange(..)/int inside Spectrum_mod is evaluated exactly, i.e. the constants
    (k+1)/((n+1)(n+2)) of _from_phi_2D_linalg are the rationals they denote instead of their double rounding
    (2-D symbolic-grid units: makes the laws exact polynomial identities)."""
    _setup()
    from dadi import Spectrum_mod
    object.__getattribute__(Spectrum_mod.np, '_o')['arange'] = lambda *a, **k: np.arange(*a, **k).view(_ExactInt)


def concrete_setup():
    import warnings
    _quiet()
    warnings.filterwarnings('ignore')


# ---------------------------------------------------------------------------------------------
# grids: fixed non-uniform rational families (distinct per family so axes cannot be confused)
RG = {
    'A': {3: [0, Fr(1, 3), 1], 4: [0, Fr(1, 8), Fr(1, 2), 1], 5: [0, Fr(1, 16), Fr(1, 4), Fr(5, 8), 1],
          6: [0, Fr(1, 32), Fr(1, 8), Fr(3, 8), Fr(3, 4), 1], 7: [0, Fr(1, 64), Fr(1, 16), Fr(3, 16), Fr(7, 16), Fr(3, 4), 1]},
    'B': {3: [0, Fr(3, 5), 1], 4: [0, Fr(1, 5), Fr(7, 10), 1], 5: [0, Fr(1, 10), Fr(3, 10), Fr(4, 5), 1],
          6: [0, Fr(1, 20), Fr(1, 5), Fr(2, 5), Fr(7, 10), 1]},
    'C': {3: [0, Fr(1, 4), 1], 4: [0, Fr(1, 3), Fr(1, 2), 1], 5: [0, Fr(1, 6), Fr(1, 3), Fr(2, 3), 1]},
    'D': {3: [0, Fr(2, 7), 1], 4: [0, Fr(1, 7), Fr(4, 7), 1]},
    # a grid covering only part of [0,1]: the laws hold with all integrals taken over the grid's range
    'E': {4: [Fr(1, 10), Fr(1, 4), Fr(1, 2), Fr(9, 10)], 5: [Fr(1, 20), Fr(1, 4), Fr(1, 2), Fr(3, 4), Fr(19, 20)]},
}


def _pts(fam, L):
    return [Fr(v) for v in RG[fam][L]]


def mk_grids(env, fams, Ls):
    """Returns (arrays handed to dadi, values used by the oracles).  fam 'sym' = symbolic interior points.
    Axes with the same family and length share one array object (as dadi models do)."""
    _fresh_run(env)
    made = {}
    arrs, vals = [], []
    for ax, (fam, L) in enumerate(zip(fams, Ls)):
        key = (fam, L)
        if key not in made:
            if fam == 'sym':
                g = env.grid('g%d_' % L, L)
                made[key] = (g, list(g))
            else:
                p = _pts(fam, L)
                g = env.grid('x', L, symbolic=False, points=p)
                made[key] = (g, p)
        arrs.append(made[key][0])
        vals.append(made[key][1])
    return arrs, vals


# ---------------------------------------------------------------------------------------------
# oracles (generic arithmetic: Fraction, Sym or float)
def cell_moments(n, d, a, b):
    """(int_a^b P, int_a^b x P) for P(x) = C(n,d) x^d (1-x)^(n-d), expanded and integrated term by term."""
    M0 = 0
    M1 = 0
    for j in range(n - d + 1):
        cf = (-1) ** j * math.comb(n - d, j) * math.comb(n, d)
        e = d + j + 1
        M0 = M0 + Fr(cf, e) * (b ** e - a ** e)
        M1 = M1 + Fr(cf, e + 1) * (b ** (e + 1) - a ** (e + 1))
    return M0, M1


def hat_weights(n, xs):
    """W[d][i] = int B_{n,d}(x) h_i(x) dx with h_i the piecewise-linear hat function of node i on grid xs."""
    L = len(xs)
    W = [[0] * L for _ in range(n + 1)]
    for d in range(n + 1):
        for c in range(L - 1):
            a, b = xs[c], xs[c + 1]
            M0, M1 = cell_moments(n, d, a, b)
            h = b - a
            W[d][c] = W[d][c] + (b * M0 - M1) / h        # (b-x)/(b-a)
            W[d][c + 1] = W[d][c + 1] + (M1 - a * M0) / h  # (x-a)/(b-a)
    return W


def trap_weights(xs):
    L = len(xs)
    tw = []
    for i in range(L):
        w = 0
        if i > 0:
            w = w + (xs[i] - xs[i - 1])
        if i < L - 1:
            w = w + (xs[i + 1] - xs[i])
        tw.append(w * Fr(1, 2))
    return tw


def binom(n, d, x):
    return math.comb(n, d) * x ** d * (1 - x) ** (n - d)


def direct_weights(n, xs, het=False):
    """D[d][i] = trapezoid weight_i * B_{n,d}(x_i) (* x_i (1-x_i) when ascertained on this axis)."""
    tw = trap_weights(xs)
    D = []
    for d in range(n + 1):
        row = []
        for i, x in enumerate(xs):
            v = tw[i] * binom(n, d, x)
            if het:
                v = v * (x * (1 - x))
            row.append(v)
        D.append(row)
    return D


def mass_weights(xs, het=False):
    tw = trap_weights(xs)
    if het:
        tw = [w * (x * (1 - x)) for w, x in zip(tw, xs)]
    return [tw]


def _lift(env, v):
    return env.const(v) if isinstance(v, (Fr, int)) else v


def contract(env, Ws, phi):
    """out[d_0..d_{P-1}] = sum_nodes prod_a Ws[a][d_a][i_a] * phi[i]; explicit loops, one axis at a time."""
    cur = np.asarray(phi)
    for a, W in enumerate(Ws):
        nd = len(W)
        L = cur.shape[a]
        shp = list(cur.shape)
        shp[a] = nd
        out = np.empty(shp, dtype=object if env.symbolic else float)
        for idx in np.ndindex(*shp):
            tot = env.const(Fr(0))
            src = list(idx)
            for i in range(L):
                w = W[idx[a]][i]
                if isinstance(w, (Fr, int)) and w == 0:
                    continue
                src[a] = i
                tot = tot + _lift(env, w) * cur[tuple(src)]
            out[idx] = tot
        cur = out
    return cur


def total(env, arr):
    t = env.const(Fr(0))
    for idx in np.ndindex(*np.shape(arr)):
        t = t + arr[idx]
    return t


def trap_mass(env, vals, phi, het_axis=None):
    Ws = [mass_weights(xs, het=(a == het_axis)) for a, xs in enumerate(vals)]
    return contract(env, Ws, phi)[tuple(0 for _ in vals)]


HET = {'xx': 0, 'yy': 1, 'zz': 2, 'aa': 3}


def cmp(env, label, got, want, exact, mass):
    if exact:
        env.eq(label, got, want)
    else:
        env.eq(label, got, want, slack=TAU, scale=mass)


def _corner_mask(shape):
    m = np.zeros(shape, dtype=bool)
    m[tuple(0 for _ in shape)] = True
    m[tuple(s - 1 for s in shape)] = True
    return m


def _ids(nd):
    return ['pA', 'pB', 'pC', 'pD', 'pE'][:nd]


# ---------------------------------------------------------------------------------------------
# bodies
def body_entries(fams, Ls, ns, path, het=None, checkmask=True, exact2d=False):
    """Every entry of from_phi(...) against the oracle of the path it must take; total mass; bookkeeping."""
    nd = len(ns)
    analytic = path == 'analytic'
    exact = (not analytic) or nd == 1 or exact2d

    def body(env):
        import dadi
        xxs, vals = mk_grids(env, fams, Ls)
        phi = env.array('phi', tuple(Ls), lo=None if exact else 0)
        kw = {}
        if path == 'direct':
            kw['force_direct'] = True
        if het:
            kw['het_ascertained'] = het
            kw.pop('force_direct', None)
        if path == 'admix-id':
            kw['admix_props'] = tuple(tuple(1 if i == j else 0 for j in range(nd)) for i in range(nd))
        fs = dadi.Spectrum.from_phi(phi, list(ns), xxs, mask_corners=False, pop_ids=_ids(nd), **kw)
        hax = HET[het] if het else None
        if analytic:
            Ws = [hat_weights(n, xs) for n, xs in zip(ns, vals)]
        else:
            Ws = [direct_weights(n, xs, het=(a == hax)) for a, (n, xs) in enumerate(zip(ns, vals))]
        want = contract(env, Ws, phi)
        mass = trap_mass(env, vals, phi, hax)
        plain = trap_mass(env, vals, phi) if not exact else None
        env.holds('type', isinstance(fs, dadi.Spectrum))
        if tuple(fs.shape) != tuple(n + 1 for n in ns):
            env.fail('shape', str(fs.shape))
            return
        data = np.ma.getdata(fs)
        for idx in np.ndindex(*fs.shape):
            cmp(env, 'entry%s' % (list(idx),), data[idx], want[idx], exact, plain)
        cmp(env, 'total=mass', total(env, data), mass, exact, plain)
        if analytic:
            domain_obligations(env)
        env.holds('unmasked', not np.ma.getmaskarray(fs).any())
        env.holds('pop_ids', list(fs.pop_ids) == _ids(nd))
        env.holds('unfolded', not fs.folded)
        env.eq('extrap_x', fs.extrap_x, xxs[0][1])
        if checkmask:
            fm = dadi.Spectrum.from_phi(phi, list(ns), xxs, **kw)
            env.holds('corner-mask', bool(np.array_equal(np.ma.getmaskarray(fm), _corner_mask(fm.shape))))
            env.holds('default-pop_ids', fm.pop_ids is None)
            dm = np.ma.getdata(fm)
            k = tuple(min(1, n) for n in ns)
            env.eq('masked-run-entry', dm[k], data[k])
    return body


def body_linear(fams, Ls, ns, path, het=None, admix=None):
    nd = len(ns)

    def body(env):
        import dadi
        xxs, vals = mk_grids(env, fams, Ls)
        p1 = env.array('phi', tuple(Ls))
        p2 = env.array('psi', tuple(Ls))
        a = env.real('a')
        b = env.real('b')
        kw = {}
        if path == 'direct':
            kw['force_direct'] = True
        if het:
            kw['het_ascertained'] = het
        if admix == 'sym':
            kw['admix_props'] = _sym_props(env, nd)
        f = lambda p: np.ma.getdata(dadi.Spectrum.from_phi(p, list(ns), xxs, mask_corners=False, **kw))
        f1, f2, f3 = f(p1), f(p2), f(a * p1 + b * p2)
        for idx in np.ndindex(*f1.shape):
            env.eq('linear%s' % (list(idx),), f3[idx], a * f1[idx] + b * f2[idx])
    return body


def body_project(fams, Ls, ns, targets, path, het=None):
    """from_phi(ns).project(ms) == from_phi(ms): both sides are the real code."""
    nd = len(ns)
    analytic = path == 'analytic'
    exact = (not analytic) or nd == 1

    def body(env):
        import dadi
        xxs, vals = mk_grids(env, fams, Ls)
        phi = env.array('phi', tuple(Ls), lo=None if exact else 0)
        kw = {}
        if path == 'direct':
            kw['force_direct'] = True
        if het:
            kw['het_ascertained'] = het
        plain = trap_mass(env, vals, phi) if not exact else None
        big = dadi.Spectrum.from_phi(phi, list(ns), xxs, mask_corners=False, pop_ids=_ids(nd), **kw)
        for ms in targets:
            pr = big.project(list(ms))
            small = dadi.Spectrum.from_phi(phi, list(ms), xxs, mask_corners=False, pop_ids=_ids(nd), **kw)
            lab = 'project%s->%s' % (list(ns), list(ms))
            if tuple(pr.shape) != tuple(small.shape):
                env.fail(lab + ':shape')
                continue
            env.holds(lab + ':unmasked', not np.ma.getmaskarray(pr).any())
            env.holds(lab + ':pop_ids', list(pr.pop_ids) == _ids(nd))
            env.eq(lab + ':extrap_x', pr.extrap_x, small.extrap_x)
            pd, sd = np.ma.getdata(pr), np.ma.getdata(small)
            for idx in np.ndindex(*pr.shape):
                cmp(env, '%s%s' % (lab, list(idx)), pd[idx], sd[idx], exact, plain)
    return body


def body_marginal(fams, Ls, ns, overs, path, het=None):
    """from_phi(phi).marginalize(over) == from_phi(trapezoid marginal of phi over the same axes)."""
    nd = len(ns)
    analytic = path == 'analytic'
    exact = not analytic  # the 1-D result of the reduced problem vs the n-D linalg recursion: float constants differ

    def body(env):
        import dadi
        xxs, vals = mk_grids(env, fams, Ls)
        phi = env.array('phi', tuple(Ls), lo=None if exact else 0)
        kw = {}
        if path == 'direct':
            kw['force_direct'] = True
        if het:
            kw['het_ascertained'] = het
        plain = trap_mass(env, vals, phi) if not exact else None
        full = dadi.Spectrum.from_phi(phi, list(ns), xxs, mask_corners=False, pop_ids=_ids(nd), **kw)
        hax = HET[het] if het else None
        for over in overs:
            kept = [a for a in range(nd) if a not in over]
            # input of the reduced problem: trapezoid integral of phi over the dropped axes (weighted by x(1-x) if
            # the ascertainment population is dropped)
            Ws = []
            for a in range(nd):
                if a in over:
                    Ws.append(mass_weights(vals[a], het=(a == hax)))
                else:
                    Ws.append([[1 if i == j else 0 for i in range(Ls[a])] for j in range(Ls[a])])
            red = contract(env, Ws, phi)
            red = red[tuple(0 if a in over else slice(None) for a in range(nd))]
            red = np.asarray(red, dtype=object if env.symbolic else float)
            kw2 = dict(kw)
            if het:
                if hax in over:
                    kw2.pop('het_ascertained')
                    kw2['force_direct'] = True
                else:
                    kw2['het_ascertained'] = ['xx', 'yy', 'zz', 'aa'][kept.index(hax)]
            small = dadi.Spectrum.from_phi(red, [ns[a] for a in kept], [xxs[a] for a in kept], mask_corners=False,
                                           pop_ids=[_ids(nd)[a] for a in kept], **kw2)
            mg = full.marginalize(list(over), mask_corners=False)
            lab = 'marginal%s' % (list(over),)
            if tuple(mg.shape) != tuple(small.shape):
                env.fail(lab + ':shape')
                continue
            env.holds(lab + ':pop_ids', list(mg.pop_ids) == list(small.pop_ids))
            md, sd = np.ma.getdata(mg), np.ma.getdata(small)
            for idx in np.ndindex(*mg.shape):
                cmp(env, '%s%s' % (lab, list(idx)), md[idx], sd[idx], exact, plain)
    return body


def _sym_props(env, nd, nrows=None):
    """Admixture proportion matrix with symbolic rows on the simplex (rows sum to 1 by construction)."""
    one = env.const(Fr(1))
    zero = env.const(Fr(0))
    rows = []
    nrows = nd if nrows is None else nrows
    for r in range(nd):
        if r >= nrows:
            rows.append(tuple(one if c == r else zero for c in range(nd)))
            continue
        fs_ = []
        rest = one
        for c in range(nd):
            if c == r:
                fs_.append(None)
                continue
            f = env.real('f%d%d' % (r, c), lo=0, hi=1)
            fs_.append(f)
            rest = rest - f
        env.assume(rest >= 0)
        rows.append(tuple(rest if v is None else v for v in fs_))
    return tuple(rows)


def body_admix(fams, Ls, ns, mode, nrows=None):
    """admix_props: identity rows == direct path (exactly); symbolic rows: trapezoid of the admixed binomials and
    total == trapezoid mass of phi."""
    nd = len(ns)

    def body(env):
        import dadi
        xxs, vals = mk_grids(env, fams, Ls)
        phi = env.array('phi', tuple(Ls))
        if mode == 'identity':
            for variant in ('int', 'const'):
                if variant == 'int':
                    props = tuple(tuple(1 if i == j else 0 for j in range(nd)) for i in range(nd))
                else:
                    props = tuple(tuple(env.const(Fr(1 if i == j else 0)) for j in range(nd)) for i in range(nd))
                fa = dadi.Spectrum.from_phi(phi, list(ns), xxs, mask_corners=False, admix_props=props)
                fd = dadi.Spectrum.from_phi(phi, list(ns), xxs, mask_corners=False, force_direct=True)
                ad, dd = np.ma.getdata(fa), np.ma.getdata(fd)
                for idx in np.ndindex(*fa.shape):
                    env.eq('admix-identity-%s==direct%s' % (variant, list(idx)), ad[idx], dd[idx])
                env.eq('extrap_x-%s' % variant, fa.extrap_x, xxs[0][1])
            return
        if mode == 'rational':
            # all-rational proportion matrix with pairwise distinct off-diagonal entries (an index transposition such as
            # props[1][2] <-> props[2][1] is invisible with identity or symmetric rows); rows sum to one
            props = []
            for r in range(nd):
                offs = [Fr(1 + ((3 * r + 5 * c) % 7), 8 * nd + 6 * r + c) for c in range(nd)]
                row = [env.const(offs[c]) if c != r else None for c in range(nd)]
                rest = Fr(1) - sum(offs[c] for c in range(nd) if c != r)
                assert rest > 0
                props.append(tuple(env.const(rest) if v is None else v for v in row))
            props = tuple(props)
        else:
            props = _sym_props(env, nd, nrows)
        fa = dadi.Spectrum.from_phi(phi, list(ns), xxs, mask_corners=False, admix_props=props)
        ad = np.ma.getdata(fa)
        tws = [trap_weights(xs) for xs in vals]
        want = np.empty(fa.shape, dtype=object)
        for d in np.ndindex(*fa.shape):
            want[d] = env.const(Fr(0))
        for node in np.ndindex(*Ls):
            w = phi[node]
            for a in range(nd):
                w = w * _lift(env, tws[a][node[a]])
            fr = []
            for r in range(nd):
                v = env.const(Fr(0))
                for c in range(nd):
                    v = v + props[r][c] * _lift(env, vals[c][node[c]])
                fr.append(v)
            bs = [[binom(ns[r], d, fr[r]) for d in range(ns[r] + 1)] for r in range(nd)]
            for d in np.ndindex(*fa.shape):
                t = w
                for r in range(nd):
                    t = t * bs[r][d[r]]
                want[d] = want[d] + t
        for d in np.ndindex(*fa.shape):
            env.eq('admix%s' % (list(d),), ad[d], want[d])
        env.eq('admix-total=mass', total(env, ad), trap_mass(env, vals, phi))
        env.eq('extrap_x', fa.extrap_x, xxs[0][1])
    return body


def body_overshoot_1d(L, n, symbolic_grid, fam='A'):
    """Grids overshooting [0,1] by eps <= 1e-16 (symbolic): the analytic path clamps the grid to [0,1] and is the
    exact integral on the clamped grid; the direct path is the trapezoid rule on the grid as given."""
    def body(env):
        import dadi
        _fresh_run(env)
        e0 = env.real('eps0', lo=0, hi=Fr(1, 10 ** 16))
        e1 = env.real('eps1', lo=0, hi=Fr(1, 10 ** 16))
        if symbolic_grid:
            g = env.grid('g', L)
            inner = list(g)
        else:
            inner = [env.const(v) for v in _pts(fam, L)]
        raw = [0 - e0] + inner[1:-1] + [1 + e1]
        xx = np.empty(L, dtype=object if env.symbolic else float)
        for i, v in enumerate(raw):
            xx[i] = v
        clamped = [inner[0] * 0] + inner[1:-1] + [inner[-1] * 0 + 1]
        phi = env.array('phi', (L,))
        fs = dadi.Spectrum.from_phi(phi, [n], [xx], mask_corners=False)
        W = hat_weights(n, clamped)
        want = contract(env, [W], phi)
        data = np.ma.getdata(fs)
        for d in range(n + 1):
            env.eq('clamped-entry[%d]' % d, data[d], want[d])
        env.eq('clamped-total=mass', total(env, data), trap_mass(env, [clamped], phi))
        domain_obligations(env)
        env.eq('extrap_x', fs.extrap_x, xx[1])
        fd = np.ma.getdata(dadi.Spectrum.from_phi(phi, [n], [xx], mask_corners=False, force_direct=True))
        wd = contract(env, [direct_weights(n, raw)], phi)
        for d in range(n + 1):
            env.eq('direct-entry[%d]' % d, fd[d], wd[d])
        env.eq('direct-total=mass', total(env, fd), trap_mass(env, [raw], phi))
    return body


def body_overshoot_nd(fams, Ls, ns):
    """>=2-D semi-analytic with every grid overshooting by exactly 1e-16 at both ends: within 2^-40 of the mass of
    the exact integral on the clamped grid."""
    nd = len(ns)

    def body(env):
        import dadi
        _fresh_run(env)
        eps = Fr(1, 10 ** 16)
        made = {}
        xxs, vals = [], []
        for fam, L in zip(fams, Ls):
            if (fam, L) not in made:
                p = _pts(fam, L)
                q = [p[0] - eps] + p[1:-1] + [p[-1] + eps]
                made[fam, L] = (env.grid('x', L, symbolic=False, points=q), p)
            xxs.append(made[fam, L][0])
            vals.append(made[fam, L][1])
        phi = env.array('phi', tuple(Ls), lo=0)
        fs = dadi.Spectrum.from_phi(phi, list(ns), xxs, mask_corners=False)
        want = contract(env, [hat_weights(n, xs) for n, xs in zip(ns, vals)], phi)
        mass = trap_mass(env, vals, phi)
        data = np.ma.getdata(fs)
        for idx in np.ndindex(*fs.shape):
            cmp(env, 'overshoot-entry%s' % (list(idx),), data[idx], want[idx], False, mass)
        cmp(env, 'overshoot-total=mass', total(env, data), mass, False, mass)
        domain_obligations(env)
    return body


def body_het_private_4d(fams, Ls, ns):
    """_from_phi_4D_direct supports het_ascertained='aa' although from_phi rejects the string: weighted trapezoid."""
    def body(env):
        import dadi
        xxs, vals = mk_grids(env, fams, Ls)
        phi = env.array('phi', tuple(Ls))
        fs = dadi.Spectrum._from_phi_4D_direct(ns[0], ns[1], ns[2], ns[3], xxs[0], xxs[1], xxs[2], xxs[3], phi,
                                               mask_corners=False, het_ascertained='aa')
        want = contract(env, [direct_weights(n, xs, het=(a == 3)) for a, (n, xs) in enumerate(zip(ns, vals))], phi)
        data = np.ma.getdata(fs)
        for idx in np.ndindex(*fs.shape):
            env.eq('het-aa%s' % (list(idx),), data[idx], want[idx])
    return body


def body_validation(env):
    """Argument validation of from_phi / from_phi_inbreeding."""
    import dadi
    xx = env.grid('x', 3, symbolic=False, points=_pts('A', 3))
    p1 = env.array('phi', (3,))
    p2 = env.array('psi', (3, 3))
    half = env.const(Fr(1, 2))
    quarter = env.const(Fr(1, 4))
    F = dadi.Spectrum.from_phi

    def expect(label, exc, fn):
        try:
            fn()
            env.fail(label + ' accepted')
        except exc:
            env.holds(label + ' rejected', True)
    expect('rows-not-summing-to-1', ValueError,
           lambda: F(p2, [1, 1], [xx, xx], admix_props=((1, 0), (half, quarter))))
    expect('ndim!=len(ns)', ValueError, lambda: F(p2, [1], [xx, xx]))
    expect('ndim!=len(xxs)', ValueError, lambda: F(p2, [1, 1], [xx]))
    expect('het=aa', ValueError, lambda: F(p2, [1, 1], [xx, xx], het_ascertained='aa'))
    expect('admix+het', NotImplementedError,
           lambda: F(p2, [1, 1], [xx, xx], admix_props=((1, 0), (0, 1)), het_ascertained='xx'))
    p6 = np.asarray(p1).reshape((3, 1, 1, 1, 1, 1))
    one = env.grid('o', 1, symbolic=False, points=[Fr(0)])
    expect('6-D', ValueError, lambda: F(p6, [1] * 6, [xx] + [one] * 5))
    expect('linalg xx!=yy', ValueError,
           lambda: F(p2, [1, 1], [xx, env.grid('y', 3, symbolic=False, points=_pts('B', 3))]))
    # valid admixture rows summing to one are accepted
    r = F(p2, [1, 1], [xx, xx], admix_props=((half, half), (quarter, 3 * quarter)), mask_corners=False)
    env.holds('valid-props accepted', tuple(r.shape) == (2, 2))
    FI = dadi.Spectrum.from_phi_inbreeding
    expect('inbreeding lengths', ValueError, lambda: FI(p2, [2, 2], [xx, xx], [half], [2, 2]))
    expect('inbreeding rows', ValueError,
           lambda: FI(p2, [2, 2], [xx, xx], [half, half], [2, 2], admix_props=((1, 0), (half, quarter))))


def body_5d_options(env):
    """5-D density with options that need a direct path (only reached when CLAIM_5D_OPTIONS)."""
    import dadi
    f, l, s = ['A', 'A', 'B', 'C', 'D'], [3] * 5, [1] * 5
    xxs, vals = mk_grids(env, f, l)
    phi = env.array('phi', tuple(l))
    ident = tuple(tuple(1 if i == j else 0 for j in range(5)) for i in range(5))
    for lab, kw, hax in (('force_direct', dict(force_direct=True), None), ('het-xx', dict(het_ascertained='xx'), 0),
                         ('admix-identity', dict(admix_props=ident), None)):
        try:
            fs = dadi.Spectrum.from_phi(phi, s, xxs, mask_corners=False, **kw)
        except (ValueError, NotImplementedError):
            env.holds('5-D %s: deliberate error' % lab, True)
            continue
        except Exception as e:
            env.fail('5-D %s' % lab, '%s instead of a result or a ValueError/NotImplementedError' % type(e).__name__)
            continue
        want = contract(env, [direct_weights(n, xs, het=(a == hax)) for a, (n, xs) in enumerate(zip(s, vals))], phi)
        data = np.ma.getdata(fs)
        for idx in np.ndindex(*fs.shape):
            env.eq('5-D %s%s' % (lab, list(idx)), data[idx], want[idx])


def body_inbreeding_zero(fams, Ls, ns, het=None):
    """from_phi_inbreeding with every F = 0 is from_phi with direct integration (its default force_direct=True)."""
    nd = len(ns)

    def body(env):
        import dadi
        xxs, vals = mk_grids(env, fams, Ls)
        phi = env.array('phi', tuple(Ls))
        kw = {}
        if het:
            kw['het_ascertained'] = het
        zero = env.const(Fr(0))
        fi = dadi.Spectrum.from_phi_inbreeding(phi, list(ns), xxs, [zero] * nd, [2] * nd, mask_corners=False,
                                               pop_ids=_ids(nd), **kw)
        hax = HET[het] if het else None
        want = contract(env, [direct_weights(n, xs, het=(a == hax)) for a, (n, xs) in enumerate(zip(ns, vals))], phi)
        data = np.ma.getdata(fi)
        for idx in np.ndindex(*fi.shape):
            env.eq('F=0 entry%s' % (list(idx),), data[idx], want[idx])
        env.holds('pop_ids', list(fi.pop_ids) == _ids(nd))
        env.eq('extrap_x', fi.extrap_x, xxs[0][1])
        # integer zeros as well
        fj = dadi.Spectrum.from_phi_inbreeding(phi, list(ns), xxs, [0] * nd, [2] * nd, mask_corners=False, **kw)
        dj = np.ma.getdata(fj)
        k = tuple(min(1, n) for n in ns)
        env.eq('F=0(int) entry', dj[k], want[k])
    return body


# ---------------------------------------------------------------------------------------------
# stretch: inbreeding (beta-binomial convolution with non-integer alpha, beta)
class LogR(esf.LogQ):
    """ln(value * prod atoms^k): `value` a Sym (rational function of alpha, beta), atoms = Beta-function values
    B(a,b) at the un-shifted arguments, which must cancel before exp() (Gamma recurrence)."""

    def __init__(self, value, atoms=None):
        self.q = None
        self.value = S.Sym.lift(value)
        self.atoms = {k: v for k, v in (atoms or {}).items() if v != 0}

    @staticmethod
    def of(o):
        if isinstance(o, LogR):
            return o
        if isinstance(o, esf.LogQ):
            if o.q == esf.INF:
                raise ArithmeticError('ln(inf) combined with a symbolic log')
            return LogR(S.C(o.q))
        if isinstance(o, (int, float, np.integer, np.floating)) and o == 0:
            return LogR(S.C(1))
        raise TypeError(type(o))

    def _comb(self, o, sign):
        try:
            o = LogR.of(o)
        except TypeError:
            return NotImplemented
        at = dict(self.atoms)
        for k, v in o.atoms.items():
            at[k] = at.get(k, 0) + sign * v
        return LogR(self.value * o.value if sign > 0 else self.value / o.value, at)

    def __add__(self, o):
        return self._comb(o, 1)
    __radd__ = __add__

    def __sub__(self, o):
        return self._comb(o, -1)

    def __rsub__(self, o):
        try:
            return LogR.of(o)._comb(self, -1)
        except TypeError:
            return NotImplemented

    def __neg__(self):
        return LogR(S.C(1))._comb(self, -1)

    def __mul__(self, k):
        if isinstance(k, (int, np.integer)) or (isinstance(k, float) and k == int(k)):
            k = int(k)
            return LogR(self.value ** k, {a: v * k for a, v in self.atoms.items()})
        return NotImplemented
    __rmul__ = __mul__

    def exp(self):
        if self.atoms:
            raise ArithmeticError('not covered: Beta atoms do not cancel: %r' % (self.atoms,))
        return self.value

    def __eq__(self, o):
        return self is o

    def __hash__(self):
        return id(self)

    def __repr__(self):
        return 'lnR(%r, %r)' % (self.value, self.atoms)


def _split(x):
    """x = base + k, k a non-negative integer (syntactic for symbolic x, base in (0,1] for constants)."""
    import z3
    x = S.Sym.lift(x)
    if x.c is not None:
        if x.c <= 0:
            raise ArithmeticError('betaln of non-positive %s' % x.c)
        k = math.ceil(x.c) - 1
        return S.C(x.c - k), k, ('c', x.c - k)
    t = x.t
    if z3.is_add(t) and t.num_args() == 2:
        ch = t.children()
        for i in (0, 1):
            if z3.is_rational_value(ch[i]) and ch[i].denominator_as_long() == 1 and ch[i].numerator_as_long() >= 0:
                return S.Sym(ch[1 - i]), ch[i].numerator_as_long(), ('t', ch[1 - i].get_id())
    return x, 0, ('t', t.get_id())


_KEEP = []   # keeps z3 terms alive so that their ids stay unique while used as atom keys


def _betaln_stub(x, y):
    """ln B(x,y) = ln B(a,b) + ln[ prod_{k<i}(a+k) prod_{k<j}(b+k) / prod_{k<i+j}(a+b+k) ] for x=a+i, y=b+j."""
    a, i, ka = _split(x)
    b, j, kb = _split(y)
    _KEEP.append((a, b))
    v = S.C(1)
    for k in range(i):
        v = v * (a + k)
    for k in range(j):
        v = v * (b + k)
    d = S.C(1)
    for k in range(i + j):
        d = d * (a + b + k)
    return LogR(v / d, {(ka, kb): 1})


def _setup_inbreeding():
    _setup()
    from dadi import Numerics
    shims.set_attr(Numerics, 'betaln', _betaln_stub)
    shims.set_attr(Numerics, 'math', esf.MathShim())
    Numerics._BetaBinomln_cache.clear()
    Numerics._multinomln_cache.clear()
    Numerics._part_precalc_cache.clear()
    Numerics._part_cache.clear()


def bb_pmf(p, k, a, b):
    """beta-binomial pmf: C(p,k) prod_{t<k}(a+t) prod_{t<p-k}(b+t) / prod_{t<p}(a+b+t)."""
    num = math.comb(p, k)
    for t in range(k):
        num = num * (a + t)
    for t in range(p - k):
        num = num * (b + t)
    den = 1
    for t in range(p):
        den = den * (a + b + t)
    return num / den


def bbc_oracle(i, nind, p, a, b):
    """P(sum of nind iid beta-binomial(p, a, b) = i): explicit sum over ordered tuples."""
    one = [bb_pmf(p, k, a, b) for k in range(p + 1)]
    tot = 0
    for ks in itertools.product(range(p + 1), repeat=nind):
        if sum(ks) != i:
            continue
        t = 1
        for k in ks:
            t = t * one[k]
        tot = tot + t
    return tot


def body_bbc(ploidy, nind):
    """Numerics.BetaBinomConvolution with symbolic alpha, beta > 0: each value equals the explicit convolution of
    beta-binomial pmfs, is non-negative, and the values sum to one."""
    def body(env):
        from dadi import Numerics
        a = env.real('alpha', lo=0, lo_open=True)
        b = env.real('beta', lo=0, lo_open=True)
        tot = env.const(Fr(0))
        n = ploidy * nind
        for i in range(n + 1):
            pr = Numerics.BetaBinomConvolution(i, nind, a, b, ploidy=ploidy)
            env.eq('value[%d]' % i, pr, bbc_oracle(i, nind, ploidy, a, b))
            env.holds('value[%d]>=0' % i, pr >= 0)
            tot = tot + pr
        env.eq('sum=1', tot, env.const(Fr(1)))
        # float nInd (as passed by from_phi_inbreeding: n/ploidy) gives the same values
        pr = Numerics.BetaBinomConvolution(1, nind * 1.0, a, b, ploidy=ploidy)
        env.eq('float-nInd', pr, bbc_oracle(1, nind, ploidy, a, b))
    return body


E20 = Fr(1.0e-20)          # the literals of the code, at their binary values
ONE_E20 = Fr(1.0 - 1.0e-20)
FCAP = Fr(1 - 1e-10)


def inbreeding_weights(env, n, ploidy, xs, F, het=False):
    """I[d][j] = trapezoid weight_j * P(d | alpha_j, beta_j), alpha = x (1-F)/F, beta = (1-x)(1-F)/F, with the end
    points moved to 1e-20 / 1-1e-20 as the code defines them."""
    tw = trap_weights(xs)
    M = (1 - F) / F
    nind = n // ploidy
    L = len(xs)
    I = [[None] * L for _ in range(n + 1)]
    for j, x in enumerate(xs):
        al, be = _lift(env, x) * M, (1 - _lift(env, x)) * M
        if j == 0:
            al, be = env.const(E20) * M, env.const(ONE_E20) * M
        elif j == L - 1:
            al, be = env.const(ONE_E20) * M, env.const(E20) * M
        for d in range(n + 1):
            v = _lift(env, tw[j]) * bbc_oracle(d, nind, ploidy, al, be)
            if het:
                v = v * _lift(env, x * (1 - x))
            I[d][j] = v
    return I


FHI = Fr(10 ** 9 - 1, 10 ** 9)


def body_inbreeding(fams, Ls, ns, ploidys, het=None, fhi=FHI):
    """from_phi_inbreeding with symbolic F in (0,fhi] (below the code's cap 1-1e-10, above which F is replaced by
    that double): entries = trapezoid of the beta-binomial convolution x phi,
    total = (weighted) trapezoid mass (the inbreeding sampling probabilities sum to one)."""
    nd = len(ns)

    def body(env):
        import dadi
        xxs, vals = mk_grids(env, fams, Ls)
        phi = env.array('phi', tuple(Ls))
        Fs = [env.real('F%d' % a, lo=0, lo_open=True, hi=fhi) for a in range(nd)]
        cap = env.const(FCAP)
        Feff = [(F if F <= cap else cap) for F in Fs]
        kw = {}
        if het:
            kw['het_ascertained'] = het
        fs = dadi.Spectrum.from_phi_inbreeding(phi, list(ns), xxs, list(Fs), list(ploidys), mask_corners=False,
                                               pop_ids=_ids(nd), **kw)
        hax = HET[het] if het else None
        Ws = [inbreeding_weights(env, ns[a], ploidys[a], vals[a], Feff[a], het=(a == hax)) for a in range(nd)]
        want = contract(env, Ws, phi)
        data = np.ma.getdata(fs)
        for idx in np.ndindex(*fs.shape):
            env.eq('inbreeding-entry%s' % (list(idx),), data[idx], want[idx])
        env.eq('inbreeding-total=mass', total(env, data), trap_mass(env, vals, phi, hax))
        env.holds('pop_ids', list(fs.pop_ids) == _ids(nd))
        env.eq('extrap_x', fs.extrap_x, xxs[0][1])
    return body


def body_inbreeding_limit(fam, L, n, ploidy):
    """F -> 0: for every F in (0,1/2] each entry of the inbreeding path applied to the density concentrated on one
    grid node j (every j) is within (K F + 2^-60) * mass of the direct path, K = nInd p (p-1)/2 (total-variation
    distance between a Polya urn and independent draws; 2^-60 covers the end points moved by 1e-20).  Together
    with exact linearity in phi (proved by the same unit for symbolic phi) this gives the bound for every phi >= 0."""
    def body(env):
        import dadi
        xxs, vals = mk_grids(env, [fam], [L])
        F = env.real('F', lo=0, lo_open=True, hi=Fr(1, 2))
        K = (n // ploidy) * ploidy * (ploidy - 1) // 2
        FI = lambda p: np.ma.getdata(dadi.Spectrum.from_phi_inbreeding(p, [n], xxs, [F], [ploidy], mask_corners=False))
        for j in range(L):
            phi = np.empty(L, dtype=object if env.symbolic else float)
            for i in range(L):
                phi[i] = env.const(Fr(1 if i == j else 0))
            fi = FI(phi)
            fd = np.ma.getdata(dadi.Spectrum.from_phi(phi, [n], xxs, mask_corners=False, force_direct=True))
            mass = trap_mass(env, vals, phi)
            bound = (K * F + env.const(Fr(1, 2 ** 60))) * mass
            for d in range(n + 1):
                diff = fi[d] - fd[d]
                env.holds('limit-node%d[%d]' % (j, d), (diff <= bound) & (-bound <= diff))
        p1 = env.array('phi', (L,))
        p2 = env.array('psi', (L,))
        a = env.real('a')
        f1, f2, f3 = FI(p1), FI(p2), FI(a * p1 + p2)
        for d in range(n + 1):
            env.eq('inbreeding-linear[%d]' % d, f3[d], a * f1[d] + f2[d])
    return body


# ---------------------------------------------------------------------------------------------
def _nent(ns):
    return int(np.prod([n + 1 for n in ns]))


def _tag(fams, Ls, ns):
    return '%s-L%s-n%s' % (''.join(f if f != 'sym' else 'S' for f in fams), 'x'.join(map(str, Ls)),
                           'x'.join(map(str, ns)))


def _valid_overs(fams, Ls, cap):
    """Axis subsets to marginalise such that the reduced problem is still admissible for the semi-analytic path
    (its first two axes must share one grid); smallest subsets first, at most `cap`."""
    nd = len(Ls)
    out = []
    for r in range(1, nd):
        for over in itertools.combinations(range(nd), r):
            kept = [a for a in range(nd) if a not in over]
            if len(kept) >= 2 and (fams[kept[0]], Ls[kept[0]]) != (fams[kept[1]], Ls[kept[1]]):
                continue
            out.append(list(over))
    if len(out) > cap:
        # keep single axes, the complements of single axes (1-D remainders) and spread the rest
        singles = [o for o in out if len(o) == 1]
        oned = [o for o in out if len(o) == nd - 1]
        rest = [o for o in out if o not in singles and o not in oned]
        out = (singles + oned + rest)[:cap]
    return out


def units(tier, seed):
    th = tier == 'thorough'
    to = 1500 if th else 400
    us = []

    def add(name, body, params, min_ob, paths=1, maxpaths=16, qt=60000, stretch=False, timeout=None, setup=None):
        us.append(H.Unit(name, body, params=params, setup=setup or _setup, min_obligations=min_ob,
                         timeout_s=timeout or to, expect_paths=paths, maxpaths=maxpaths, query_timeout_ms=qt,
                         stretch=stretch))

    def P(fams, Ls, ns, **kw):
        d = dict(grids=list(fams), L=list(Ls), ns=list(ns))
        d.update(kw)
        return d

    # ------------------------------------------------------------------ 1-D, symbolic grid
    sym1 = [(4, 1), (4, 2), (4, 3), (5, 2), (3, 3)]
    if th:
        sym1 += [(5, 3), (5, 4), (6, 2), (4, 4)]
    for L, n in sym1:
        f, l, s = ['sym'], [L], [n]
        t = _tag(f, l, s)
        add('entries-analytic-' + t, body_entries(f, l, s, 'analytic'), P(f, l, s, path='analytic'), n + 6, qt=120000)
        add('entries-direct-' + t, body_entries(f, l, s, 'direct'), P(f, l, s, path='direct'), n + 6, qt=120000)
        add('entries-direct-het-xx-' + t, body_entries(f, l, s, 'direct', het='xx'),
            P(f, l, s, path='direct', het='xx'), n + 6, qt=120000)
        if n >= 2:
            tg = [[m] for m in range(1, n)]
            add('project-analytic-' + t, body_project(f, l, s, tg, 'analytic'), P(f, l, s, path='analytic', targets=tg),
                n, qt=120000)
            add('project-direct-' + t, body_project(f, l, s, tg, 'direct'), P(f, l, s, path='direct', targets=tg),
                n, qt=120000)
    for L, n in [(4, 2), (4, 3)] + ([(5, 3)] if th else []):
        f, l, s = ['sym'], [L], [n]
        t = _tag(f, l, s)
        add('linear-analytic-' + t, body_linear(f, l, s, 'analytic'), P(f, l, s, path='analytic'), n + 1, qt=120000)
        add('linear-direct-het-xx-' + t, body_linear(f, l, s, 'direct', het='xx'), P(f, l, s, path='direct', het='xx'),
            n + 1, qt=120000)
    for L, n in [(4, 2), (4, 3)] + ([(5, 2)] if th else []):
        add('overshoot-1d-S-L%d-n%d' % (L, n), body_overshoot_1d(L, n, True), dict(L=L, n=n, grid='symbolic', eps='[0,1e-16] symbolic'),
            2 * n + 5, paths=4, maxpaths=64, qt=120000)
    # ------------------------------------------------------------------ 1-D, rational grids, sample sizes up to 40
    nlist = list(range(1, 41)) if th else [1, 2, 5, 12, 40]
    for n in nlist:
        fam = 'AB'[n % 2]
        L = 6 if (th or n <= 12) else 5
        f, l, s = [fam], [L], [n]
        t = _tag(f, l, s)
        add('entries-analytic-' + t, body_entries(f, l, s, 'analytic'), P(f, l, s, path='analytic'), n + 6)
        add('entries-direct-' + t, body_entries(f, l, s, 'direct', het=('xx' if n % 3 == 0 else None)),
            P(f, l, s, path='direct', het=('xx' if n % 3 == 0 else None)), n + 6)
        if n >= 2:
            tg = sorted(set([1, n // 2, n - 1])) if (n > 12 and not th) else list(range(1, n))
            if n > 20:
                tg = sorted(set([1, 2, n // 3, n // 2, n - 2, n - 1]))
            tg = [[m] for m in tg]
            add('project-analytic-' + t, body_project(f, l, s, tg, 'analytic'), P(f, l, s, path='analytic', targets=tg),
                len(tg) * 2)
    for n in ([5, 12] if not th else [5, 12, 18]):  # n=25 needs ~25 min under load: above the per-unit cap
        add('overshoot-1d-A-L5-n%d' % n, body_overshoot_1d(5, n, False), dict(L=5, n=n, grid='A', eps='[0,1e-16] symbolic'),
            2 * n + 5, paths=4, maxpaths=64)
        f, l, s = ['B'], [5], [n]
        add('linear-analytic-' + _tag(f, l, s), body_linear(f, l, s, 'analytic'), P(f, l, s, path='analytic'), n + 1)
    # ------------------------------------------------------------------ >= 2-D
    # (families, lengths, sample sizes): 2-D linalg needs xx == yy; later axes may use a different grid / length
    ana = [(['A', 'A'], [4, 4], [2, 3]), (['B', 'B'], [5, 5], [3, 2]), (['C', 'C'], [3, 3], [1, 2]),
           (['A', 'A', 'B'], [4, 4, 3], [2, 1, 3]), (['C', 'C', 'C'], [4, 4, 4], [1, 2, 1]),
           (['A', 'A', 'B', 'C'], [3, 3, 3, 3], [1, 2, 1, 2]), (['B', 'B', 'B', 'B'], [3, 3, 3, 3], [2, 1, 1, 1]),
           (['A', 'A', 'B', 'C', 'D'], [3, 3, 3, 3, 3], [1, 1, 1, 1, 1]),
           (['C', 'C', 'C', 'C', 'C'], [3, 3, 3, 3, 3], [2, 1, 1, 1, 1])]
    if th:
        ana += [(['A', 'A'], [6, 6], [4, 3]), (['B', 'B'], [4, 4], [3, 4]), (['A', 'A', 'B'], [5, 5, 4], [3, 2, 3]),
                (['B', 'B', 'A'], [4, 4, 5], [2, 3, 2]), (['A', 'A', 'B', 'C'], [4, 4, 4, 3], [2, 2, 1, 2]),
                (['C', 'C', 'A', 'B'], [3, 3, 4, 4], [1, 2, 2, 1]),
                (['A', 'A', 'B', 'C', 'D'], [3, 3, 3, 3, 3], [2, 1, 2, 1, 1]),
                (['B', 'B', 'C', 'D', 'A'], [3, 3, 3, 3, 3], [1, 2, 1, 1, 2]),
                (['A', 'A', 'A', 'A', 'A'], [4, 4, 4, 4, 4], [1, 1, 1, 1, 1])]
    for f, l, s in ana:
        t = _tag(f, l, s)
        nd = len(s)
        nodes = int(np.prod(l))
        heavy = nodes >= 1000            # 5-D L=4: entries / mass only
        add('entries-analytic-' + t, body_entries(f, l, s, 'analytic', checkmask=(nd <= 3)), P(f, l, s, path='analytic'),
            _nent(s) + 5)
        if heavy:
            continue
        if nodes * _nent(s) <= 12000:
            add('linear-analytic-' + t, body_linear(f, l, s, 'analytic'), P(f, l, s, path='analytic'), _nent(s))
        tg = []
        for a in range(nd):
            if s[a] >= 2:
                tg.append([s[k] - 1 if k == a else s[k] for k in range(nd)])
        allm = [max(1, v - 1) for v in s]
        if allm != list(s) and allm not in tg:
            tg.append(allm)
        if nd == 5:
            tg = tg[:2]
        if tg:
            add('project-analytic-' + t, body_project(f, l, s, tg, 'analytic'), P(f, l, s, path='analytic', targets=tg),
                len(tg) * 4)
        overs = _valid_overs(f, l, 6 if (not th or nd == 5) else 12)
        add('marginal-analytic-' + t, body_marginal(f, l, s, overs, 'analytic'), P(f, l, s, path='analytic', over=overs),
            len(overs) * 2)
    for f, l, s in [(['A', 'A'], [4, 4], [2, 1]), (['B', 'B', 'A'], [3, 3, 4], [1, 1, 2]),
                    (['A', 'A', 'A', 'B'], [3, 3, 3, 3], [1, 1, 1, 1])] + \
            ([(['A', 'A', 'B', 'C', 'D'], [3, 3, 3, 3, 3], [1, 1, 1, 1, 1])] if th else []):
        add('overshoot-analytic-' + _tag(f, l, s), body_overshoot_nd(f, l, s), P(f, l, s, eps='1e-16 both ends'),
            _nent(s) + 1)
    # 2-D symbolic grid (linalg requires the same grid on both axes)
    for L, s in [(4, [2, 2])] + ([(4, [2, 3]), (3, [3, 2])] if th else []):
        f, l = ['sym', 'sym'], [L, L]
        add('entries-analytic-exactconst-' + _tag(f, l, s),
            body_entries(f, l, s, 'analytic', checkmask=False, exact2d=True),
            P(f, l, s, path='analytic', constants='exact'), _nent(s) + 5, qt=240000, timeout=1500 if th else 600,
            setup=_setup_exact2d)
    # ------------------------------------------------------------------ direct paths (distinct grids per axis)
    direct = [(['A', 'B'], [4, 5], [2, 3]), (['B', 'C'], [4, 4], [1, 2]), (['A', 'B', 'C'], [4, 3, 4], [2, 1, 3]),
              (['C', 'A', 'B'], [3, 3, 3], [1, 2, 1]), (['A', 'B', 'C', 'D'], [3, 4, 3, 3], [1, 2, 1, 2]),
              (['D', 'C', 'B', 'A'], [3, 3, 3, 3], [2, 1, 1, 1])]
    if th:
        direct += [(['B', 'A'], [6, 4], [4, 3]), (['C', 'A', 'B'], [5, 4, 3], [2, 3, 2]),
                   (['D', 'C', 'B', 'A'], [4, 3, 4, 3], [2, 1, 3, 2])]
    for f, l, s in direct:
        t = _tag(f, l, s)
        nd = len(s)
        for het in [None, 'xx', 'yy', 'zz'][:nd + 1 if nd < 4 else 4]:
            hn = '-het-%s' % het if het else ''
            add('entries-direct%s-%s' % (hn, t), body_entries(f, l, s, 'direct', het=het, checkmask=(het is None)),
                P(f, l, s, path='direct', het=het), _nent(s) + 5)
            if het in (None, 'yy'):
                tg = [[max(1, v - 1) for v in s]]
                add('project-direct%s-%s' % (hn, t), body_project(f, l, s, tg, 'direct', het=het),
                    P(f, l, s, path='direct', het=het, targets=tg), 4)
                overs = [[a] for a in range(nd)]
                add('marginal-direct%s-%s' % (hn, t), body_marginal(f, l, s, overs, 'direct', het=het),
                    P(f, l, s, path='direct', het=het, over=overs), 2 * len(overs))
        add('linear-direct-het-yy-' + t, body_linear(f, l, s, 'direct', het='yy'), P(f, l, s, path='direct', het='yy'),
            _nent(s))
        if nd == 4:
            add('entries-direct-het-aa-private-' + t, body_het_private_4d(f, l, s), P(f, l, s, path='direct', het='aa'),
                _nent(s))
    # ------------------------------------------------------------------ admixture proportions
    for f, l, s in direct:
        t = _tag(f, l, s)
        add('admix-identity-' + t, body_admix(f, l, s, 'identity'), P(f, l, s, admix_props='identity'), 2 * _nent(s))
    admix = [(['A', 'B'], [3, 4], [2, 2], 2), (['C', 'A'], [4, 3], [1, 3], 2), (['A', 'B', 'C'], [3, 3, 3], [1, 2, 1], 1),
             (['A', 'B', 'C', 'D'], [3, 3, 3, 3], [1, 1, 1, 1], 1)]
    if th:
        admix += [(['A', 'B'], [4, 4], [3, 2], 2), (['A', 'B', 'C'], [3, 3, 3], [1, 1, 1], 3),
                  (['A', 'B', 'C'], [4, 3, 3], [2, 1, 2], 1)]
    for f, l, s, nrows in admix:
        t = _tag(f, l, s)
        add('admix-symbolic-rows%d-%s' % (nrows, t), body_admix(f, l, s, 'symbolic', nrows),
            P(f, l, s, admix_props='%d symbolic rows on the simplex' % nrows), _nent(s) + 1, qt=240000,
            timeout=1500 if th else 600)
    for f, l, s in [(['A', 'B'], [3, 4], [2, 2]), (['A', 'B', 'C'], [3, 3, 3], [1, 2, 1]), (['B', 'C', 'A'], [3, 4, 3], [2, 1, 1]),
                    (['A', 'B', 'C', 'D'], [3, 3, 3, 3], [1, 1, 1, 1])]:
        add('admix-rational-asymmetric-' + _tag(f, l, s), body_admix(f, l, s, 'rational'),
            P(f, l, s, admix_props='all-rational rows with pairwise distinct entries'), _nent(s) + 1)
    f, l, s = ['A', 'B'], [3, 3], [1, 2]
    add('linear-admix-symbolic-' + _tag(f, l, s), body_linear(f, l, s, 'admix', admix='sym'),
        P(f, l, s, admix_props='symbolic'), _nent(s), qt=240000)
    # ------------------------------------------------------------------ validation, inbreeding F = 0
    add('argument-validation', body_validation, dict(), 10)
    if CLAIM_5D_OPTIONS:
        add('dispatch-5d-options', body_5d_options, dict(L=[3] * 5, ns=[1] * 5, options=['force_direct', 'het', 'admix']),
            3)
    for L, n in [(4, 3), (5, 6)]:
        f, l, s = ['E'], [L], [n]
        t = _tag(f, l, s)
        add('entries-analytic-partialgrid-' + t, body_entries(f, l, s, 'analytic'), P(f, l, s, path='analytic'), n + 6)
        add('entries-direct-partialgrid-' + t, body_entries(f, l, s, 'direct'), P(f, l, s, path='direct'), n + 6)
        tg = [[m] for m in range(1, n)]
        add('project-analytic-partialgrid-' + t, body_project(f, l, s, tg, 'analytic'),
            P(f, l, s, path='analytic', targets=tg), len(tg) * 2)
    for f, l, s, het in [(['A'], [5], [4], None), (['A'], [4], [2], 'xx'), (['A', 'B'], [3, 4], [2, 2], None),
                         (['A', 'B'], [3, 4], [2, 2], 'yy'), (['A', 'B', 'C'], [3, 3, 3], [2, 2, 2], None)]:
        add('inbreeding-F0-%s%s' % (_tag(f, l, s), '-het-' + het if het else ''), body_inbreeding_zero(f, l, s, het),
            P(f, l, s, F=0, het=het), _nent(s) + 3)
    # ------------------------------------------------------------------ stretch: inbreeding F > 0
    bbc = [(2, 1), (2, 2), (3, 1), (3, 2), (4, 1), (5, 1), (6, 1), (8, 1)] + ([(2, 3), (4, 2), (7, 1)] if th else [])
    for p_, k_ in bbc:
        add('stretch-betabinom-convolution-ploidy%d-nind%d' % (p_, k_), body_bbc(p_, k_), dict(ploidy=p_, nInd=k_),
            2 * (p_ * k_ + 1) + 2, stretch=True, setup=_setup_inbreeding, qt=240000, timeout=900)
    inb = [(['A'], [4], [2], [2], None), (['B'], [4], [4], [2], None), (['A'], [3], [4], [4], None),
           (['A'], [4], [2], [2], 'xx'), (['A', 'B'], [3, 3], [2, 2], [2, 2], None)]
    if th:
        inb += [(['A'], [5], [6], [2], None), (['A'], [4], [6], [3], None), (['A', 'B'], [3, 4], [2, 4], [2, 4], 'yy')]
    for f, l, s, pl, het in inb:
        add('stretch-inbreeding-%s-ploidy%s%s' % (_tag(f, l, s), 'x'.join(map(str, pl)), '-het-' + het if het else ''),
            body_inbreeding(f, l, s, pl, het), P(f, l, s, ploidy=pl, het=het, F='(0,1-1e-9] symbolic'), _nent(s) + 3,
            stretch=True, setup=_setup_inbreeding, qt=240000, timeout=900)
    for fam, L, n, pl in [('A', 4, 2, 2), ('B', 3, 4, 2)] + ([('A', 4, 4, 4), ('A', 5, 4, 2)] if th else []):
        add('stretch-inbreeding-limit-%s-L%d-n%d-ploidy%d' % (fam, L, n, pl), body_inbreeding_limit(fam, L, n, pl),
            dict(grid=fam, L=L, n=n, ploidy=pl, F='(0,1/2] symbolic'), (L + 1) * (n + 1), stretch=True, setup=_setup_inbreeding,
            qt=240000, timeout=900)
    # heavy units first (the pool starts units in list order): 5-D / 4-D semi-analytic and symbolic 2-D grids
    def weight(u):
        pr = u.params
        Ls, ns = pr.get('L', []), pr.get('ns', [])
        if not isinstance(Ls, list) or not isinstance(ns, list):
            return 0
        w = 1
        for L, n in zip(Ls, ns):
            w *= L * (n + 1)
        if 'sym' in pr.get('grids', []):
            w *= 50 if len(Ls) >= 2 else 5
        if pr.get('path') == 'analytic' and len(Ls) >= 2:
            w *= 3
        return -w
    us.sort(key=weight)
    return us
