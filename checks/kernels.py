"""Shared machinery for the integration properties (C01-C04): reference scheme, symbolic/concrete
environments for dadi.Integration, sweep contract checks.

The reference below is written from the documented scheme (dadi paper, flux form):
   d phi_j/dt = -Delta_j (F_{j+1/2} - F_{j-1/2}),
   F_{j+1/2} = M_{j+1/2} (delta_j phi_j + (1-delta_j) phi_{j+1}) - (V_{j+1} phi_{j+1} - V_j phi_j)/(2 dx_j),
   V = x(1-x)/nu [* (beta+1)^2/(4 beta) in 1-D],  M = sum_k m_k (y_k - x) + 2 gamma (h + (1-2h) x) x (1-x),
   Delta_j = 2/(dx_j + dx_{j-1}) (ends 2/dx), no-flux ends except the absorbing terms
   (1/(2 nu) -/+ M) 2/dx on row 0 / L-1 of the line where all other frequencies are 0 / all are 1 and the
   drift points outward; fully implicit Euler:  phi'_j/dt + Delta_j (F'_{j+1/2} - F'_{j-1/2}) = phi_j/dt.
It is independent of the code under test (no dadi function is called).
"""
import os
import types

import numpy as np

from engine import cmods, shims, thomas
from engine import harness as H
from engine import symreal as S

AXN = 'xyzab'
KERNELS = []  # (name, ndim, axis)
for _nd in range(1, 6):
    for _ax in range(_nd):
        KERNELS.append(('implicit_%dD%s' % (_nd, AXN[_ax]), _nd, _ax))
PRECALC = [('implicit_precalc_2Dx', 2, 0), ('implicit_precalc_2Dy', 2, 1), ('implicit_precalc_3Dx', 3, 0),
           ('implicit_precalc_3Dy', 3, 1), ('implicit_precalc_3Dz', 3, 2)]

FILES = ['dadi/integration_shared.c', 'dadi/integration1D.c', 'dadi/integration2D.c', 'dadi/integration3D.c',
         'dadi/integration4D.c', 'dadi/integration5D.c', 'dadi/tridiag.c', 'dadi/integration_c.pyx',
         'dadi/tridiag_cython.pyx', 'dadi/Integration.py', 'dadi/Misc.py']

REPO = os.environ.get('DADI_REPO', '/repo')
PYX_INT = os.path.join(REPO, 'dadi', 'integration_c.pyx')
PYX_TRI = os.path.join(REPO, 'dadi', 'tridiag_cython.pyx')


# ------------------------------------------------------------------------------------------
def ref_abc(x, others, nu, ms, gamma, h, dt, beta=None, delj=None, corner0=False, corner1=False, half=None):
    """Reference tridiagonal system for one line.  x: grid along the swept axis; others: the other
    populations' frequencies on this line (same order as ms).  Works on Sym and floats."""
    L = len(x)
    half = half if half is not None else 0.5

    def M(xv):
        m = gamma * 2 * (h + (1 - 2 * h) * xv) * xv * (1 - xv)
        for mk, yk in zip(ms, others):
            m = m + mk * (yk - xv)
        return m

    def V(xv):
        v = xv * (1 - xv) / nu
        if beta is not None:
            v = v * (beta + 1) * (beta + 1) / (4 * beta)
        return v
    dx = [x[j + 1] - x[j] for j in range(L - 1)]
    Delta = [2 / dx[0]] + [2 / (dx[j] + dx[j - 1]) for j in range(1, L - 1)] + [2 / dx[L - 2]]
    dl = [half if delj is None else delj[j] for j in range(L - 1)]
    a, b, c = [None] * L, [None] * L, [None] * L
    for j in range(L):
        bj = 1 / dt
        if j < L - 1:
            Mh = M((x[j] + x[j + 1]) * half)
            bj = bj + Delta[j] * (Mh * dl[j] + V(x[j]) / (2 * dx[j]))
            c[j] = Delta[j] * (Mh * (1 - dl[j]) - V(x[j + 1]) / (2 * dx[j]))
        if j > 0:
            Mh = M((x[j - 1] + x[j]) * half)
            a[j] = -Delta[j] * (Mh * dl[j - 1] + V(x[j - 1]) / (2 * dx[j - 1]))
            bj = bj - Delta[j] * (Mh * (1 - dl[j - 1]) - V(x[j]) / (2 * dx[j - 1]))
        b[j] = bj
    if corner0:
        M0 = M(x[0])
        if M0 <= 0:
            b[0] = b[0] + (1 / (2 * nu) - M0) * 2 / dx[0]
    if corner1:
        M1 = M(x[L - 1])
        if M1 >= 0:
            b[L - 1] = b[L - 1] + (1 / (2 * nu) + M1) * 2 / dx[L - 2]
    return a, b, c


def dense_solve(a, b, c, r):
    n = len(b)
    A = np.zeros((n, n))
    for j in range(n):
        A[j, j] = b[j]
        if j > 0:
            A[j, j - 1] = a[j]
        if j < n - 1:
            A[j, j + 1] = c[j]
    return np.linalg.solve(A, np.asarray(r, dtype=float))


def line_index(line, j):
    return tuple(j if d is None else d for d in line)


def all_lines(shape, axis):
    rest = [range(s) if d != axis else [None] for d, s in enumerate(shape)]
    import itertools
    return list(itertools.product(*rest))


def ref_sweep_float(phi, axis, grids, nu, ms, gamma, h, dt, beta=None):
    """Float reference for one implicit sweep along `axis` (dense solves)."""
    out = np.array(phi, dtype=float, copy=True)
    nd = out.ndim
    for line in all_lines(out.shape, axis):
        others = [grids[d][line[d]] for d in range(nd) if d != axis]
        c0 = all(line[d] == 0 for d in range(nd) if d != axis)
        c1 = all(line[d] == out.shape[d] - 1 for d in range(nd) if d != axis)
        a, b, c = ref_abc(list(grids[axis]), others, nu, ms, gamma, h, dt, beta, None, c0, c1)
        r = [phi[line_index(line, j)] / dt for j in range(out.shape[axis])]
        u = dense_solve(a, b, c, r)
        for j in range(out.shape[axis]):
            out[line_index(line, j)] = u[j]
    return out


def ref_inject(phi, grids, dt, theta0, active):
    """Reference mutation influx: dt*theta0/2 * 1/x_1 of density mass at the first interior point of each
    active population's axis (others at frequency 0), normalised by the trapezoid cell weight."""
    out = phi.copy()
    nd = out.ndim
    for p in range(nd):
        if not active[p]:
            continue
        g = grids[p]
        w = (g[2] - g[0]) / 2
        for q in range(nd):
            if q != p:
                w = w * (grids[q][1] - grids[q][0]) / 2
        idx = tuple(1 if q == p else 0 for q in range(nd))
        out[idx] = out[idx] + dt * theta0 / 2 / g[1] / w
    return out


# ------------------------------------------------------------------------------------------
class SymIntegration:
    """Installs the symbolic environment into dadi.Integration (worker process only)."""

    def __init__(self, contract=True, stub_dt=None):
        import dadi
        from dadi import Integration, Misc, PhiManip, Numerics
        self.Integration = Integration
        self.ir = cmods.load_ir()
        self.cap = thomas.Capture(self.ir) if contract else None
        sb = cmods.SymBackend(self.ir, flatten=not contract)
        self.intc = cmods.make_module('integration_c', PYX_INT, sb)
        self.tric = cmods.make_module('tridiag_cython', PYX_TRI, sb)
        self.rec = thomas.SweepRecorder(self.intc, self.cap)
        shims.install_numpy(Integration)
        shims.install_numpy(Misc)
        shims.install_numpy(PhiManip)
        shims.install_numpy(Numerics)
        shims.set_attr(Integration, 'int_c', self.rec)
        shims.set_attr(Integration, 'tridiag', self.tric)
        dummy = types.SimpleNamespace(cache=[], IntegrationConst=lambda **k: None,
                                      IntegrationNonConst=lambda **k: None)
        shims.set_attr(Integration, 'Demes', dummy)
        if hasattr(PhiManip, 'Demes'):
            pd = types.SimpleNamespace(cache=[])
            for n in dir(PhiManip.Demes):
                if n[0].isupper():
                    setattr(pd, n, (lambda *a, **k: None))
            shims.set_attr(PhiManip, 'Demes', pd)
        self.orig_compute_dt = Integration._compute_dt

    def reset(self):
        if self.rec is not None:
            self.rec.reset()


_SI = {}


def sym_integration(contract=True):
    key = contract
    if key not in _SI:
        _SI[key] = SymIntegration(contract)
    _SI[key].reset()
    return _SI[key]


_CONC = {}


def concrete_modules():
    """float twins built from the *current* C sources (gcc) and the tracked .pyx; installed into
    dadi.Integration for replays so that a stale compiled extension cannot hide a C change."""
    if 'm' not in _CONC:
        lib = cmods.build_clib()
        cb = cmods.CBackend(lib)
        intc = cmods.make_module('integration_c', PYX_INT, cb)
        tric = cmods.make_module('tridiag_cython', PYX_TRI, cb)
        from dadi import Integration
        Integration.int_c = intc
        Integration.tridiag = tric
        _CONC['m'] = (intc, tric)
        try:
            os.unlink(lib)
        except OSError:
            pass
    return _CONC['m']


# ------------------------------------------------------------------------------------------
def check_sweep(env, sw, axis, grids, nu, ms, gamma, h, dt, beta, label, delj=None, before=None):
    """Contract obligations for one recorded sweep (symbolic mode)."""
    try:
        lines = sw.lines(axis)
    except ValueError as e:
        env.fail(label + ':line-structure', str(e))
        return 0
    nd = sw.after.ndim
    n = sw.after.shape[axis]
    before = sw.before if before is None else before
    nob = 0
    for cl, line in lines:
        others = [grids[d][line[d]] for d in range(nd) if d != axis]
        c0 = all(line[d] == 0 for d in range(nd) if d != axis)
        c1 = all(line[d] == sw.after.shape[d] - 1 for d in range(nd) if d != axis)
        dl = None if delj is None else delj(cl, line)
        a, b, c = ref_abc(list(grids[axis]), others, nu, ms, gamma, h, dt, beta, dl, c0, c1, half=env.const('1/2'))
        tag = '%s:line%s' % (label, ''.join('_' if d is None else str(d) for d in line))
        if cl.n != n:
            env.fail(tag + ':size')
            continue
        for j in range(n):
            if j >= 1:
                env.eq('%s:a%d' % (tag, j), cl.a[j], a[j])
            env.eq('%s:b%d' % (tag, j), cl.b[j], b[j])
            if j <= n - 2:
                env.eq('%s:c%d' % (tag, j), cl.c[j], c[j])
            env.eq('%s:r%d' % (tag, j), cl.r[j], before[line_index(line, j)] / dt)
            nob += 4
    return nob
