"""C02 - every integration path in 1-5 populations solves the documented implicit scheme."""
import itertools
from fractions import Fraction as Fr

import numpy as np
import z3

from engine import cmods, shims, thomas
from engine import harness as H
from engine import symreal as S
from checks import kernels as K

META = dict(
    explanation=(
        'The 15 per-axis kernels, the 5 precomputed-coefficient kernels and the Thomas solver are executed from their '
        'LLVM IR (clang -O0, regenerated from /repo each run) through wrappers derived from the tracked .pyx files, with '
        'symbolic density, symbolic per-axis grids, nu, distinct migration rates, gamma, h, beta, dt.  Calls to the '
        'tridiagonal solver are intercepted (contract: returns fresh unknowns); z3 proves, for every line of every sweep, '
        'that the coefficients a,b,c handed to the solver equal the reference implicit flux-form system (absorbing terms '
        'only on the all-0/all-1 corner lines), that r = phi[line]/dt, and that the solution is written back to that '
        'same line (every line exactly once).  The solver itself is verified from tridiag.c: residual lemma T1 '
        '(A u = r), equality of tridiag/tridiag_premalloc (T0), left-inverse/uniqueness T1\' (tridiag(A v)=v).  '
        'Drivers one_pop..five_pops are run for one time step with constants and with lambda t: const; every sweep '
        'they issue must receive the right parameters (each migration rate in its slot), start from the density after '
        'the reference mutation influx and satisfy the same contract, for both the on-the-fly and precomputed-coefficient '
        'paths (real Python coefficient builders on object arrays).'),
    functions=['implicit_1Dx', 'implicit_2Dx/y', 'implicit_3Dx/y/z', 'implicit_4Dx/y/z/a', 'implicit_5Dx/y/z/a/b',
               'implicit_precalc_2Dx/y', 'implicit_precalc_3Dx/y/z', 'tridiag', 'tridiag_premalloc',
               'compute_dx/dfactor/xInt/delj/abc_nobc', 'Vfunc*', 'Mfunc*', 'integration_c.pyx wrappers (parsed)',
               'Integration.one_pop..five_pops', 'Integration._one/_two/_three_pops_const_params',
               'Integration._compute_dfactor/_compute_delj/_Vfunc/_Mfunc*/_inject_mutations_*', 'Misc.ensure_1arg_func'],
    files=K.FILES,
    bounds=dict(
        quick='grid points per axis L=4 (1-2 pops), 3 (3-5 pops), symbolic interior grid points per axis; all parameters '
              'symbolic (nu>0, m>=0 distinct per source, gamma, 0<=h<=1, beta>0, dt>0); delj switch off (default) for '
              'all kernels and on (Chang-Cooper) for 1-2D; Thomas lemmas n<=8 (T1), n<=5 (T1\'); drivers: one time step '
              '(T<=dt), const and function-of-time parameters, 1-5 pops, frozen flags enumerated for 2-3 pops',
        thorough='L<=5 (1-3 pops), L=4 (4 pops), 3 (5 pops); delj on for all kernels; T1 n<=12'),
    outside=['floating-point round-off, overflow, NaN guards (numpy.where(isnan) in _compute_delj)', 'L beyond the bound',
             'more than one time step (covered inductively: each step satisfies the same contract)',
             'the time-step rule _compute_dt (stubbed by a fresh dt>=T here; it is the subject of C03)',
             'a[0] and c[n-1] (never read by the solver)', 'CUDA paths'],
    stubs=['tridiag/tridiag_premalloc -> contract (fresh unknowns) inside kernels; verified separately from IR',
           'compute_delj -> contract (fresh weights; arguments dx/MInt/VInt proved correct per line) in delj-on kernel units; compute_delj verified separately from its IR with exp -> fresh positive eps (argument proved = 2 M dx / V), against the Chang-Cooper defining property',
           'Integration._compute_dt -> fresh dt with T<=dt', 'dadi.Demes event log -> no-op'],
    assumptions=['doubles modelled as reals', 'denominators occurring in a query are non-zero (Thomas pivots included)',
                 'z3 and clang-14 -O0 IR generation trusted; IR interpreter validated against gcc-compiled C each run'],
)


# ------------------------------------------------------------------------------------------ Thomas lemmas
def _thomas_unit(n, which):
    def body(env):
        a = env.array('a', (n,))
        b = env.array('b', (n,))
        c = env.array('c', (n,))
        if env.symbolic:
            ir = cmods.load_ir(files=['tridiag.c'])
            sb = cmods.SymBackend(ir)
            tri = cmods.make_module('tridiag_cython', K.PYX_TRI, sb).tridiag

            def pre(a_, b_, c_, r_):
                u = np.empty(n, dtype=object)
                u.fill(cmods._UNINIT)
                ir.call('tridiag_malloc', [n])
                sb.call('tridiag_premalloc', ['double*'] * 5 + ['int'], [a_, b_, c_, r_, u, n])
                ir.call('tridiag_free', [])
                return u
        else:
            tri = K.concrete_modules()[1].tridiag
            pre = None
        if which == 'T1':
            r = env.array('r', (n,))
            u = tri(a.copy(), b.copy(), c.copy(), r.copy())
            for j in range(n):
                lhs = b[j] * u[j]
                if j > 0:
                    lhs = lhs + a[j] * u[j - 1]
                if j < n - 1:
                    lhs = lhs + c[j] * u[j + 1]
                env.eq('row%d' % j, lhs, r[j])
        elif which == 'T0':
            r = env.array('r', (n,))
            u = tri(a.copy(), b.copy(), c.copy(), r.copy())
            if env.symbolic:
                u2 = pre(a.copy(), b.copy(), c.copy(), r.copy())
                for j in range(n):
                    env.eq('same%d' % j, u[j], u2[j])
            else:
                env.holds('skip', True)
        elif which == 'T1p':
            v = env.array('v', (n,))
            r = np.empty(n, dtype=object if env.symbolic else float)
            for j in range(n):
                t = b[j] * v[j]
                if j > 0:
                    t = t + a[j] * v[j - 1]
                if j < n - 1:
                    t = t + c[j] * v[j + 1]
                r[j] = t
            u = tri(a.copy(), b.copy(), c.copy(), r)
            for j in range(n):
                env.eq('u%d' % j, u[j], v[j])
        elif which == 'T3':
            r1 = env.array('r', (n,))
            r2 = env.array('s', (n,))
            al = env.real('alpha')
            be = env.real('beta_')
            u1 = tri(a.copy(), b.copy(), c.copy(), r1.copy())
            u2 = tri(a.copy(), b.copy(), c.copy(), r2.copy())
            u3 = tri(a.copy(), b.copy(), c.copy(), al * r1 + be * r2)
            for j in range(n):
                env.eq('lin%d' % j, u3[j], al * u1[j] + be * u2[j])
    return H.Unit('thomas-%s-n%d' % (which, n), body, params=dict(n=n, lemma=which), min_obligations=n,
                  timeout_s=600, query_timeout_ms=240000, expect_paths=1)


# ------------------------------------------------------------------------------------------ kernels
def _sym_params(env, nd, axis, with_beta):
    nu = env.pos('nu')
    ms = [env.real('m%d' % k, lo=0) for k in range(nd - 1)]
    gamma = env.real('gamma')
    h = env.real('h', lo=0, hi=1)
    dt = env.pos('dt')
    beta = env.pos('beta') if with_beta else None
    return nu, ms, gamma, h, dt, beta


def _kernel_unit(name, nd, axis, L, delj):
    def body(env):
        grids = [env.grid('g%s' % K.AXN[d], L) for d in range(nd)]
        phi = env.array('p', (L,) * nd)
        nu, ms, gamma, h, dt, beta = _sym_params(env, nd, axis, nd == 1)
        args = [phi.copy()] + grids + [nu] + ms + [gamma, h] + ([beta] if nd == 1 else []) + [dt, delj]
        if env.symbolic:
            si = K.sym_integration()
            drec = []
            if delj:
                def delj_hook(mod, dxp, mip, vip, N, dlp, use):
                    # contract stub for compute_delj (verified separately by the delj-lemma units):
                    # returns fresh weights and records the (dx, MInt, VInt) it was handed
                    k = len(drec)
                    rd = lambda p: [mod.load(type(p)(p.reg, p.off + 8 * q), 'double') for q in range(N - 1)]
                    d = [S.R('delj%d_%d' % (k, q)) for q in range(N - 1)]
                    for q in range(N - 1):
                        mod.store(type(dlp)(dlp.reg, dlp.off + 8 * q), d[q], 'double')
                    drec.append(dict(dx=rd(dxp), MInt=rd(mip), VInt=rd(vip), d=d, use=use))
                si.ir.hooks['compute_delj'] = delj_hook
            try:
                getattr(si.rec, name)(*args)
            finally:
                si.ir.hooks.pop('compute_delj', None)
            sw = si.rec.sweeps[-1]
            dl = None
            if delj:
                dl = _delj_args(env, sw, axis, grids, nu, ms, gamma, h, beta, drec, name)
            nob = K.check_sweep(env, sw, axis, grids, nu, ms, gamma, h, dt, beta, name, delj=dl)
            env.note('%d tridiagonal calls, %d obligations' % (len(sw.calls), nob))
        else:
            intc = K.concrete_modules()[0]
            if delj:
                env.holds('delj-on replay not implemented (reported as not reproduced)', True)
                return
            out = getattr(intc, name)(*args)
            ref = K.ref_sweep_float(phi, axis, grids, nu, ms, gamma, h, dt, beta)
            env.same(name, out, ref)
    nlines = L ** (nd - 1)
    return H.Unit('kernel-%s-L%d-delj%d' % (name, L, delj), body, params=dict(kernel=name, L=L, delj=delj),
                  min_obligations=nlines * (4 * L - 2), timeout_s=900, query_timeout_ms=60000, maxpaths=64)


def _delj_args(env, sw, axis, grids, nu, ms, gamma, h, beta, drec, name):
    """delj-on kernels: the k-th compute_delj call belongs to the k-th tridiagonal call (one per line); it must be
    handed dx, M and V at the interval midpoints of that line and be asked to use the trick."""
    x = list(grids[axis])
    L = len(x)
    nd = sw.after.ndim
    half = env.const('1/2')
    lines = sw.lines(axis)
    if len(drec) != len(lines):
        env.fail(name + ':delj:%d compute_delj calls for %d lines' % (len(drec), len(lines)))
        return None
    per = {}
    for (cl, line), rec in zip(lines, drec):
        others = [grids[d][line[d]] for d in range(nd) if d != axis]
        env.holds('%s:delj:flag:call%d' % (name, cl.k), rec['use'] == 1)
        for j in range(L - 1):
            xm = (x[j] + x[j + 1]) * half
            Mh = gamma * 2 * (h + (1 - 2 * h) * xm) * xm * (1 - xm)
            for mk, yk in zip(ms, others):
                Mh = Mh + mk * (yk - xm)
            Vh = xm * (1 - xm) / nu
            if beta is not None:
                Vh = Vh * (beta + 1) * (beta + 1) / (4 * beta)
            env.eq('%s:delj:dx:call%d:%d' % (name, cl.k, j), rec['dx'][j], x[j + 1] - x[j])
            env.eq('%s:delj:MInt:call%d:%d' % (name, cl.k, j), rec['MInt'][j], Mh)
            env.eq('%s:delj:VInt:call%d:%d' % (name, cl.k, j), rec['VInt'][j], Vh)
        per[cl.k] = rec['d']
    return lambda cl, line: per[cl.k]


def _py_delj(env, eps_rec, which, line, axis, grids, nu, ms, gamma, h, beta, label):
    """Reference Chang-Cooper weights for the Python coefficient builders: numpy.exp was replaced by fresh eps
    (recorded with its argument array, one call per axis in axis order).  Returns the list of delta_j for this line:
    closed form of the defining property  M d + V/(2dx) = eps (V/(2dx) - M (1-d))  and emits the obligation that each
    eps' argument equals 2 M dx / V."""
    if which >= len(eps_rec):
        env.fail(label + ':delj: numpy.exp not called for axis %d' % axis)
        return None
    if len(eps_rec[which]) != 4:
        env.fail(label + ':delj: _compute_delj result not recorded')
        return None
    args, eps, res, fresh = eps_rec[which]
    x = list(grids[axis])
    L = len(x)
    nd = len(line)
    half = env.const('1/2')
    others = [grids[d][line[d]] for d in range(nd) if d != axis]
    out = []
    for j in range(L - 1):
        idx = tuple(j if d == axis else line[d] for d in range(nd))
        e, arg = eps[idx], args[idx]
        dx = x[j + 1] - x[j]
        xm = (x[j] + x[j + 1]) * half
        Mh = gamma * 2 * (h + (1 - 2 * h) * xm) * xm * (1 - xm)
        for mk, yk in zip(ms, others):
            Mh = Mh + mk * (yk - xm)
        Vh = xm * (1 - xm) / nu
        if beta is not None:
            Vh = Vh * (beta + 1) * (beta + 1) / (4 * beta)
        env.eq('%s:delj:exp-arg%s' % (label, list(idx)), arg, 2 * Mh * dx / Vh)
        env.eq('%s:delj:weight%s' % (label, list(idx)), res[idx], ((e - 1) * Vh / (2 * dx) - e * Mh) / (Mh * (1 - e)))
        out.append(fresh[idx])
    return out


def _delj_lemma_unit(N):
    """compute_delj from its own IR: free dx>0, MInt, VInt>0; exp -> fresh eps>0 with recorded argument.  On every
    path each weight is 1/2 (eps==1 or w==0) or satisfies the Chang-Cooper defining property: the discrete flux of
    the local equilibrium vanishes,  M d + V/(2dx) = eps (V/(2dx) - M (1-d)),  eps = exp(2 M dx / V)."""
    def body(env):
        dx = env.array('dx', (N - 1,), lo=None)
        MI = env.array('M', (N - 1,))
        VI = env.array('V', (N - 1,))
        for q in range(N - 1):
            env.assume(dx[q] > 0)
            env.assume(VI[q] > 0)
        if not env.symbolic:
            # float replay: the gcc-built compute_delj on these inputs against the same defining property
            import math
            cb = cmods.CBackend(cmods.build_clib())
            for use in (1, 0):
                out = np.zeros(N - 1)
                cb.call('compute_delj', ['double*', 'double*', 'double*', 'int', 'double*', 'int'],
                        [np.array(dx, dtype=float), np.array(MI, dtype=float), np.array(VI, dtype=float), N, out, use])
                for q in range(N - 1):
                    if not use:
                        env.eq('off:%d' % q, out[q], 0.5)
                        continue
                    w = 2 * MI[q] * dx[q]
                    if abs(w / VI[q]) > 200:
                        continue        # exp overflows in floats: outside the real-number model
                    e = math.exp(w / VI[q])
                    if e != 1 and w != 0:
                        lhs = MI[q] * out[q] + VI[q] / (2 * dx[q])
                        rhs = e * (VI[q] / (2 * dx[q]) - MI[q] * (1 - out[q]))
                        env.holds('equilibrium-flux:%d' % q, abs(lhs - rhs) <= 1e-7 * (abs(lhs) + abs(rhs) + 1e-300))
                    else:
                        env.eq('half:%d' % q, out[q], 0.5)
            return
        ir = cmods.load_ir(files=['integration_shared.c'])
        eps = []

        def exp_hook(mod, xarg):
            e = S.R('eps%d' % len(eps))
            S.CUR.assume(e.t > 0)
            eps.append((e, xarg))
            return e
        ir.hooks['exp'] = exp_hook
        for use in (1, 0):
            del eps[:]
            pdx, pM, pV = ir.arr_in(dx), ir.arr_in(MI), ir.arr_in(VI)
            pd = ir.malloc(8 * (N - 1))
            ir.call('compute_delj', [pdx, pM, pV, N, pd, use])
            d = ir.arr_out(pd, N - 1)
            if not use:
                for q in range(N - 1):
                    env.eq('off:%d' % q, d[q], env.const('1/2'))
                env.holds('off:no exp', len(eps) == 0)
                continue
            env.holds('one exp per interval', len(eps) == N - 1)
            for q in range(N - 1):
                e, arg = eps[q]
                w = 2 * MI[q] * dx[q]
                env.eq('exp-arg:%d' % q, arg, w / VI[q])
                if (e != 1) and (w != 0):
                    env.eq('equilibrium-flux:%d' % q, MI[q] * d[q] + VI[q] / (2 * dx[q]),
                           e * (VI[q] / (2 * dx[q]) - MI[q] * (1 - d[q])))
                else:
                    env.eq('half:%d' % q, d[q], env.const('1/2'))
    return H.Unit('delj-lemma-N%d' % N, body, params=dict(N=N), min_obligations=3 * (N - 1), timeout_s=600,
                  expect_paths=3 ** (N - 1), maxpaths=500)


# ------------------------------------------------------------------------------------------ drivers
def _driver_unit(nd, L, mode, frozen=None, delj=0, only_sweep=None, points=None):
    """mode: 'const' (scalars) or 'func' (lambda t: const)."""
    npop = nd
    frozen = frozen or [False] * nd

    def body(env):
        from dadi import Integration
        # points: a rational grid (keeps branch conditions that the drivers put on M*dx low-degree for the solver)
        xx = env.grid('x', L) if points is None else env.grid('x', L, symbolic=False, points=points)
        phi = env.array('p', (L,) * nd)
        nus = [env.pos('nu%d' % (i + 1)) for i in range(nd)]
        gammas = [env.real('gamma%d' % (i + 1)) for i in range(nd)]
        hs = [env.real('h%d' % (i + 1), lo=0, hi=1) for i in range(nd)]
        theta0 = env.real('theta0', lo=0)
        T = env.pos('T')
        m = {}
        for i in range(1, nd + 1):
            for j in range(1, nd + 1):
                if i != j:
                    if frozen[i - 1] or frozen[j - 1]:
                        m[i, j] = 0
                    else:
                        m[i, j] = env.real('m%d%d' % (i, j), lo=0)
        beta = env.pos('beta') if nd == 1 else None
        wrap = (lambda v: v) if mode == 'const' else (lambda v: (lambda t, v=v: v))
        kw = {}
        if nd == 1:
            kw = dict(nu=wrap(nus[0]), gamma=wrap(gammas[0]), h=wrap(hs[0]), theta0=wrap(theta0), beta=wrap(beta))
        else:
            for i in range(nd):
                kw['nu%d' % (i + 1)] = wrap(nus[i])
                kw['gamma%d' % (i + 1)] = wrap(gammas[i])
                kw['h%d' % (i + 1)] = wrap(hs[i])
                if frozen[i]:
                    kw['frozen%d' % (i + 1)] = True
            for (i, j), v in m.items():
                kw['m%d%d' % (i, j)] = wrap(v) if not isinstance(v, int) else v
            kw['theta0'] = wrap(theta0)
        fn = [Integration.one_pop, Integration.two_pops, Integration.three_pops, Integration.four_pops,
              Integration.five_pops][nd - 1]
        grids = [xx] * nd
        active = [not f for f in frozen]
        saved = (Integration._compute_dt, Integration.use_delj_trick)
        Integration.use_delj_trick = bool(delj)
        dt_args = []

        def check_dt_args():
            # both drivers must consult the time-step rule once per population and step with that population's own
            # (grid spacing, nu_i, rates INTO i, gamma_i, h_i): otherwise constant and time-dependent runs step differently
            env.holds('time-step rule consulted a multiple of %d times (%d)' % (nd, len(dt_args)),
                      len(dt_args) >= nd and len(dt_args) % nd == 0)
            for k_, (dx_, nu_, msl, g_, h_) in enumerate(dt_args):
                i = k_ % nd
                tag = 'dt rule call %d (pop %d)' % (k_, i + 1)
                env.same(tag + ': dx', np.asarray(dx_, dtype=object), np.asarray(np.diff(xx), dtype=object))
                env.eq(tag + ': nu', nu_, nus[i])
                env.eq(tag + ': gamma', g_, gammas[i])
                env.eq(tag + ': h', h_, hs[i])
                want = [m[i + 1, o + 1] for o in range(nd) if o != i] if nd > 1 else [0]
                env.holds(tag + ': number of migration rates', len(msl) == len(want))
                if len(msl) == len(want):
                    # the rule only uses the sum of the rates: compare sums (a permutation is harmless)
                    env.eq(tag + ': total migration into the population', sum(msl[1:], msl[0]), sum(want[1:], want[0]))
        try:
            if env.symbolic:
                si = K.sym_integration()
                dtv = [0]

                def stub_dt(dx, nu, ms_, gamma, h):
                    # one fresh step size for the whole run (the rule itself is C03's subject); T <= dt
                    dtv[0] += 1
                    dt_args.append((dx, nu, list(ms_), gamma, h))
                    d = S.R('DT')
                    if dtv[0] == 1:
                        S.CUR.assume(d.t > 0)
                        # (4-5 pops: strict, which removes the behaviourally identical T == dt twin path)
                        S.CUR.assume(T.t < d.t if nd >= 4 else T.t <= d.t)
                    return d
                Integration._compute_dt = stub_dt
                drec, eps_rec = [], []
                if delj:
                    def delj_hook(mod, dxp, mip, vip, N, dlp, use):
                        k = len(drec)
                        rd = lambda p: [mod.load(type(p)(p.reg, p.off + 8 * q), 'double') for q in range(N - 1)]
                        d = [S.R('delj%d_%d' % (k, q)) for q in range(N - 1)]
                        for q in range(N - 1):
                            mod.store(type(dlp)(dlp.reg, dlp.off + 8 * q), d[q], 'double')
                        drec.append(dict(dx=rd(dxp), MInt=rd(mip), VInt=rd(vip), d=d, use=use))
                    si.ir.hooks['compute_delj'] = delj_hook

                    def exp_stub(x):
                        # contract stub for numpy.exp inside Integration (Python coefficient builders): fresh positive
                        # eps per element, argument recorded (proved = 2 M dx / V below)
                        arr = np.asarray(x, dtype=object)
                        o = np.empty(arr.shape, dtype=object)
                        for idx in np.ndindex(*arr.shape):
                            e = S.R('eps%d_%s' % (len(eps_rec), '_'.join(map(str, idx))))
                            S.CUR.assume(e.t > 0)
                            o[idx] = e
                        eps_rec.append((arr, o))
                        return o
                    object.__getattribute__(Integration.numpy, '_o')['exp'] = exp_stub
                    orig_delj = Integration._compute_delj

                    def delj_wrap(dx_, MInt_, VInt_, axis=0):
                        # compositional: the real _compute_delj runs (with exp stubbed); its result is recorded and proved
                        # equal to the Chang-Cooper closed form element by element, and the builders continue with fresh
                        # weights D so that the coefficient obligations stay low-degree
                        res = np.asarray(orig_delj(dx_, MInt_, VInt_, axis), dtype=object)
                        fresh = np.empty(res.shape, dtype=object)
                        for idx in np.ndindex(*res.shape):
                            fresh[idx] = S.R('D%d_%s' % (len(eps_rec) - 1, '_'.join(map(str, idx))))
                        eps_rec[-1] = eps_rec[-1] + (res, fresh)
                        return fresh
                    Integration._compute_delj = delj_wrap
                try:
                    out = fn(phi.copy(), xx, T, **kw)
                finally:
                    si.ir.hooks.pop('compute_delj', None)
                    object.__getattribute__(Integration.numpy, '_o').pop('exp', None)
                    if delj:
                        Integration._compute_delj = orig_delj
                sweeps = list(si.rec.sweeps)
                check_dt_args()
                # 1-D constant path goes through tridiag_cython.tridiag directly (no kernel sweep)
                start = K.ref_inject(phi, grids, T, theta0, active)
                if nd == 1 and mode == 'const':
                    calls = si.cap.calls
                    env.holds('one tridiagonal call', len(calls) == 1)
                    if len(calls) == 1:
                        cl = calls[0]
                        dl1 = None
                        if delj:
                            dl1 = _py_delj(env, eps_rec, 0, (None,), 0, [xx], nus[0], [], gammas[0], hs[0], beta, 'one_pop')
                        a, b, c = K.ref_abc(list(xx), [], nus[0], [], gammas[0], hs[0], T, beta, dl1, True, True,
                                            half=env.const('1/2'))
                        for j in range(L):
                            if j >= 1:
                                env.eq('a%d' % j, cl.a[j], a[j])
                            env.eq('b%d' % j, cl.b[j], b[j])
                            if j <= L - 2:
                                env.eq('c%d' % j, cl.c[j], c[j])
                            env.eq('r%d' % j, cl.r[j], start[j] / T)
                            env.eq('out%d' % j, out[j], cl.u[j])
                    return
                axes = [d for d in range(nd) if active[d]]
                env.holds('number of sweeps == non-frozen populations', len(sweeps) == len(axes))
                if len(sweeps) != len(axes):
                    return
                cur = start
                for si_, (sw, ax) in enumerate(zip(sweeps, axes)):
                    ms_ = [m[ax + 1, o + 1] for o in range(nd) if o != ax]
                    if only_sweep is not None and si_ != only_sweep:
                        cur = sw.after
                        continue
                    precalc = sw.kernel.startswith('implicit_precalc')
                    want = ('implicit_precalc_%dD%s' if precalc else 'implicit_%dD%s') % (nd, K.AXN[ax])
                    env.holds('sweep kernel %s is %s' % (sw.kernel, want), sw.kernel == want)
                    if mode == 'const' and nd in (2, 3):
                        env.holds('constant parameters use the precomputed-coefficient driver', precalc)
                    if not precalc:
                        # arguments handed to the kernel: grids, nu_i, migration rates in slot order, gamma, h, dt, delj
                        exp_args = grids + [nus[ax]] + ms_ + [gammas[ax], hs[ax]] + ([beta] if nd == 1 else []) + [T]
                        got = list(sw.args[1:1 + len(exp_args)])
                        for gi, (g_, e_) in enumerate(zip(got, exp_args)):
                            if isinstance(e_, np.ndarray):
                                env.same('%s:arg%d(grid)' % (sw.kernel, gi), g_, e_)
                            else:
                                env.eq('%s:arg%d' % (sw.kernel, gi), g_, e_)
                        env.holds('%s:delj flag' % sw.kernel, bool(sw.args[-1]) == bool(delj))
                    # the sweep starts from the current reference state
                    env.same('%s:input' % sw.kernel, sw.before, cur)
                    dlf = None
                    if delj and precalc:
                        which = axes.index(ax)
                        dlf = (lambda cl, line, which=which, ax=ax, ms_=ms_:
                               _py_delj(env, eps_rec, which, line, ax, grids, nus[ax], ms_, gammas[ax], hs[ax], beta, sw.kernel))
                    elif delj:
                        nl = L ** (nd - 1)
                        which = axes.index(ax)
                        sub = drec[which * nl:(which + 1) * nl]
                        dlf = _delj_args(env, sw, ax, grids, nus[ax], ms_, gammas[ax], hs[ax], beta, sub, sw.kernel)
                    K.check_sweep(env, sw, ax, grids, nus[ax], ms_, gammas[ax], hs[ax], T, beta, sw.kernel,
                                  before=cur, delj=dlf)
                    cur = sw.after
                if only_sweep is None or only_sweep == len(axes) - 1:
                    env.same('result', out, cur)
            else:
                K.concrete_modules()

                def rec_dt(dx, nu, ms_, gamma, h):
                    dt_args.append((dx, nu, list(ms_), gamma, h))
                    return np.inf
                Integration._compute_dt = rec_dt
                out = fn(phi.copy(), xx, T, **kw)
                check_dt_args()
                if delj:
                    # float replay with the trick on: the constant and the time-dependent driver must agree
                    kw_other = {k_: ((lambda t, v=v_: v) if (mode == 'const' and not isinstance(v_, bool)) else
                                     (v_(0.0) if callable(v_) else v_)) for k_, v_ in kw.items()}
                    other = fn(phi.copy(), xx, T, **kw_other)
                    a_, b_ = np.asarray(out, dtype=float), np.asarray(other, dtype=float)
                    scale = np.abs(b_).max()
                    for idx in np.ndindex(*a_.shape):
                        env.holds('const vs func %s' % (idx,), abs(a_[idx] - b_[idx]) <= 1e-5 * scale)
                    return
                cur = K.ref_inject(phi, grids, T, theta0, active)
                for ax in range(nd):
                    if not active[ax]:
                        continue
                    ms_ = [m[ax + 1, o + 1] for o in range(nd) if o != ax]
                    cur = K.ref_sweep_float(cur, ax, grids, nus[ax], ms_, gammas[ax], hs[ax], T, beta)
                env.same('result', out, cur)
        finally:
            Integration._compute_dt, Integration.use_delj_trick = saved
    fz = ''.join('F' if f else '-' for f in frozen)
    return H.Unit('driver-%dpop-%s-L%d-frozen%s%s%s%s' % (nd, mode, L, fz, '' if only_sweep is None else '-sweep%d' % only_sweep, '-delj1' if delj else '', '' if points is None else '-rationalgrid'),
                  body, params=dict(pops=nd, mode=mode, L=L, frozen=list(frozen), delj=delj, only_sweep=only_sweep,
                                    grid=None if points is None else [str(p_) for p_ in points]),
                  min_obligations=L ** nd, timeout_s=1200, query_timeout_ms=60000, maxpaths=200)


def _translator_validation_unit(seed):
    """Validates the encoding, not the property: every kernel and the solver are executed on random rational inputs by
    the LLVM-IR interpreter (exact arithmetic) and by the gcc-compiled current C through ctypes (float64), both through
    the same .pyx-derived wrappers; results must agree to 1e-10 relative.  A disagreement is a harness error (exit 3)."""
    def body(env):
        import random
        from fractions import Fraction as Fr
        if not env.symbolic:
            env.holds('n/a', True)
            return
        rng = random.Random(1234 + seed)
        ir = cmods.load_ir()
        sym_int = cmods.make_module('integration_c', K.PYX_INT, cmods.SymBackend(ir))
        sym_tri = cmods.make_module('tridiag_cython', K.PYX_TRI, cmods.SymBackend(ir))
        lib = cmods.build_clib()
        c_int = cmods.make_module('integration_c', K.PYX_INT, cmods.CBackend(lib))
        c_tri = cmods.make_module('tridiag_cython', K.PYX_TRI, cmods.CBackend(lib))
        import os
        os.unlink(lib)
        rq = lambda lo, hi: Fr(rng.randint(int(lo * 64), int(hi * 64)), 64)
        n = 0

        def compare(name, sym_out, c_out):
            a = np.array([float(S.Sym.lift(v).c) for v in np.asarray(sym_out, dtype=object).ravel()])
            b = np.asarray(c_out, dtype=float).ravel()
            if not np.all(np.abs(a - b) <= 1e-10 * (1 + np.abs(b))):
                raise RuntimeError('translator validation failed for %s: max diff %g' % (name, np.abs(a - b).max()))
        # solver
        for sz in (3, 6):
            a, c, r = [[rq(-1, 1) for _ in range(sz)] for _ in range(3)]
            b = [rq(3, 5) for _ in range(sz)]
            so = sym_tri.tridiag(*[S.constarray(v) for v in (a, b, c, r)])
            co = c_tri.tridiag(*[np.array([float(x) for x in v]) for v in (a, b, c, r)])
            compare('tridiag', so, co)
            n += 1
        for name, nd, ax in K.KERNELS:
            L = 4 if nd <= 3 else 3
            grid = [Fr(0)] + sorted(rq(0.05, 0.95) for _ in range(L - 2)) + [Fr(1)]
            if len(set(grid)) != L:
                grid = [Fr(i, L - 1) for i in range(L)]
            phi = np.empty((L,) * nd, dtype=object)
            for idx in np.ndindex(*phi.shape):
                phi[idx] = rq(0, 4)
            nu, gam, hh, dt = rq(0.5, 3), rq(-3, 3), rq(0, 1), Fr(rng.randint(1, 12), 64)
            ms = [rq(0, 2) for _ in range(nd - 1)]
            for dj in (0, 1):
                sc = [nu] + ms + [gam, hh] + ([rq(0.5, 2)] if nd == 1 else []) + [dt]
                if dj and nd > 2:
                    continue
                sargs = [S.constarray(phi)] + [S.constarray(grid)] * nd + [S.C(v) for v in sc] + [dj]
                cargs = [np.array(phi, dtype=float)] + [np.array([float(g) for g in grid])] * nd + [float(v) for v in sc] + [dj]
                if dj:
                    # exp of a rational is not rational: evaluate the IR's exp numerically for this validation only
                    import math
                    ir.hooks['exp'] = lambda mod, x: S.C(Fr(math.exp(float(S.Sym.lift(x).c))))
                try:
                    so = getattr(sym_int, name)(*sargs)
                finally:
                    ir.hooks.pop('exp', None)
                co = getattr(c_int, name)(*cargs)
                compare(name + ('/delj' if dj else ''), so, co)
                n += 1
        for name, nd, ax in K.PRECALC:
            L = 4 if nd == 2 else 3
            arrs = []
            for k in range(4):
                a_ = np.empty((L,) * nd, dtype=object)
                for idx in np.ndindex(*a_.shape):
                    a_[idx] = rq(-1, 1) if k in (1, 3) else (rq(0, 4) if k == 0 else rq(3, 5))
                arrs.append(a_)
            phi, aa, bb, cc = arrs
            dt = Fr(rng.randint(1, 12), 64)
            so = getattr(sym_int, name)(S.constarray(phi), S.constarray(aa), S.constarray(bb), S.constarray(cc), S.C(dt))
            co = getattr(c_int, name)(*[np.array(v, dtype=float) for v in (phi, aa, bb, cc)], float(dt))
            compare(name, so, co)
            n += 1
        env.holds('%d kernel executions agree between the IR interpreter and the compiled C' % n, n >= 25)
    return H.Unit('translator-validation', body, min_obligations=1, timeout_s=600)


def units(tier, seed):
    us = [_translator_validation_unit(seed)]
    thorough = tier == 'thorough'
    for n in range(3, (13 if thorough else 9)):
        us.append(_thomas_unit(n, 'T1'))
    for n in (3, 5):
        us.append(_thomas_unit(n, 'T0'))
    for n in (3, 4, 5):
        us.append(_thomas_unit(n, 'T1p'))
    for N in ((3, 4, 5) if thorough else (3, 4)):
        us.append(_delj_lemma_unit(N))
    for name, nd, ax in K.KERNELS:
        Ls = [4] if nd <= 2 else [3]
        if thorough:
            Ls = {1: [4, 5, 6], 2: [4, 5], 3: [3, 4, 5], 4: [3, 4], 5: [3]}[nd]
        for L in Ls:
            us.append(_kernel_unit(name, nd, ax, L, 0))
        if nd <= 2 or thorough:
            us.append(_kernel_unit(name, nd, ax, 4 if nd <= 2 else 3, 1))
    for nd in range(1, 6):
        L = 4 if nd <= 2 else 3
        for mode in (('const', 'func') if nd <= 3 else ('func',)):
            if nd >= 4:
                for sweep in range(nd):
                    us.append(_driver_unit(nd, L, mode, only_sweep=sweep))
            else:
                us.append(_driver_unit(nd, L, mode))
                if nd <= 2 or (thorough and nd == 3):
                    us.append(_driver_unit(nd, L, mode, delj=1))
        if nd in (2, 3):
            for fz in itertools.product([False, True], repeat=nd):
                if any(fz) and not all(fz):
                    for mode in ('const', 'func'):
                        us.append(_driver_unit(nd, L, mode, list(fz)))
        if nd <= 2:
            # delj on, rational non-uniform grid: branch conditions on M*dx inside the Python builders stay low-degree
            from fractions import Fraction as Fr_
            us.append(_driver_unit(nd, 4, 'const', delj=1, points=[Fr_(0), Fr_(1, 16), Fr_(5, 8), Fr_(1)]))
        if thorough and nd <= 3:
            us.append(_driver_unit(nd, 5 if nd < 3 else 4, 'const'))
            us.append(_driver_unit(nd, 5 if nd < 3 else 4, 'func'))
    return us


def concrete_setup():
    K.concrete_modules()
