"""C04 - mass leaves only via fixation/loss: frozen and isolated marginals are exact."""
import itertools
from fractions import Fraction as Fr

import numpy as np

from engine import harness as H
from engine import symreal as S
from checks import kernels as K

META = dict(
    explanation=(
        'Coefficient level (symbolic grids and parameters, tridiagonal solver replaced by its contract): for every line of '
        'every per-axis kernel z3 proves the trapezoid-weighted column sums  sum_j w_j A_jk = w_k/dt  (+ the absorbing '
        'term only for k in {0,L-1} on the two corner lines), i.e. each implicit sweep conserves trapezoid mass except for '
        'outflow at the all-0/all-1 corners; with m=gamma=0 the systems of all lines coincide and a[1]=c[L-2]=0 (interior '
        'decoupled from the boundary rows).  Driver level: frozen axes are never swept, influx goes only to populations '
        'that are neither frozen nor nomut and equals dt*theta0/(2 x_1) of trapezoid mass each, frozen+incident migration '
        'raises ValueError for every symbolic m != 0.  End to end (real Thomas code interpreted inline, rational grids and '
        'parameter points, symbolic density, QF_LRA): a frozen population\'s marginal is unchanged at interior frequencies '
        'while the others evolve with selection/dominance/migration; without migration and selection the marginal of every '
        'subset S at interior frequencies equals the |S|-population integration of the marginal; total mass changes by '
        'influx minus the corner outflow of each sweep.'),
    functions=['implicit_{1..5}D{x,y,z,a,b}', 'implicit_precalc_*', 'tridiag(_premalloc)', 'Integration.one_pop..five_pops',
               'Integration._inject_mutations_*', 'Integration._compute_dt', 'PhiManip.remove_pop/filter_pops',
               'Numerics.trapz'],
    files=K.FILES + ['dadi/PhiManip.py', 'dadi/Numerics.py'],
    bounds=dict(quick='L=4 (1-2 pops), 3 (3-5 pops) for the symbolic coefficient laws; end-to-end: rational grids (uniform, '
                      'dyadic-exponential, irregular) L=4 (2-3 pops) / 3 (4-5 pops), 2 rational parameter points chosen by '
                      'VERIF_SEED, 1-2 time steps, every non-empty proper subset S (2-4 pops), every single frozen population '
                      'and all frozen/nomut flag choices for 2 pops',
                thorough='adds L=5 (1-3 pops) / 4 (4 pops) coefficient laws, 4 parameter points, all frozen subsets for 3-4 '
                         'pops, every subset S for 5 pops'),
    outside=['round-off', 'larger grids', 'more than two time steps end-to-end (the coefficient laws hold per step)',
             'CUDA paths'],
    stubs=['tridiag -> contract in the coefficient-level units only', 'Integration._compute_dt -> fresh dt>=T in the '
           'symbolic-parameter driver units', 'dadi.Demes event log -> no-op'],
    assumptions=['doubles as reals', 'denominators occurring in a query non-zero'],
)

GRIDS = {
    3: [[0, Fr(1, 2), 1], [0, Fr(1, 8), 1], [0, Fr(2, 3), 1]],
    4: [[0, Fr(1, 3), Fr(2, 3), 1], [0, Fr(1, 16), Fr(1, 4), 1], [0, Fr(1, 5), Fr(1, 2), 1]],
    5: [[0, Fr(1, 4), Fr(1, 2), Fr(3, 4), 1], [0, Fr(1, 32), Fr(1, 8), Fr(1, 2), 1], [0, Fr(1, 7), Fr(1, 3), Fr(4, 5), 1]],
}
NUS = [Fr(1, 2), Fr(2), Fr(3, 4), Fr(5), Fr(1), Fr(7, 3)]
GAMMAS = [Fr(-3), Fr(5, 2), Fr(0), Fr(-1, 2), Fr(7)]
HS = [Fr(0), Fr(1, 4), Fr(1, 2), Fr(1), Fr(3, 4)]
MS = [Fr(0), Fr(1, 2), Fr(3), Fr(1, 5)]


def weights(g):
    L = len(g)
    w = []
    for j in range(L):
        lo = g[j] - g[j - 1] if j > 0 else 0
        hi = g[j + 1] - g[j] if j < L - 1 else 0
        w.append((lo + hi) / 2)
    return w


def mass(arr, grids):
    ws = [weights(list(g)) for g in grids]
    tot = 0
    for idx in np.ndindex(*arr.shape):
        t = arr[idx]
        for d, i in enumerate(idx):
            t = t * ws[d][i]
        tot = tot + t
    return tot


def marginal(arr, grids, keep):
    """Explicit trapezoid marginal over all axes not in keep (oracle, no dadi call)."""
    nd = arr.ndim
    ws = [weights(list(g)) for g in grids]
    shape = tuple(arr.shape[d] for d in keep)
    out = np.empty(shape, dtype=arr.dtype)
    out.fill(0)
    for idx in np.ndindex(*arr.shape):
        t = arr[idx]
        for d in range(nd):
            if d not in keep:
                t = t * ws[d][idx[d]]
        k = tuple(idx[d] for d in keep)
        out[k] = out[k] + t
    return out


# ------------------------------------------------------------------------------------------ coefficient laws
def _colsum_unit(name, nd, axis, L, decoupled):
    def body(env):
        grids = [env.grid('g%s' % K.AXN[d], L) for d in range(nd)]
        phi = env.array('p', (L,) * nd)
        nu = env.pos('nu')
        dt = env.pos('dt')
        beta = env.pos('beta') if nd == 1 else None
        if decoupled:
            ms, gamma, h = [0] * (nd - 1), 0, env.real('h', lo=0, hi=1)
        else:
            ms = [env.real('m%d' % k, lo=0) for k in range(nd - 1)]
            gamma, h = env.real('gamma'), env.real('h', lo=0, hi=1)
        args = [phi.copy()] + grids + [nu] + ms + [gamma, h] + ([beta] if nd == 1 else []) + [dt, 0]
        if not env.symbolic:
            # float replay on the gcc-built current C: trapezoid mass law of the sweep + the reference sweep
            intc = K.concrete_modules()[0]
            out = getattr(intc, name)(*args)
            glist = [list(g) for g in grids]
            x = glist[axis]
            wfull0 = 1.0
            wfull1 = 1.0
            for d in range(nd):
                wd = weights(glist[d])
                wfull0 *= wd[0]
                wfull1 *= wd[L - 1]
            ab0 = (1 / (2 * nu)) * 2 / (x[1] - x[0])
            ab1 = (1 / (2 * nu)) * 2 / (x[L - 1] - x[L - 2])
            env.eq('mass law', mass(out, glist),
                   mass(phi, glist) - dt * (ab0 * wfull0 * out[(0,) * nd] + ab1 * wfull1 * out[(L - 1,) * nd]))
            env.same(name, out, K.ref_sweep_float(phi, axis, glist, nu, ms, gamma, h, dt, beta))
            return
        si = K.sym_integration()
        getattr(si.rec, name)(*args)
        sw = si.rec.sweeps[-1]
        lines = sw.lines(axis)
        x = list(grids[axis])
        w = weights(x)
        first = None
        for cl, line in lines:
            c0 = all(line[d] == 0 for d in range(nd) if d != axis)
            c1 = all(line[d] == L - 1 for d in range(nd) if d != axis)
            tag = '%s:line%s' % (name, ''.join('_' if d is None else str(d) for d in line))
            if not decoupled:
                for k in range(L):
                    col = cl.b[k] * w[k]
                    if k + 1 < L:
                        col = col + cl.a[k + 1] * w[k + 1]
                    if k - 1 >= 0:
                        col = col + cl.c[k - 1] * w[k - 1]
                    want = w[k] / dt
                    # outflow only at the two corners (M = 0 there: pure drift absorption 1/(2 nu) * 2/dx)
                    if c0 and k == 0:
                        want = want + w[0] * (1 / (2 * nu)) * 2 / (x[1] - x[0])
                    if c1 and k == L - 1:
                        want = want + w[L - 1] * (1 / (2 * nu)) * 2 / (x[L - 1] - x[L - 2])
                    env.eq('%s:colsum%d' % (tag, k), col, want)
            else:
                env.eq(tag + ':a1=0', cl.a[1], 0)
                env.eq(tag + ':c[L-2]=0', cl.c[L - 2], 0)
                if first is None:
                    first = cl
                else:
                    for j in range(L):
                        if j >= 1:
                            env.eq('%s:a%d same' % (tag, j), cl.a[j], first.a[j])
                        if j <= L - 2:
                            env.eq('%s:c%d same' % (tag, j), cl.c[j], first.c[j])
                        if 1 <= j <= L - 2:
                            env.eq('%s:b%d same' % (tag, j), cl.b[j], first.b[j])
    nl = L ** (nd - 1)
    return H.Unit('%s-%s-L%d' % ('decouple' if decoupled else 'colsum', name, L), body,
                  params=dict(kernel=name, L=L, decoupled=decoupled),
                  min_obligations=(2 * nl if decoupled else nl * L), timeout_s=900, expect_paths=1, maxpaths=8)


# ------------------------------------------------------------------------------------------ flags (symbolic params)
DRIVERS = ['one_pop', 'two_pops', 'three_pops', 'four_pops', 'five_pops']


def _flags_unit(nd, L, frozen, nomut, mode):
    def body(env):
        from dadi import Integration
        xx = env.grid('x', L)
        phi = env.array('p', (L,) * nd)
        nus = [env.pos('nu%d' % (i + 1)) for i in range(nd)]
        theta0 = env.real('theta0', lo=0)
        T = env.pos('T')
        wrap = (lambda v: v) if mode == 'const' else (lambda v: (lambda t, v=v: v))
        kw = {}
        for i in range(nd):
            kw['nu%d' % (i + 1)] = wrap(nus[i])
            if frozen[i]:
                kw['frozen%d' % (i + 1)] = True
            if nomut[i]:
                kw['nomut%d' % (i + 1)] = True
        kw['theta0'] = wrap(theta0)
        fn = getattr(Integration, DRIVERS[nd - 1])
        grids = [xx] * nd
        mut = [not (frozen[i] or nomut[i]) for i in range(nd)]
        saved = Integration._compute_dt
        try:
            if env.symbolic:
                si = K.sym_integration()
                first = [True]

                def stub_dt(*a):
                    d = S.R('DT')
                    if first[0]:
                        first[0] = False
                        S.CUR.assume(d.t > 0)
                        S.CUR.assume(T.t < d.t)
                    return d
                Integration._compute_dt = stub_dt
                fn(phi.copy(), xx, T, **kw)
                sweeps = si.rec.sweeps
                axes = [d for d in range(nd) if not frozen[d]]
                env.holds('swept axes are exactly the non-frozen ones',
                          [s.kernel[-1] for s in sweeps] == [K.AXN[a] for a in axes])
                if sweeps:
                    env.same('influx', sweeps[0].before, K.ref_inject(phi, grids, T, theta0, mut))
                # independent statement of the influx: dt*theta0/(2 x_1) of trapezoid mass per mutating population
                inj = K.ref_inject(phi, grids, T, theta0, mut)
                env.eq('influx mass', mass(inj, grids) - mass(phi, grids), sum(mut) * T * theta0 / (2 * xx[1]))
            else:
                K.concrete_modules()
                Integration._compute_dt = lambda *a: np.inf
                out = fn(phi.copy(), xx, T, **kw)
                cur = K.ref_inject(phi, grids, T, theta0, mut)
                for ax in range(nd):
                    if not frozen[ax]:
                        cur = K.ref_sweep_float(cur, ax, grids, nus[ax], [0] * (nd - 1), 0, 0.5, T, None)
                env.same('result', out, cur)
        finally:
            Integration._compute_dt = saved
    tag = ''.join('F' if f else ('N' if n else '-') for f, n in zip(frozen, nomut))
    return H.Unit('flags-%dpop-%s-%s' % (nd, mode, tag), body, params=dict(pops=nd, frozen=frozen, nomut=nomut, mode=mode),
                  min_obligations=2, timeout_s=600)


def _frozen_mig_unit(nd, fz, mi, mj, incident):
    """frozen population fz (1-based) with symbolic migration m_{mi,mj} != 0: must raise iff incident."""
    def body(env):
        from dadi import Integration
        L = 3
        xx = env.grid('x', L, symbolic=False, points=GRIDS[3][0])
        phi = env.array('p', (L,) * nd)
        mval = env.real('m', lo=0)
        env.assume(mval != 0)
        T = env.const(Fr(1, 8000))
        kw = {'frozen%d' % fz: True, 'm%d%d' % (mi, mj): mval}
        fn = getattr(Integration, DRIVERS[nd - 1])
        saved_dt = Integration._compute_dt
        if env.symbolic:
            # contract mode + one fresh step size: only the accept/reject decision matters here
            K.sym_integration()
            first = [True]

            def stub_dt(*a):
                d = S.R('DT')
                if first[0]:
                    first[0] = False
                    S.CUR.assume(d.t > S.tz(T))
                return d
            Integration._compute_dt = stub_dt
        else:
            K.concrete_modules()
        for variant in ('const', 'func', 'mfunc'):
            kw2 = dict(kw)
            if variant == 'func':
                kw2['nu1'] = lambda t: 1
            if variant == 'mfunc':
                # a migration rate that is a function of time, zero at the start and positive later
                kw2['m%d%d' % (mi, mj)] = (lambda t: mval * t)
            try:
                fn(phi.copy(), xx, T, **kw2)
                raised = False
            except ValueError:
                raised = True
            env.holds('%s: raises ValueError == incident' % variant, raised == incident)
        Integration._compute_dt = saved_dt
    return H.Unit('frozen%d-m%d%d-%dpop-%s' % (fz, mi, mj, nd, 'rejected' if incident else 'accepted'), body,
                  params=dict(pops=nd, frozen=fz, m=[mi, mj], incident=incident), min_obligations=3, timeout_s=600)


# ------------------------------------------------------------------------------------------ end to end (inline)
def _pick(lst, seed, k):
    return lst[(seed * 7 + k * 3) % len(lst)]


def _e2e_frozen_unit(nd, L, gi, frozen, pp, seed, steps):
    def body(env):
        from dadi import Integration
        xx = env.grid('x', L, symbolic=False, points=GRIDS[L][gi])
        phi = env.array('p', (L,) * nd)
        if env.symbolic:
            K.sym_integration(contract=False)
        else:
            K.concrete_modules()
        kw = {}
        moving = [d for d in range(nd) if not frozen[d]]
        for d in range(nd):
            kw['nu%d' % (d + 1)] = env.const(_pick(NUS, seed + pp, d))
            if frozen[d]:
                kw['frozen%d' % (d + 1)] = True
            else:
                kw['gamma%d' % (d + 1)] = env.const(_pick(GAMMAS, seed + pp, d))
                kw['h%d' % (d + 1)] = env.const(_pick(HS, seed + pp, d))
        k = 0
        for i in moving:
            for j in moving:
                if i != j:
                    kw['m%d%d' % (i + 1, j + 1)] = env.const(_pick(MS, seed + pp, k))
                    k += 1
        kw['theta0'] = env.const(Fr(3, 2))
        # T = (steps - 1/2) * (the step the rule will choose): `steps` time steps, the last one shorter.
        # (_compute_dt is used here only to pick T; it is not part of the oracle.)
        dx = np.diff(xx)
        dts = []
        for d in moving:
            ms_ = [kw.get('m%d%d' % (d + 1, o + 1), 0) for o in range(nd) if o != d]
            dts.append(Integration._compute_dt(dx, kw['nu%d' % (d + 1)], ms_, kw['gamma%d' % (d + 1)], kw['h%d' % (d + 1)]))
        dtmin = dts[0]
        for d_ in dts[1:]:
            if d_ < dtmin:
                dtmin = d_
        T = dtmin * (2 * steps - 1) / 2
        fn = getattr(Integration, DRIVERS[nd - 1])
        out = fn(phi.copy(), xx, T, **kw)
        grids = [list(xx)] * nd
        keep = [d for d in range(nd) if frozen[d]]
        m0 = marginal(phi, grids, keep)
        m1 = marginal(np.asarray(out), grids, keep)
        n = 0
        for idx in np.ndindex(*m0.shape):
            if all(0 < i < L - 1 for i in idx):
                env.eq('frozen marginal %s' % (idx,), m1[idx], m0[idx])
                n += 1
        env.holds('interior points exist', n > 0)
    fz = ''.join('F' if f else '-' for f in frozen)
    return H.Unit('e2e-frozen-%dpop-L%d-g%d-%s-p%d-steps%d' % (nd, L, gi, fz, pp, steps), body,
                  params=dict(pops=nd, L=L, grid=gi, frozen=frozen, point=pp, steps=steps), min_obligations=2,
                  timeout_s=900, expect_paths=1)


def _e2e_isolated_unit(nd, L, gi, subset, pp, seed, mode):
    def body(env):
        from dadi import Integration
        xx = env.grid('x', L, symbolic=False, points=GRIDS[L][gi])
        phi = env.array('p', (L,) * nd)
        if env.symbolic:
            K.sym_integration(contract=False)
        else:
            K.concrete_modules()
        wrap = (lambda v: v) if mode == 'const' else (lambda v: (lambda t, v=v: v))
        nus = [env.const(_pick(NUS, seed + pp, d)) for d in range(nd)]
        theta0 = env.const(Fr(5, 4))
        T = env.const(Fr(1, 4000))  # <= every population's own dt: the same single step in both runs
        kw = {'nu%d' % (d + 1): wrap(nus[d]) for d in range(nd)} if nd > 1 else {'nu': wrap(nus[0])}
        kw['theta0'] = wrap(theta0)
        out = getattr(Integration, DRIVERS[nd - 1])(phi.copy(), xx, T, **kw)
        grids = [list(xx)] * nd
        sub = marginal(phi, grids, subset)
        k = len(subset)
        kw2 = {'nu%d' % (i + 1): wrap(nus[d]) for i, d in enumerate(subset)} if k > 1 else {'nu': wrap(nus[subset[0]])}
        kw2['theta0'] = wrap(theta0)
        alone = getattr(Integration, DRIVERS[k - 1])(sub.copy(), xx, T, **kw2)
        got = marginal(np.asarray(out), grids, subset)
        n = 0
        for idx in np.ndindex(*got.shape):
            if all(0 < i < L - 1 for i in idx):
                env.eq('marginal %s' % (idx,), got[idx], np.asarray(alone)[idx])
                n += 1
        env.holds('interior points exist', n > 0)
    return H.Unit('e2e-isolated-%dpop-L%d-g%d-S%s-p%d-%s' % (nd, L, gi, ''.join(str(s + 1) for s in subset), pp, mode), body,
                  params=dict(pops=nd, L=L, grid=gi, subset=list(subset), point=pp, mode=mode), min_obligations=2,
                  timeout_s=900, expect_paths=1)


def _e2e_mass_unit(nd, L, gi, pp, seed, frozen):
    def body(env):
        from dadi import Integration
        xx = env.grid('x', L, symbolic=False, points=GRIDS[L][gi])
        phi = env.array('p', (L,) * nd)
        kw = {}
        nus = [env.const(_pick(NUS, seed + pp, d)) for d in range(nd)]
        moving = [d for d in range(nd) if not frozen[d]]
        for d in range(nd):
            key = ('nu%d' % (d + 1)) if nd > 1 else 'nu'
            kw[key] = nus[d]
            sfx = str(d + 1) if nd > 1 else ''
            if frozen[d]:
                kw['frozen' + sfx] = True
            else:
                kw['gamma' + sfx] = env.const(_pick(GAMMAS, seed + pp, d))
                kw['h' + sfx] = env.const(_pick(HS, seed + pp, d))
        k = 0
        for i in moving:
            for j in moving:
                if i != j:
                    kw['m%d%d' % (i + 1, j + 1)] = env.const(_pick(MS, seed + pp, k))
                    k += 1
        theta0 = env.const(Fr(3, 2))
        kw['theta0'] = theta0
        T = env.const(Fr(1, 50000))  # single step (T below every dt)
        grids = [list(xx)] * nd
        if not env.symbolic:
            K.concrete_modules()
            out = getattr(Integration, DRIVERS[nd - 1])(phi.copy(), xx, T, **kw)
            # float replay: total mass against the reference scheme
            cur = K.ref_inject(phi, grids, T, theta0, [not f for f in frozen])
            for ax in moving:
                ms_ = [kw.get('m%d%d' % (ax + 1, o + 1), 0) for o in range(nd) if o != ax]
                sfx = str(ax + 1) if nd > 1 else ''
                cur = K.ref_sweep_float(cur, ax, grids, nus[ax], ms_, kw['gamma' + sfx], kw['h' + sfx], T,
                                        1.0 if nd == 1 else None)
            env.eq('total mass', mass(np.asarray(out), grids), mass(cur, grids))
            return
        si = K.sym_integration(contract=False)
        out = getattr(Integration, DRIVERS[nd - 1])(phi.copy(), xx, T, **kw)
        sweeps = si.rec.sweeps
        w = weights(list(xx))
        if nd == 1:
            # constant-parameter 1-D path has no kernel sweep: state the law on the result directly
            inj = mass(phi, grids) + T * theta0 / (2 * xx[1])
            ab0 = (1 / (2 * nus[0])) * 2 / (xx[1] - xx[0])
            ab1 = (1 / (2 * nus[0])) * 2 / (xx[L - 1] - xx[L - 2])
            o = np.asarray(out)
            env.eq('mass law', mass(o, grids), inj - T * (ab0 * w[0] * o[0] + ab1 * w[L - 1] * o[L - 1]))
            return
        env.holds('one sweep per moving population', len(sweeps) == len(moving))
        prev_mass = mass(phi, grids) + len(moving) * T * theta0 / (2 * xx[1])
        for sw, ax in zip(sweeps, moving):
            env.eq('%s: mass before' % sw.kernel, mass(sw.before, grids), prev_mass)
            c0 = (0,) * nd
            c1 = (L - 1,) * nd
            W0 = w[0] ** nd
            W1 = w[L - 1] ** nd
            ab0 = (1 / (2 * nus[ax])) * 2 / (xx[1] - xx[0])
            ab1 = (1 / (2 * nus[ax])) * 2 / (xx[L - 1] - xx[L - 2])
            want = mass(sw.before, grids) - T * (ab0 * W0 * sw.after[c0] + ab1 * W1 * sw.after[c1])
            env.eq('%s: mass after = before - corner outflow' % sw.kernel, mass(sw.after, grids), want)
            prev_mass = mass(sw.after, grids)
        env.eq('result mass', mass(np.asarray(out), grids), prev_mass)
    fz = ''.join('F' if f else '-' for f in frozen)
    return H.Unit('e2e-mass-%dpop-L%d-g%d-p%d-%s' % (nd, L, gi, pp, fz), body,
                  params=dict(pops=nd, L=L, grid=gi, point=pp, frozen=frozen), min_obligations=1, timeout_s=900,
                  expect_paths=1)


def _trapz_unit():
    def body(env):
        from dadi import PhiManip, Numerics
        if env.symbolic:
            K.sym_integration(contract=False)
        L = 4
        xx = env.grid('x', L)
        phi = env.array('p', (L, L, L))
        grids = [list(xx)] * 3
        for pop in (1, 2, 3):
            r = PhiManip.remove_pop(phi, xx, pop)
            env.same('remove_pop %d' % pop, np.asarray(r), marginal(phi, grids, [d for d in range(3) if d != pop - 1]))
        r = PhiManip.filter_pops(phi, xx, [2])
        env.same('filter_pops [2]', np.asarray(r), marginal(phi, grids, [1]))
        env.eq('trapz total', Numerics.trapz(Numerics.trapz(Numerics.trapz(phi, xx, axis=2), xx, axis=1), xx, axis=0),
               mass(phi, grids))
    return H.Unit('marginalisation-real-code-vs-oracle', body, min_obligations=10, timeout_s=300)


def units(tier, seed):
    thorough = tier == 'thorough'
    us = [_trapz_unit()]
    for name, nd, ax in K.KERNELS:
        Ls = [4] if nd <= 2 else [3]
        if thorough:
            Ls = {1: [4, 5], 2: [4, 5], 3: [3, 4], 4: [3, 4], 5: [3]}[nd]
        for L in Ls:
            us.append(_colsum_unit(name, nd, ax, L, False))
            if nd >= 2:
                us.append(_colsum_unit(name, nd, ax, L, True))
    # flags
    for fz in itertools.product([False, True], repeat=2):
        for nm in itertools.product([False, True], repeat=2):
            for mode in ('const', 'func'):
                us.append(_flags_unit(2, 4, list(fz), list(nm), mode))
    for nd in (3, 4, 5):
        combos = [tuple(i == j for i in range(nd)) for j in range(nd)] + [tuple(i < 2 for i in range(nd))]
        if thorough and nd <= 4:
            combos = list(itertools.product([False, True], repeat=nd))
        for fz in combos:
            for mode in (('const', 'func') if nd == 3 else ('func',)):
                us.append(_flags_unit(nd, 3, list(fz), [False] * nd, mode))
    # frozen + migration
    for nd in (2, 3, 4, 5):
        for fz in range(1, nd + 1):
            for mi in range(1, nd + 1):
                for mj in range(1, nd + 1):
                    if mi == mj:
                        continue
                    incident = fz in (mi, mj)
                    if not incident and not (thorough or (mi, mj) == ((fz % nd) + 1, ((fz + 1) % nd) + 1)):
                        continue
                    if not incident and nd == 2:
                        continue
                    us.append(_frozen_mig_unit(nd, fz, mi, mj, incident))
    # end to end
    npoints = 4 if thorough else 2
    for nd in (2, 3, 4, 5):
        L = 4 if nd <= 3 else 3
        fsets = [tuple(i == j for i in range(nd)) for j in range(nd)]
        if thorough and nd in (3, 4):
            fsets = [f for f in itertools.product([False, True], repeat=nd) if any(f) and not all(f)]
        for fi, fz in enumerate(fsets):
            for pp in range(npoints):
                gi = (fi + pp + seed) % 3
                us.append(_e2e_frozen_unit(nd, L, gi, list(fz), pp, seed, 1 + (pp % 2) if (nd <= 4 or thorough) else 1))
        subsets = [s for k in range(1, nd) for s in itertools.combinations(range(nd), k)]
        if nd == 5 and not thorough:
            subsets = [s for s in subsets if len(s) <= 2][:8]
        for si_, sub in enumerate(subsets):
            if L - 2 < 1:
                continue
            pp = si_ % npoints
            for mode in (('const', 'func') if nd <= 3 else ('func',)):
                us.append(_e2e_isolated_unit(nd, L, (si_ + seed) % 3, sub, pp, seed, mode))
    for nd in (1, 2, 3, 4, 5):
        L = 4 if nd <= 3 else 3
        for pp in range(npoints):
            us.append(_e2e_mass_unit(nd, L, (pp + seed) % 3, pp, seed, [False] * nd))
        if nd >= 2:
            us.append(_e2e_mass_unit(nd, L, seed % 3, 0, seed, [i == 0 for i in range(nd)]))
    return us


def concrete_setup():
    K.concrete_modules()
