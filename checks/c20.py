"""C20 - results are independent of call history and of the memory layout of array arguments; inputs are
never modified in place (fragment, see META).

(a) inputs unchanged / fresh result: the real functions are run on symbolic arguments (every feasible path);
    afterwards every argument array / list is compared, element by element, with a deep snapshot taken before
    the call (same z3 term / same object; anything else is handed to the solver as an equality) and the
    integrators' results must neither be the argument nor share memory with it.
(b) layout independence: one_pop..five_pops are run for one time step on C-ordered, Fortran-ordered,
    transposed, strided, offset and negatively-strided VIEWS of a symbolic base array (as phi) and of a grid
    buffer (as xx); the C kernels are interpreted from their LLVM IR with Cython's pointer semantics
    (`<double*> a.data` = address of the view's first element, contiguous walk).  Claim: result equals the result
    on a C-contiguous copy of the view, entry by entry, for all densities.
(c) caches: value-keyed caches (Spectrum_mod._dbeta_cache, Godambe.cache) with independent symbolic keys and
    integer-keyed caches (Numerics._projection_cache, _part_cache, ...; enumeration) must be transparent: a result
    obtained after other calls equals the result obtained with cold caches.
"""
import itertools
import logging
import math
from fractions import Fraction as Fr

import numpy as np

from engine import esf, shims
from engine import harness as H
from engine import symreal as S
from checks import kernels as K

META = dict(
    explanation=(
        'Fragment of C20 in three parts, all on the real code with solver reals as values.  '
        '(a) INPUTS UNCHANGED / FRESH RESULT: Integration.one_pop..five_pops (scalar and function-of-time parameters, '
        'frozen flags, the T==initial_t shortcut with one solver variable for both times, one time step otherwise; '
        'density, grid, every parameter symbolic; kernels interpreted from LLVM IR, tridiagonal solves as contracts), '
        'the Spectrum methods (S, pi, Watterson_theta, theta_L, Tajima_D, Zengs_E, Fst, log, project, marginalize, '
        'filter_pops, combine_pops, combine_two_pops, reorder_pops, scramble_pop_ids, fold, unfold, +, scalar *, the '
        'constructor with and without an explicit mask, mask_corners on a copy), Spectrum.from_phi (semi-analytic, direct, '
        'admix_props), Inference.ll / ll_multinom / *_per_bin / minus_* / optimal_sfs_scaling / optimally_scaled_sfs / '
        'linear_Poisson_residual, Inference._object_func (bounds with None holes, fixed_params, func_args, func_kwargs) '
        'and _project_params_up/down, Misc.perturb_params (list and array params, bound lists with and without None), '
        'the non-pulse PhiManip functions and the Numerics helpers are executed on symbolic arguments along every '
        'feasible path; afterwards every argument array / list / dict is compared with a deep snapshot taken before the '
        'call: same element object, else a solver equality of the two terms; masks, pop_ids, folded, extrap_x by value; '
        'list entries by identity.  The integrators (always) and the functions documented as returning a new object '
        '(fold, unfold, the PhiManip split/admix/remove functions) must return an object that is not the argument and '
        'shares no memory with it (numpy.shares_memory on data and mask buffers).  '
        '(b) LAYOUT INDEPENDENCE: one_pop..five_pops are run for one time step (real _compute_dt, T below every '
        'step) with exact rational grid and parameters and a SYMBOLIC density; the density is passed as C-ordered, '
        '[::1], Fortran-ordered, fully transposed, axis-swapped (first two / last two axes), [::2]-strided (first / last '
        'axis), [1:-1]-offset (first / last axis) and negatively strided (first / last / all axes) views of a larger '
        'symbolic base array, and the grid as contiguous, [::2]-strided, reversed ([::-1] of a decreasing buffer) and '
        '[1:-1]-offset views; the C kernels run in the IR interpreter with Cython\'s pointer semantics (<double*> a.data = '
        'address of the view\'s first element inside the base buffer, contiguous walk; all walks stay inside the base '
        'buffer by construction).  z3 decides, entry by entry, result(view) == result(private C-contiguous copy) - exact '
        'linear forms in the density, so the claim is for all densities.  The same through the public API: '
        'PhiManip.reorder_pops (a transposition) followed by an integration step; Spectrum.from_phi on views.  '
        '(c) CACHES: Spectrum_mod._dbeta_cache (key (n, tuple(grid))): from_phi on two independent symbolic grids, on '
        'grids that differ in exactly one interior point, with different sample sizes, and twice on the same grid, in 2-4 '
        'dimensions: first, second and repeated-first results equal the results with a cold cache; Godambe.cache (key '
        '(function, params, ns, pts)): get_godambe(just_hess=True) on a Poisson model with symbolic parameters, call pairs '
        'that differ in all parameters / the last parameter only / grid points / sample sizes / model function / nothing; '
        'mixed histories (from_phi on two symbolic grids, project, fold, marginalize, optimal_sfs_scaling) in three '
        'orders; integer-keyed caches (_projection_cache, _part_cache, _part_precalc_cache, _multinomln_cache, '
        '_BetaBinomln_cache) by ENUMERATION over a fixed operation set in three orders (symbolic spectrum entries, '
        'integer keys): warm == cold, cached weight arrays not modified by their users, partitions == an independent '
        'enumeration.'),
    functions=['dadi.Integration.one_pop', 'dadi.Integration.one_pop_X', 'dadi.Integration.two_pops', 'dadi.Integration.three_pops',
               'dadi.Integration.four_pops', 'dadi.Integration.five_pops', 'dadi.Integration._one/_two/_three_pops_const_params',
               'integration_c.pyx wrappers + implicit_*D* / implicit_precalc_* kernels + tridiag (LLVM IR)',
               'dadi.Spectrum methods: S pi Watterson_theta theta_L Tajima_D Zengs_E Fst log project marginalize filter_pops '
               'combine_pops combine_two_pops reorder_pops scramble_pop_ids fold unfold __add__ __rmul__ __new__ mask_corners',
               'dadi.Spectrum.from_phi (+ _from_phi_1D_analytic/_1D_direct/_2D..5D_linalg/_2D,3D_direct/_2D,3D_admix_props)',
               'dadi.Spectrum_mod.cached_dbeta', 'dadi.Inference.ll/ll_per_bin/ll_multinom/ll_multinom_per_bin/minus_ll/'
               'minus_ll_multinom/optimal_sfs_scaling/optimally_scaled_sfs/linear_Poisson_residual',
               'dadi.Inference._object_func/_project_params_up/_project_params_down', 'dadi.Misc.perturb_params',
               'dadi.Misc.ensure_1arg_func', 'dadi.PhiManip.phi_1D_to_2D/phi_2D_to_3D_split_1/_split_2/phi_2D_to_3D_admix/'
               'phi_3D_to_4D/phi_4D_to_5D/remove_pop/filter_pops/reorder_pops/phi_1D_snm',
               'dadi.Numerics.trapz/reverse_array/apply_anc_state_misid/make_anc_state_misid_func/make_extrap_func/'
               'make_extrap_log_func/linear_extrap/quadratic_extrap/cubic_extrap/end_point_first_derivs/intersect_masks/'
               '_cached_projection/cached_part/cached_part_precalc/multinomln/BetaBinomln/BetaBinomConvolution',
               'dadi.Godambe.get_godambe/get_hess/hessian_elem'],
    files=K.FILES + ['dadi/Spectrum_mod.py', 'dadi/Numerics.py', 'dadi/Inference.py', 'dadi/PhiManip.py', 'dadi/Godambe.py'],
    bounds=dict(
        quick='(a) integrators: L=3 grid points per axis, 1-5 populations, scalars and lambda t: const, no / one / all '
              'populations frozen, T==initial_t and one step; spectra: shapes (5,), (4,3), (3,3,2) with corner / no / '
              'interior masks, folded and unfolded; from_phi 1-4 dimensions L<=4; likelihoods on (5,) and folded-data '
              '(4,3); perturb_params 2 parameters.  (b) L=3, 1-5 populations (5 populations: 9 of 13 density patterns, '
              '3 of 4 grid patterns), one parameter set.  (c) dbeta: 2-D L=4, 3-D L=3, sample sizes 2-3; Godambe: 2 '
              'parameters, 3 unmasked bins; 8 projections x 3 orders; 8 mixed calls x 3 orders; partitions n<=3, ploidy<=4.',
        thorough='(a) integrators also L=4 (1-4 pops) and L=5 (1-3 pops), more frozen patterns; 5 more spectrum '
                 'configurations; perturb_params 3 parameters.  (b) L=4 for 1-4 populations (all patterns), L=5 for 1-2 '
                 'populations with a second parameter set, 5 populations L=4 (transposed, strided), all patterns for 5 '
                 'populations L=3, 3 more reorder_pops orders.  (c) dbeta 2-D L=5, 3-D L=4, 4-D L=3.'),
    outside=['PYTHONHASHSEED dependence and comparison against a fresh interpreter (no set/dict-order dependent code is '
             'symbolically distinguishable; not claimed)', 'dadi.Demes.cache (module-level event log; replaced by a no-op in '
             'the integration units) and everything reached through the demes package',
             'the pulse functions PhiManip.phi_*D_admix_* (documented "Alters phi in place")',
             'Spectrum.mask_corners / unmask_all / in-place operators (documented in-place)',
             'random sampling methods (sample, fixed_size_sample), file I/O, optimiser drivers (C12), CUDA paths',
             'T < initial_t (rejected with a ValueError that formats the numbers with %f)',
             'float round-off (doubles modelled as reals), dtypes other than float64, layouts of arrays other than phi and xx',
             'more than one time step in (a)/(b) (each step goes through the same code)',
             'll_per_bin diagnostics when model and data masks differ (covered by C11); Anscombe_Poisson_residual '
             '(fractional powers)',
             'freshness of results of functions other than the integrators and those documented as returning a new object '
             '(Spectrum.reorder_pops, PhiManip.reorder_pops and Numerics.reverse_array return views of their argument, '
             'PhiManip.filter_pops returns its argument when nothing is removed: recorded, not claimed)',
             'integer-keyed caches: enumeration over the listed operations only (nothing symbolic in the keys)'],
    stubs=['(a) integrators: tridiag/tridiag_premalloc -> contract (fresh unknowns); Integration._compute_dt -> one fresh '
           'dt with T - initial_t < dt; dadi.Demes event log -> no-op',
           '(b): no stubs besides the Demes event log: kernels and Thomas solver interpreted inline from LLVM IR, '
           'Cython layer parsed from integration_c.pyx with `<double*> a.data` = first element of the view',
           'numpy array constructors inside dadi modules -> object arrays; Spectrum.__new__ dtype default -> object',
           'scipy betainc/comb/gammaln -> exact rational versions (engine.esf); gammaln inside Inference -> uninterpreted LGAMMA; '
           'numpy log/sqrt/exp on solver reals -> uninterpreted; numpy.ma.sqrt fills masked slots with 1',
           'Misc.numpy.random.uniform -> solver reals in [0,1); numpy.maximum/minimum -> forking versions that accept +-inf',
           'Numerics.numpy.log10 -> zeros inside the make_extrap_func units (the decades test is C07\'s subject)'],
    assumptions=['doubles modelled as reals', 'recorded denominators != 0', 'model functions handed to Godambe are pure',
                 'Cython passes `<double*> ndarray.data` unchanged to C (pointer to the first element of the view), numpy '
                 '.copy() returns a C-contiguous array', 'z3, clang -O0 IR generation and the IR interpreter trusted; '
                 'counterexamples are replayed on the float code (ctypes build of the current C sources)'],
)

DRIVERS = ['one_pop', 'two_pops', 'three_pops', 'four_pops', 'five_pops']


# =================================================================================================
# snapshots (deep), comparison, freshness
# =================================================================================================
_ATTRS = ('folded', 'pop_ids', 'extrap_x')


class _Leaf:
    __slots__ = ('v',)

    def __init__(self, v):
        self.v = v


def _snap(obj):
    """Deep snapshot: element references of arrays (object dtype) or their bytes (numeric dtype), mask values,
    Spectrum attributes, list / tuple / dict structure."""
    if isinstance(obj, np.ndarray):
        d = np.asarray(np.ma.getdata(obj))
        s = dict(kind='array', obj=obj, type=type(obj), shape=d.shape, dtype=d.dtype)
        if d.dtype == object:
            s['elems'] = [d[idx] for idx in np.ndindex(*d.shape)]
        else:
            s['bytes'] = d.tobytes()
        if isinstance(obj, np.ma.MaskedArray):
            s['mask'] = np.array(np.ma.getmaskarray(obj), dtype=bool, copy=True)
            s['attrs'] = {}
            for a in _ATTRS:
                if hasattr(obj, a):
                    v = getattr(obj, a)
                    s['attrs'][a] = (v, _snap(v))
        return s
    if isinstance(obj, (list, tuple)):
        return dict(kind='seq', obj=obj, type=type(obj), items=[_snap(x) for x in obj])
    if isinstance(obj, dict):
        return dict(kind='dict', obj=obj, keys=list(obj.keys()), items=[_snap(obj[k]) for k in obj])
    return dict(kind='leaf', obj=obj, type=type(obj))


def _same_leaf(env, label, now, before):
    """One scalar leaf.  Returns number of obligations emitted."""
    if now is before:
        env.holds(label, True)
        return 1
    if isinstance(now, S.Sym) and isinstance(before, S.Sym):
        env.eq(label, now, before)          # rebuilt element: the solver decides whether the value is the same
        return 1
    if type(now) is not type(before):
        env.fail(label, 'was %s %r, now %s %r' % (type(before).__name__, before, type(now).__name__, now))
        return 1
    if isinstance(now, (float, np.floating)):
        env.holds(label, (now == before) or (now != now and before != before))
        return 1
    try:
        env.holds(label, bool(now == before))
    except Exception:
        env.holds(label, False)
    return 1


def _unchanged(env, label, snap, obj=None):
    """Obligations: the object snapshotted in `snap` is unchanged (deep).  Returns number of obligations."""
    obj = snap['obj'] if obj is None else obj
    kind = snap['kind']
    n = 0
    if kind == 'leaf':
        return _same_leaf(env, label, obj, snap['obj'])
    if kind == 'seq':
        if type(obj) is not snap['type'] or len(obj) != len(snap['items']):
            env.fail(label, 'sequence changed type/length')
            return 1
        for i, (it, x) in enumerate(zip(snap['items'], obj)):
            if it['kind'] == 'leaf':
                n += _same_leaf(env, '%s[%d]' % (label, i), x, it['obj'])
            else:
                if x is not it['obj']:
                    env.fail('%s[%d]' % (label, i), 'entry replaced by another object')
                    n += 1
                n += _unchanged(env, '%s[%d]' % (label, i), it, x)
        if not snap['items']:
            env.holds(label + ' (empty)', True)
            n += 1
        return n
    if kind == 'dict':
        if list(obj.keys()) != snap['keys']:
            env.fail(label, 'dict keys changed')
            return 1
        for k, it in zip(snap['keys'], snap['items']):
            n += _unchanged(env, '%s[%r]' % (label, k), it, obj[k])
        env.holds(label + ' (keys)', True)
        return n + 1
    # arrays
    d = np.asarray(np.ma.getdata(obj))
    if type(obj) is not snap['type'] or d.shape != snap['shape'] or d.dtype != snap['dtype']:
        env.fail(label, 'array changed type/shape/dtype')
        return 1
    if 'elems' in snap:
        for idx, before in zip(np.ndindex(*d.shape), snap['elems']):
            n += _same_leaf(env, '%s%s unchanged' % (label, list(idx)), d[idx], before)
    else:
        env.holds('%s unchanged (bytes)' % label, d.tobytes() == snap['bytes'])
        n += 1
    if 'mask' in snap:
        env.holds('%s mask unchanged' % label, bool(np.array_equal(np.ma.getmaskarray(obj), snap['mask'])))
        n += 1
        for a, (v, vs) in snap['attrs'].items():
            now = getattr(obj, a, None)
            if vs['kind'] == 'leaf':
                n += _same_leaf(env, '%s.%s' % (label, a), now, v)
            else:   # (an attribute object replaced by an equal one is fine: compared by value)
                n += _unchanged(env, '%s.%s' % (label, a), vs, now)
    return n


def _bufs(x):
    out = []
    if isinstance(x, np.ma.MaskedArray):
        out.append(np.asarray(np.ma.getdata(x)))
        if x._mask is not np.ma.nomask:
            out.append(np.asarray(x._mask))
    elif isinstance(x, np.ndarray):
        out.append(x)
    return out


def _shares(a, b):
    for x in _bufs(a):
        for y in _bufs(b):
            if x.size and y.size:
                try:
                    if np.shares_memory(x, y):
                        return True
                except Exception:   # exceeded max work: fall back to the bounds test (over-approximation)
                    if np.may_share_memory(x, y):
                        return True
    return False


def _fresh(env, label, res, arg):
    env.holds('%s is not the argument object' % label, res is not arg)
    env.holds('%s shares no memory with the argument' % label, not _shares(res, arg))
    return 2


def _quiet():
    for n in ('Spectrum_mod', 'Numerics', 'Inference', 'Integration', 'dadi', 'Misc'):
        logging.getLogger(n).setLevel(logging.CRITICAL)


def concrete_setup():
    import warnings
    _quiet()
    warnings.filterwarnings('ignore')


# =================================================================================================
# (a) integrators: inputs unchanged, result fresh (all parameters symbolic, contract mode)
# =================================================================================================
def _int_kwargs(env, nd, mode, frozen, const_params=False, seed=0):
    """Keyword arguments of the nd-population driver; returns (kw, m).  const_params: exact rationals instead of
    solver variables (inline-kernel units)."""
    wrap = (lambda v: v) if mode == 'const' else (lambda v: (lambda t, v=v: v))
    kw = {}
    NUS = [Fr(3, 2), Fr(2), Fr(1, 2), Fr(5, 4), Fr(3)]
    GAM = [Fr(-1, 2), Fr(2, 3), Fr(-3, 2), Fr(1), Fr(-1, 4)]
    HS = [Fr(1, 4), Fr(1, 2), Fr(3, 4), Fr(1, 3), Fr(2, 3)]
    MS = [Fr(1, 2), Fr(3, 2), Fr(1, 4), Fr(2), Fr(3, 4), Fr(5, 4), Fr(1, 3), Fr(7, 4)]

    def val(name, consts, k, **b):
        if const_params:
            return env.const(consts[(k + seed) % len(consts)])
        return env.real(name, **b)
    if nd == 1:
        kw['nu'] = wrap(val('nu', NUS, 0, lo=0, lo_open=True))
        kw['gamma'] = wrap(val('gamma', GAM, 0))
        kw['h'] = wrap(val('h', HS, 0, lo=0, hi=1))
        kw['beta'] = wrap(val('beta', [Fr(2), Fr(1, 2), Fr(3)], 0, lo=0, lo_open=True))
        if frozen[0]:
            kw['frozen'] = True
    else:
        k = 0
        for i in range(nd):
            kw['nu%d' % (i + 1)] = wrap(val('nu%d' % (i + 1), NUS, i, lo=0, lo_open=True))
            kw['gamma%d' % (i + 1)] = wrap(val('gamma%d' % (i + 1), GAM, i))
            kw['h%d' % (i + 1)] = wrap(val('h%d' % (i + 1), HS, i, lo=0, hi=1))
            if frozen[i]:
                kw['frozen%d' % (i + 1)] = True
        for i in range(nd):
            for j in range(nd):
                if i != j and not (frozen[i] or frozen[j]):
                    kw['m%d%d' % (i + 1, j + 1)] = wrap(val('m%d%d' % (i + 1, j + 1), MS, k, lo=0))
                    k += 1
    kw['theta0'] = wrap(val('theta0', [Fr(3, 2), Fr(5, 4)], 0, lo=0))
    return kw


def _int_inplace_unit(nd, L, mode, frozen, case):
    """case 'step': initial_t < T (one time step); case 'noop': T == initial_t (the documented shortcut; the same
    solver variable is passed for both, so the claim is for every value of T)."""
    fz = ''.join('F' if f else '-' for f in frozen)

    def body(env):
        from dadi import Integration
        xx = env.grid('x', L)
        phi = env.array('p', (L,) * nd)
        T = env.real('T', lo=0, lo_open=True, hi=Fr(1, 100))
        if case == 'noop':
            t0 = T
        else:
            # (T < initial_t is rejected with a ValueError whose message formats both numbers with %f: outside)
            t0 = env.real('t0', lo=0, hi=Fr(1, 100))
            env.assume(t0 < T)
        DT = env.real('DT', lo=0, lo_open=True)
        env.assume(T - t0 < DT)     # a single time step (the step-size rule itself is C03's subject)
        kw = _int_kwargs(env, nd, mode, frozen)
        kw['initial_t'] = t0
        fn = getattr(Integration, DRIVERS[nd - 1])
        saved = Integration._compute_dt
        try:
            if env.symbolic:
                K.sym_integration()
                Integration._compute_dt = lambda *a: DT
            else:
                K.concrete_modules()
                Integration._compute_dt = lambda *a: np.inf
            s_phi, s_xx = _snap(phi), _snap(xx)
            out = fn(phi, xx, T, **kw)
            _unchanged(env, 'phi', s_phi)
            _unchanged(env, 'xx', s_xx)
            _fresh(env, 'result', out, phi)
            env.holds('result shares no memory with xx', not _shares(out, xx))
            if case == 'noop' or all(frozen):
                env.same('nothing to integrate: result == phi', np.asarray(out), np.asarray(phi))
        finally:
            Integration._compute_dt = saved
    return H.Unit('inplace-int-%dpop-%s-L%d-frozen%s-%s' % (nd, mode, L, fz, case), body,
                  params=dict(pops=nd, L=L, mode=mode, frozen=list(frozen), case=case), setup=_quiet,
                  min_obligations=L ** nd + L + 3, expect_paths=1, timeout_s=900, maxpaths=64)


def _int_X_unit(L, case):
    """Integration.one_pop_X (X-chromosome variant, constant parameters only)."""
    def body(env):
        from dadi import Integration
        xx = env.grid('x', L)
        phi = env.array('p', (L,))
        T = env.real('T', lo=0, lo_open=True, hi=Fr(1, 100))
        if case == 'noop':
            t0 = T
        else:
            t0 = env.real('t0', lo=0, hi=Fr(1, 100))
            env.assume(t0 < T)
        DT = env.real('DT', lo=0, lo_open=True)
        env.assume(T - t0 < DT)
        kw = dict(nu=env.real('nu', lo=0, lo_open=True), gamma=env.real('gamma'), h=env.real('h', lo=0, hi=1),
                  beta=env.real('beta', lo=0, lo_open=True), alpha=env.real('alpha', lo=0, lo_open=True),
                  theta0=env.real('theta0', lo=0), initial_t=t0)
        saved = Integration._compute_dt
        try:
            if env.symbolic:
                K.sym_integration()
                Integration._compute_dt = lambda *a: DT
            else:
                K.concrete_modules()
                Integration._compute_dt = lambda *a: np.inf
            s_phi, s_xx = _snap(phi), _snap(xx)
            out = Integration.one_pop_X(phi, xx, T, **kw)
            _unchanged(env, 'phi', s_phi)
            _unchanged(env, 'xx', s_xx)
            _fresh(env, 'result', out, phi)
        finally:
            Integration._compute_dt = saved
    return H.Unit('inplace-int-1popX-const-L%d-%s' % (L, case), body, params=dict(L=L, case=case), setup=_quiet,
                  min_obligations=2 * L + 2, expect_paths=1, timeout_s=600, maxpaths=64)


# =================================================================================================
# (b) layout independence (inline kernels, rational grid and parameters, symbolic density)
# =================================================================================================
GRID = {3: [0, Fr(1, 4), 1], 4: [0, Fr(1, 8), Fr(1, 2), 1], 5: [0, Fr(1, 16), Fr(1, 4), Fr(5, 8), 1]}
# grid buffers for the xx-view patterns: the view is GRID[L]; the other cells hold values that make the memory the
# kernel actually walks (L consecutive cells from the view's first element) another valid grid
ALT = {3: [0, Fr(3, 5), 1], 4: [0, Fr(1, 5), Fr(7, 10), 1], 5: [0, Fr(1, 10), Fr(3, 10), Fr(4, 5), 1]}

PHI_PATTERNS = ('C', 'slice-unit', 'F', 'T', 'swap01', 'swaplast', 'step2-first', 'step2-last', 'offset-first', 'offset-last',
                'neg-first', 'neg-last', 'neg-all')
XX_PATTERNS = ('C', 'step2', 'neg', 'offset')


def _mk(env, name, shape, order='C'):
    a = env.array(name, shape)
    if order == 'F':
        b = np.empty(shape, dtype=a.dtype, order='F')
        b[...] = a
        return b
    return a


def _phi_view(env, nd, L, pat):
    """(base, view): view.shape == (L,)*nd; base owns the memory.  The L**nd cells that follow the view's first
    element in memory lie inside base (what a kernel handed `view.data` walks)."""
    full = (L,) * nd
    if pat == 'C':
        base = _mk(env, 'p', full)
        v = base
    elif pat == 'slice-unit':   # base[::1]: a view object, same memory order
        base = _mk(env, 'p', full)
        v = base[::1]
    elif pat == 'F':
        base = _mk(env, 'p', full, 'F')
        v = base
    elif pat == 'T':
        base = _mk(env, 'p', full)
        v = base.T
    elif pat == 'swap01':
        base = _mk(env, 'p', full)
        v = base.swapaxes(0, 1) if nd >= 2 else base
    elif pat == 'swaplast':
        base = _mk(env, 'p', full)
        v = base.swapaxes(nd - 2, nd - 1) if nd >= 2 else base
    elif pat == 'step2-first':
        base = _mk(env, 'p', (2 * L - 1,) + full[1:])
        v = base[::2]
    elif pat == 'step2-last':
        base = _mk(env, 'p', full[:-1] + (2 * L - 1,))
        v = base[..., ::2]
    elif pat == 'offset-first':     # [1:-1] of a padded array along the first axis: still C-contiguous
        base = _mk(env, 'p', (L + 2,) + full[1:])
        v = base[1:-1]
    elif pat == 'offset-last':      # [1:-1] along the last axis: rows are no longer adjacent
        base = _mk(env, 'p', full[:-1] + (L + 2,))
        v = base[..., 1:-1]
    elif pat == 'neg-first':
        base = _mk(env, 'p', (2 * L - 1,) + full[1:])
        v = base[L - 1::-1]
    elif pat == 'neg-last':
        base = _mk(env, 'p', (full[:-1] if nd > 1 else ()) + (2 * L,))
        v = base[..., L - 1::-1]
        if nd > 1:   # the walk from the last row's first element needs L**nd cells: pad with one extra leading block
            base = _mk(env, 'p', (2 * L,) + full[1:-1] + (2 * L,))
            v = base[:L, ..., L - 1::-1]
    elif pat == 'neg-all':
        base = _mk(env, 'p', tuple(2 * L for _ in range(nd)))
        v = base[tuple(slice(L - 1, None, -1) for _ in range(nd))]
    else:
        raise KeyError(pat)
    assert v.shape == full, (pat, v.shape)
    _inside(base, v, L ** nd)
    return base, v


def _inside(base, v, ncells):
    """Harness guard: the contiguous run of ncells cells starting at v's first element lies inside base's buffer
    (so that the float replay, which hands real pointers to the compiled kernels, stays inside allocated memory)."""
    b = base
    while isinstance(b.base, np.ndarray):
        b = b.base
    flat = b.ravel(order='K')
    lo = flat.__array_interface__['data'][0]
    off = (v.__array_interface__['data'][0] - lo) // v.itemsize
    if not (0 <= off and off + ncells <= flat.size):
        raise AssertionError('harness: view walk leaves the base buffer (%d+%d > %d)' % (off, ncells, flat.size))


def _xx_view(env, L, pat):
    g, alt = GRID[L], ALT[L]
    if pat == 'C':
        base = env.constarray(g)
        v = base
    elif pat == 'step2':       # every other cell of a finer grid; the cells in between are other grid points
        cells = []
        for i in range(L - 1):
            cells += [g[i], (Fr(g[i]) + Fr(g[i + 1])) / 2]
        cells.append(g[L - 1])
        base = env.constarray(cells)
        v = base[::2]
    elif pat == 'neg':         # reversed view of a decreasing buffer; the cells after it hold another grid
        base = env.constarray(list(reversed(g)) + list(alt[1:]))
        v = base[L - 1::-1]
    elif pat == 'offset':      # [1:-1] of a padded buffer: contiguous
        base = env.constarray([Fr(-1)] + list(g) + [Fr(2)])
        v = base[1:-1]
    else:
        raise KeyError(pat)
    _inside(base, v, L)
    return base, v


def _layout_unit(which, nd, L, mode, pat, seed=0):
    """which: 'phi' (view pattern on the density) or 'xx' (view pattern on the grid)."""
    def body(env):
        from dadi import Integration
        if which == 'phi':
            base, v = _phi_view(env, nd, L, pat)
            xx = env.constarray(GRID[L])
            xc = xx
        else:
            v = env.array('p', (L,) * nd)
            xbase, xx = _xx_view(env, L, pat)
            xc = np.array(xx, copy=True, order='C')
        c = np.array(v, copy=True, order='C')          # numpy.ascontiguousarray(view), always a private copy
        v_arg = v
        if env.symbolic:
            K.sym_integration(contract=False)
        else:
            K.concrete_modules()
        kw = _int_kwargs(env, nd, mode, [False] * nd, const_params=True, seed=seed)
        T = env.const(Fr(1, 50000))     # below every population's own step: exactly one time step in both runs
        fn = getattr(Integration, DRIVERS[nd - 1])
        want = np.asarray(fn(c, xc, T, **kw))
        want = np.array(want, copy=True)
        got = np.asarray(fn(v_arg, xx, T, **kw))
        env.holds('shape', got.shape == want.shape)
        if got.shape == want.shape:
            env.same('result(view) == result(contiguous copy)', got, want)
    return H.Unit('layout-%s-%dpop-%s-L%d-%s' % (which, nd, mode, L, pat), body,
                  params=dict(arg=which, pops=nd, L=L, mode=mode, pattern=pat), setup=_quiet,
                  min_obligations=L ** nd, expect_paths=1, timeout_s=900)




def _reorder_unit(nd, L, order):
    """PhiManip.reorder_pops (an axis transposition) followed by one integration step: the public-API route by
    which a transposed view reaches the integrators (models with population reordering, the demes front end)."""
    def body(env):
        from dadi import Integration, PhiManip
        base = env.array('p', (L,) * nd)
        xx = env.constarray(GRID[L])
        if env.symbolic:
            K.sym_integration(contract=False)
        else:
            K.concrete_modules()
        s_base = _snap(base)
        order_l = list(order)
        s_order = _snap(order_l)
        v = PhiManip.reorder_pops(base, order_l)
        _unchanged(env, 'reorder_pops: phi', s_base)
        _unchanged(env, 'reorder_pops: neworder', s_order)
        want_v = np.empty((L,) * nd, dtype=base.dtype)
        for idx in np.ndindex(*want_v.shape):      # out[i_0..] = phi[j], j[order[k]-1] = i_k
            src = [0] * nd
            for k in range(nd):
                src[order[k] - 1] = idx[k]
            want_v[idx] = base[tuple(src)]
        env.same('reorder_pops value', np.asarray(v), want_v)
        kw = _int_kwargs(env, nd, 'func', [False] * nd, const_params=True)
        T = env.const(Fr(1, 50000))
        fn = getattr(Integration, DRIVERS[nd - 1])
        want = np.array(np.asarray(fn(want_v.copy(), xx, T, **kw)), copy=True)
        got = np.asarray(fn(v, xx, T, **kw))
        env.same('integrate(reorder_pops(phi)) == integrate(contiguous copy)', got, want)
    return H.Unit('layout-reorder-%dpop-L%d-order%s' % (nd, L, ''.join(map(str, order))), body,
                  params=dict(pops=nd, L=L, order=list(order)), setup=_quiet, min_obligations=2 * L ** nd,
                  expect_paths=1, timeout_s=900)


# =================================================================================================
# (a) Spectrum methods, likelihoods, optimiser helpers, PhiManip, Numerics: inputs unchanged
# =================================================================================================
def _lgamma_stub(x):
    """scipy.special.gammaln inside Inference -> uninterpreted LGAMMA entrywise (mask preserved)."""
    d = np.ma.getdata(x)
    if not (isinstance(d, np.ndarray) and d.dtype == object) and not isinstance(d, S.Sym):
        from scipy.special import gammaln
        return gammaln(x)
    d = np.asarray(d, dtype=object)
    out = np.empty(d.shape, dtype=object)
    for idx in np.ndindex(*d.shape):
        out[idx] = S.Sym(S.UF['LGAMMA'](S.Sym.lift(d[idx]).t))
    if isinstance(x, np.ma.MaskedArray):
        return np.ma.masked_array(out, mask=np.ma.getmaskarray(x).copy())
    return out if out.ndim else out[()]


class _MaFill(shims.MaShim):
    """numpy.ma.sqrt on object arrays: masked slots of the result hold 1 instead of 0, so that a following masked
    division (numpy.ma divides the raw data and masks afterwards) does not divide a Sym by an exact zero."""
    def sqrt(self, x):
        r = shims.MaShim.sqrt(self, x)
        if isinstance(r, np.ma.MaskedArray) and np.ma.getdata(r).dtype == object:
            d = np.ma.getdata(r)
            m = np.ma.getmaskarray(r)
            for idx in np.ndindex(*d.shape):
                if m[idx]:
                    d[idx] = 1
        return r


def _setup_spec():
    import dadi
    from dadi import Inference, Numerics, Spectrum_mod
    _quiet()
    shims.install_numpy(Numerics)
    shims.install_numpy(Spectrum_mod)
    sh = shims.install_numpy(Inference)
    object.__setattr__(sh, 'ma', _MaFill(np.ma))
    shims.patch_spectrum_dtype(dadi.Spectrum)
    shims.set_attr(Spectrum_mod, 'betainc', esf.betainc)
    shims.set_attr(Spectrum_mod, 'comb', esf.comb)
    shims.set_attr(Numerics, 'gammaln', esf.gammaln)
    shims.set_attr(Numerics, 'comb', esf.comb)
    shims.set_attr(Inference, 'gammaln', _lgamma_stub)
    Spectrum_mod._dbeta_cache.clear()
    Numerics._projection_cache.clear()


POPS = ['alpha', 'beta', 'gamma', 'delta']


def _mkspec(env, name, shape, mask='corners', folded=False, positive=True, lo=None, hi=None):
    """A Spectrum with symbolic data.  mask: 'corners' | 'none' | 'interior' (corners + one interior entry)."""
    import dadi
    d = np.empty(shape, dtype=object if env.symbolic else float)
    for idx in np.ndindex(*shape):
        d[idx] = env.real('%s_%s' % (name, '_'.join(map(str, idx))), lo=(Fr(1, 10) if positive else lo), hi=(100 if positive else hi))
    m = np.zeros(shape, dtype=bool)
    if mask == 'interior':
        m[tuple(min(1, s - 1) for s in shape)] = True
    fs = dadi.Spectrum(d, mask=m, mask_corners=(mask != 'none'), pop_ids=list(POPS[:len(shape)]))
    if folded:
        fs = fs.fold()
    return fs


def _spec_ops(shape):
    """name -> (callable(fs, args) , list-arguments) for a spectrum of this shape."""
    import dadi
    nd = len(shape)
    ns = [s - 1 for s in shape]
    ops = {}
    ops['S'] = (lambda fs, a: fs.S(), [])
    ops['constructor'] = (lambda fs, a: dadi.Spectrum(fs), [])
    ops['constructor-remask'] = (lambda fs, a: dadi.Spectrum(fs, mask_corners=True), [])
    ops['copy-mask_corners'] = (lambda fs, a: _mask_copy(fs), [])
    ops['add'] = (lambda fs, a: fs + fs, [])
    ops['mul-scalar'] = (lambda fs, a: 3 * fs, [])
    ops['project'] = (lambda fs, a: fs.project(a[0]), [[max(n - 1, 1) for n in ns]])
    ops['project-same'] = (lambda fs, a: fs.project(a[0]), [list(ns)])
    ops['log'] = (lambda fs, a: fs.log(), [])
    if nd == 1:
        for nm in ('pi', 'Watterson_theta', 'theta_L', 'Tajima_D', 'Zengs_E'):
            ops[nm] = ((lambda fs, a, nm=nm: getattr(fs, nm)()), [])
    if nd >= 2:
        ops['Fst'] = (lambda fs, a: fs.Fst(), [])
        ops['marginalize-first'] = (lambda fs, a: fs.marginalize(a[0]), [[0]])
        ops['marginalize-last-nocorners'] = (lambda fs, a: fs.marginalize(a[0], mask_corners=False), [[nd - 1]])
        ops['filter_pops'] = (lambda fs, a: fs.filter_pops(a[0]), [[nd]])
        ops['combine_pops'] = (lambda fs, a: fs.combine_pops(a[0]), [[2, 1]])
        ops['combine_two_pops'] = (lambda fs, a: fs.combine_two_pops(a[0]), [[nd, 1]])
        ops['reorder_pops'] = (lambda fs, a: fs.reorder_pops(a[0]), [[2, 1] + list(range(3, nd + 1))])
        ops['scramble_pop_ids'] = (lambda fs, a: fs.scramble_pop_ids(), [])
    if nd >= 3:
        ops['marginalize-two'] = (lambda fs, a: fs.marginalize(a[0]), [[2, 0]])
        ops['filter_pops-two'] = (lambda fs, a: fs.filter_pops(a[0]), [[3, 1]])
        ops['combine_pops-three'] = (lambda fs, a: fs.combine_pops(a[0]), [[3, 1, 2]])
        ops['reorder_pops-cycle'] = (lambda fs, a: fs.reorder_pops(a[0]), [[3, 1, 2]])
    return ops


def _mask_copy(fs):
    """The documented in-place method mask_corners() applied to a COPY must not reach the original's mask."""
    g = fs.copy()
    g.mask_corners()
    return g


def _spec_unit(shape, mask, folded, op):
    def body(env):
        fs = _mkspec(env, 'd', shape, mask=mask, folded=folded)
        fn, largs = _spec_ops(shape)[op]
        largs = [list(a) for a in largs]
        s_fs = _snap(fs)
        s_args = [_snap(a) for a in largs]
        res = fn(fs, largs)
        _unchanged(env, 'spectrum', s_fs)
        for k, sa in enumerate(s_args):
            _unchanged(env, 'list argument %d' % k, sa)
        env.holds('result computed', res is not None)
    nm = 'x'.join(map(str, shape))
    return H.Unit('inplace-spectrum-%s-%s%s-%s' % (nm, mask, '-folded' if folded else '', op), body,
                  params=dict(shape=list(shape), mask=mask, folded=folded, op=op), setup=_setup_spec,
                  min_obligations=int(np.prod(shape)) + 2, timeout_s=600, maxpaths=256)


def _fold_unit(shape, mask, direction):
    """fold / unfold are documented as 'not done in-place. The return value is a new Spectrum object.'"""
    def body(env):
        fs = _mkspec(env, 'd', shape, mask=mask, folded=(direction == 'unfold'))
        s_fs = _snap(fs)
        res = fs.fold() if direction == 'fold' else fs.unfold()
        _unchanged(env, 'spectrum', s_fs)
        _fresh(env, 'documented new Spectrum', res, fs)
        env.holds('folded flag of the result', bool(res.folded) == (direction == 'fold'))
    nm = 'x'.join(map(str, shape))
    return H.Unit('inplace-spectrum-%s-%s-%s' % (nm, mask, direction), body,
                  params=dict(shape=list(shape), mask=mask, op=direction), setup=_setup_spec,
                  min_obligations=int(np.prod(shape)) + 4, timeout_s=600, maxpaths=64)


def _from_phi_unit(nd, L, ns, variant):
    """Spectrum.from_phi: phi, the ns list and the grid list are unchanged (variant: 'linalg' | 'direct' | 'admix')."""
    def body(env):
        import dadi
        xx = env.constarray(GRID[L])
        phi = env.array('p', (L,) * nd)
        ns_l = list(ns)
        xxs = [xx] * nd
        kw = {}
        if variant == 'direct':
            kw['force_direct'] = True
        elif variant == 'admix':
            ident = [[env.const(Fr(int(i == j))) for j in range(nd)] for i in range(nd)]
            ident[0][0], ident[0][nd - 1] = env.const(Fr(3, 4)), env.const(Fr(1, 4))
            kw['admix_props'] = ident
        pids = list(POPS[:nd])
        kw['pop_ids'] = pids
        snaps = [_snap(phi), _snap(ns_l), _snap(xxs), _snap(pids)] + ([_snap(kw['admix_props'])] if variant == 'admix' else [])
        fs = dadi.Spectrum.from_phi(phi, ns_l, xxs, **kw)
        for lab, sn in zip(('phi', 'ns', 'xxs', 'pop_ids', 'admix_props'), snaps):
            _unchanged(env, lab, sn)
        env.holds('result shares no memory with phi', not _shares(fs, phi))
    return H.Unit('inplace-from_phi-%dd-L%d-n%s-%s' % (nd, L, ''.join(map(str, ns)), variant), body,
                  params=dict(pops=nd, L=L, ns=list(ns), variant=variant), setup=_setup_spec,
                  min_obligations=L ** nd + nd + 2, timeout_s=600, maxpaths=64)


# ---- likelihoods
LL_FUNCS = ('ll', 'll_multinom', 'll_per_bin', 'll_multinom_per_bin', 'optimal_sfs_scaling', 'optimally_scaled_sfs',
            'minus_ll', 'minus_ll_multinom', 'linear_Poisson_residual')


def _ll_unit(shape, config, fname):
    """config: 'plain' (same masks) | 'folded-data' (model folded inside) | 'masks-differ' (only for the functions
    that intersect masks without the diagnostic scans)."""
    def body(env):
        from dadi import Inference
        model = _mkspec(env, 'm', shape, mask='corners')
        data = _mkspec(env, 'd', shape, mask=('interior' if config == 'masks-differ' else 'corners'),
                       folded=(config == 'folded-data'))
        s_m, s_d = _snap(model), _snap(data)
        res = getattr(Inference, fname)(model, data)
        _unchanged(env, 'model', s_m)
        _unchanged(env, 'data', s_d)
        env.holds('result computed', res is not None)
        if isinstance(res, np.ndarray):
            env.holds('result shares no memory with model/data', not _shares(res, model) and not _shares(res, data))
    nm = 'x'.join(map(str, shape))
    return H.Unit('inplace-inference-%s-%s-%s' % (fname, nm, config), body,
                  params=dict(shape=list(shape), config=config, function=fname), setup=_setup_spec,
                  min_obligations=2 * int(np.prod(shape)) + 3, timeout_s=600, maxpaths=256)


# ---- optimiser helpers
def _object_func_unit(multinom, fixed):
    def body(env):
        from dadi import Inference
        import dadi
        data = _mkspec(env, 'd', (5,))
        B = [_mkspec(env, 'b%d' % j, (5,), mask='none') for j in range(2)]
        p = [env.real('q%d' % j, lo=Fr(1, 10), hi=10) for j in range(2)]
        lo = [env.real('lo0', lo=0, hi=1), None]
        up = [None, env.real('up1', lo=5, hi=20)]
        fx = [None, env.real('fix1', lo=Fr(1, 10), hi=10)] if fixed else None
        extra = [env.real('w', lo=1, hi=2)]
        kwargs = {'scale': env.real('sc', lo=1, hi=2)}
        pts = [10, 20]

        def model(params, ns, w, pts=None, scale=1):
            v = np.asarray(np.ma.getdata(B[0])) * params[0] * w + np.asarray(np.ma.getdata(B[1])) * params[1] * scale
            return dadi.Spectrum(v)
        pin = [p[0]] if fixed else list(p)
        args = dict(params=pin, lower_bound=lo, upper_bound=up, func_args=extra, func_kwargs=kwargs, pts=pts)
        if fixed:
            args['fixed_params'] = fx
        snaps = {k: _snap(v) for k, v in args.items()}
        s_d = _snap(data)
        import io
        r = Inference._object_func(args['params'], data, model, pts, lower_bound=lo, upper_bound=up, verbose=0,
                                   multinom=multinom, func_args=extra, func_kwargs=kwargs,
                                   fixed_params=fx, output_stream=io.StringIO())
        for k, sn in snaps.items():
            _unchanged(env, k, sn)
        _unchanged(env, 'data', s_d)
        env.holds('value returned', r is not None)
    return H.Unit('inplace-optim-object_func-%s%s' % ('multinom' if multinom else 'poisson', '-fixed' if fixed else ''),
                  body, params=dict(multinom=multinom, fixed=fixed), setup=_setup_spec, min_obligations=12,
                  timeout_s=600, maxpaths=256)


def _project_params_unit():
    def body(env):
        from dadi import Inference
        p = [env.real('q%d' % j) for j in range(3)]
        fx = [None, env.real('f1'), None]
        for nm, pin in (('_project_params_down', list(p)), ('_project_params_up', [p[0], p[2]])):
            s_p, s_f = _snap(pin), _snap(fx)
            r = getattr(Inference, nm)(pin, fx)
            _unchanged(env, nm + ': pin', s_p)
            _unchanged(env, nm + ': fixed_params', s_f)
            env.holds(nm + ': result is a new object', r is not pin and r is not fx)
            want = [p[0], p[2]] if nm.endswith('down') else [p[0], fx[1], p[2]]
            env.same(nm + ': value', np.asarray(r), np.asarray(want, dtype=object if env.symbolic else float))
    return H.Unit('inplace-optim-project_params', body, setup=_setup_spec, min_obligations=12, timeout_s=300)


class _Rnd:
    """numpy.random stand-in inside Misc (symbolic run): uniform(size=n) -> solver reals in [0, 1)."""
    def __init__(self, env):
        self.env = env

    def uniform(self, low=0.0, high=1.0, size=None):
        n = int(size)
        a = np.empty(n, dtype=object)
        for i in range(n):
            a[i] = self.env.real('u%d' % i, lo=0, hi=1, hi_open=True)
        return a

    def __getattr__(self, k):
        return getattr(np.random, k)


def _isinf(b):
    return isinstance(b, (float, np.floating)) and math.isinf(b)


def _minmax(kind):
    def f(a, b):
        a = np.asarray(a, dtype=object)
        b = np.asarray(b, dtype=object)
        a, b = np.broadcast_arrays(a, b)
        out = np.empty(a.shape, dtype=object)
        for idx in np.ndindex(*a.shape):
            x, y = a[idx], b[idx]
            if _isinf(y):
                out[idx] = x if ((y < 0) == (kind == 'max')) else y
            elif _isinf(x):
                out[idx] = y if ((x < 0) == (kind == 'max')) else x
            elif kind == 'max':
                out[idx] = x if bool(x >= y) else y
            else:
                out[idx] = x if bool(x <= y) else y
        return out
    return f


def _perturb_unit(n, bpat, aslist):
    """Misc.perturb_params(params, fold, lower_bound, upper_bound) with list arguments.
    bpat: 'none' | 'both' (every bound a number) | 'holes' (None entries, as the optimisers accept them)."""
    def body(env):
        from dadi import Misc
        p = [env.real('q%d' % i, lo=Fr(1, 10), hi=10) for i in range(n)]
        lo = up = None
        if bpat in ('both', 'holes'):
            lo = [env.real('lo%d' % i, lo=0, hi=Fr(1, 20)) for i in range(n)]
            up = [env.real('up%d' % i, lo=20, hi=40) for i in range(n)]
        if bpat == 'holes':
            lo[n - 1] = None
            up[0] = None
        params = list(p) if aslist else np.array(p, dtype=object if env.symbolic else float)
        snaps = [('params', _snap(params))] + ([('lower_bound', _snap(lo)), ('upper_bound', _snap(up))] if lo is not None else [])
        saved = Misc.numpy
        try:
            if env.symbolic:
                sh = shims.NumpyShim(np, overrides=dict(maximum=_minmax('max'), minimum=_minmax('min'), random=_Rnd(env)))
                Misc.numpy = sh
            res = Misc.perturb_params(params, fold=1, lower_bound=lo, upper_bound=up)
        finally:
            Misc.numpy = saved
        for lab, sn in snaps:
            _unchanged(env, lab, sn)
        env.holds('result is a new object', res is not params)
        env.holds('result length', len(res) == n)
    return H.Unit('inplace-misc-perturb_params-n%d-%s-%s' % (n, bpat, 'list' if aslist else 'array'), body,
                  params=dict(n=n, bounds=bpat, aslist=aslist), setup=_quiet, min_obligations=n + 2, timeout_s=300,
                  maxpaths=256)


# ---- PhiManip (non-pulse functions) and Numerics helpers
def _phimanip_unit(fname):
    def body(env):
        from dadi import PhiManip
        if env.symbolic:
            K.sym_integration(contract=False)
        L = 4
        xx = env.constarray(GRID[L])
        f1, f2, f3 = env.const(Fr(1, 3)), env.const(Fr(1, 4)), env.const(Fr(1, 5))
        if fname == 'phi_1D_to_2D':
            phi = env.array('p', (L,))
            args = [xx, phi]
        elif fname in ('phi_2D_to_3D_split_1', 'phi_2D_to_3D_split_2'):
            phi = env.array('p', (L, L))
            args = [xx, phi]
        elif fname == 'phi_2D_to_3D_admix':
            phi = env.array('p', (L, L))
            args = [phi, f1, xx, xx, xx]
        elif fname == 'phi_3D_to_4D':
            phi = env.array('p', (3, 3, 3))
            xx = env.constarray(GRID[3])
            args = [phi, f1, f2, xx, xx, xx, xx]
        elif fname == 'phi_4D_to_5D':
            phi = env.array('p', (3, 3, 3, 3))
            xx = env.constarray(GRID[3])
            args = [phi, f1, f2, f3, xx, xx, xx, xx, xx]
        elif fname == 'remove_pop':
            phi = env.array('p', (L, L, L))
            args = [phi, xx, 2]
        elif fname == 'filter_pops':
            phi = env.array('p', (L, L, L))
            args = [phi, xx, [3, 1]]
        elif fname == 'reorder_pops':
            phi = env.array('p', (L, L, L))
            args = [phi, [3, 1, 2]]
        elif fname == 'phi_1D_snm':
            phi = None
            args = [xx]
        else:
            raise KeyError(fname)
        snaps = [_snap(a) for a in args]
        res = getattr(PhiManip, fname)(*args)
        for k, sn in enumerate(snaps):
            _unchanged(env, 'argument %d' % k, sn)
        env.holds('result computed', isinstance(res, np.ndarray))
        if fname not in ('reorder_pops',) and phi is not None:
            # documented as returning a new array ("A new ...-dimensional phi array" / "Returns new phi")
            _fresh(env, 'result', res, phi)
        if fname != 'reorder_pops':
            env.holds('result shares no memory with the grid', not _shares(res, xx))
    return H.Unit('inplace-phimanip-%s' % fname, body, params=dict(function=fname), setup=_quiet, min_obligations=6,
                  timeout_s=600, maxpaths=64)


def _numerics_unit(fname):
    def body(env):
        import dadi
        from dadi import Numerics
        if fname == 'trapz':
            yy = env.array('y', (3, 4))
            xx = env.grid('x', 4)
            args = [yy, xx]
            call = lambda: Numerics.trapz(yy, xx, axis=1)
        elif fname == 'reverse_array':
            yy = env.array('y', (3, 4))
            args = [yy]
            call = lambda: Numerics.reverse_array(yy)
        elif fname == 'apply_anc_state_misid':
            fs = _mkspec(env, 'd', (4, 3))
            pm = env.real('pm', lo=0, hi=1)
            args = [fs]
            call = lambda: Numerics.apply_anc_state_misid(fs, pm)
        elif fname == 'make_anc_state_misid_func':
            fs = _mkspec(env, 'd', (5,))
            params = [env.real('q0'), env.real('q1'), env.real('pm', lo=0, hi=1)]
            ns, pts = [4], [10, 20]
            args = [params, ns, pts]
            f = Numerics.make_anc_state_misid_func(lambda p, ns_, pts_: fs * p[0] + p[1])
            call = lambda: f(params, ns, pts)
        elif fname in ('extrap', 'extrap_log'):
            k = 3
            xs = [env.real('x%d' % i, lo=Fr(1, 100), hi=1) for i in range(k)]
            for i in range(k - 1):
                env.assume(xs[i] < xs[i + 1])
            c = env.array('c', (k, 2))
            pts = [10, 20, 30]
            xl = list(xs)
            params = [env.real('q0', lo=1, hi=2)]

            def model(p, pts_):
                i = pts_ // 10 - 1
                v = c[0] * p[0] + c[1] * xs[i] + c[2] * xs[i] * xs[i]
                return np.asarray(np.exp(v) if fname == 'extrap_log' else v)
            args = [pts, xl, params]
            mk = Numerics.make_extrap_log_func if fname == 'extrap_log' else Numerics.make_extrap_func
            f = mk(model, extrap_x_l=xl, fail_mag=10 ** 6) if fname == 'extrap' else mk(model, extrap_x_l=xl)
            if env.symbolic:
                # the decades test (numpy.log10 of an object array) is C07's subject: here it is switched off by
                # handing log10 a stub that returns zeros (never "failed")
                object.__getattribute__(Numerics.numpy, '_o')['log10'] = lambda x: np.zeros(np.shape(x))
            call = lambda: f(params, pts)
        elif fname == 'lagrange':
            ys = [env.array('y%d' % i, (2,)) for i in range(4)]
            xs = [env.real('x%d' % i) for i in range(4)]
            for i in range(3):
                env.assume(xs[i] < xs[i + 1])
            args = [ys, xs]
            call = lambda: [Numerics.linear_extrap(ys[:2], xs[:2]), Numerics.quadratic_extrap(ys[:3], xs[:3]),
                            Numerics.cubic_extrap(ys, xs)]
        elif fname == 'end_point_first_derivs':
            xx = env.grid('x', 5)
            args = [xx]
            call = lambda: Numerics.end_point_first_derivs(xx)
        elif fname == 'intersect_masks':
            a = _mkspec(env, 'a', (5,), mask='corners')
            b = _mkspec(env, 'b', (5,), mask='interior')
            args = [a, b]
            call = lambda: Numerics.intersect_masks(a, b)
        else:
            raise KeyError(fname)
        snaps = [_snap(a) for a in args]
        res = call()
        for k, sn in enumerate(snaps):
            _unchanged(env, 'argument %d' % k, sn)
        env.holds('result computed', res is not None)
    return H.Unit('inplace-numerics-%s' % fname, body, params=dict(function=fname), setup=_setup_spec,
                  min_obligations=4, timeout_s=600, maxpaths=256)


# =================================================================================================
# (c) caches
# =================================================================================================
def _clear_caches():
    from dadi import Godambe, Numerics, Spectrum_mod
    Spectrum_mod._dbeta_cache.clear()
    for nm in ('_projection_cache', '_part_cache', '_part_precalc_cache', '_multinomln_cache', '_BetaBinomln_cache'):
        getattr(Numerics, nm).clear()
    if hasattr(Godambe.cache, 'clear'):
        Godambe.cache.clear()


def _dbeta_unit(nd, L, scenario):
    """Spectrum_mod._dbeta_cache is keyed by (n, tuple(grid)).  Two from_phi calls on independent symbolic grids /
    different sample sizes; the second result must equal the one computed with a cold cache."""
    def body(env):
        import dadi
        g = env.grid('g', L)
        if scenario == 'grids':
            h = env.grid('h', L)
        elif scenario.startswith('grids-differ-at-'):   # the two grids agree in every point but interior point k
            k = int(scenario.rsplit('-', 1)[1])
            hk = env.real('hk', lo=0, hi=1, lo_open=True, hi_open=True)
            env.assume(g[k - 1] < hk)
            env.assume(hk < g[k + 1])
            env.assume(hk != g[k])
            h = g.copy()
            h[k] = hk
        else:
            h = g
        phi1 = env.array('p', (L,) * nd)
        phi2 = env.array('r', (L,) * nd)
        n1 = [2] * nd
        n2 = [2] * nd if scenario != 'sizes' else [3] + [2] * (nd - 1)
        first = lambda: dadi.Spectrum.from_phi(phi1, n1, [g] * nd, mask_corners=False)
        second = lambda: dadi.Spectrum.from_phi(phi2, n2, [h] * nd, mask_corners=False)
        from dadi import Spectrum_mod
        _clear_caches()
        r1 = first()
        if len(Spectrum_mod._dbeta_cache) > 0:
            env.holds('(vacuity) the beta-difference cache is in use', True)
        r2 = second()
        r1b = first()      # third call: back to the first key while the second one is cached as well
        _clear_caches()
        c2 = second()
        _clear_caches()
        c1 = first()
        env.same('second call == cold', np.ma.getdata(r2), np.ma.getdata(c2))
        env.same('first call == cold', np.ma.getdata(r1), np.ma.getdata(c1))
        env.same('first call repeated (warm) == cold', np.ma.getdata(r1b), np.ma.getdata(c1))
    return H.Unit('cache-dbeta-%dd-L%d-%s' % (nd, L, scenario), body, params=dict(pops=nd, L=L, scenario=scenario),
                  setup=_setup_spec, min_obligations=3 * 3 ** nd + 1, timeout_s=900, maxpaths=64, query_timeout_ms=120000)


def _setup_godambe():
    from dadi import Godambe
    _setup_spec()
    shims.install_numpy(Godambe)


def _godambe_unit(scenario):
    """Godambe.cache is keyed by (model function, params, sample sizes, grid points)."""
    def body(env):
        import dadi
        from dadi import Godambe
        nb = 5
        A = [env.const(Fr(2 + i, 3)) for i in range(nb)]
        B = [[env.const(Fr(1 + ((3 * i + 2 * j) % 5), 4)) for i in range(nb)] for j in range(2)]
        C = [[env.const(Fr(2 + ((i + 3 * j) % 4), 5)) for i in range(nb)] for j in range(2)]
        Dv = [env.const(Fr(3 + 2 * i, 2)) for i in range(nb)]
        p = [env.real('q%d' % j, lo=Fr(1, 2), hi=20) for j in range(2)]
        r = [env.real('r%d' % j, lo=Fr(1, 2), hi=20) for j in range(2)]
        eps = env.const(Fr(1, 100))

        def mk(Bm):
            def model(params, ns, pts):
                n = int(ns[0]) + 1
                sc = env.const(Fr(int(pts[0]), 10))
                v = np.empty(n, dtype=object if env.symbolic else float)
                for i in range(n):
                    v[i] = A[i] * sc + params[0] * Bm[0][i] + params[1] * Bm[1][i]
                return dadi.Spectrum(v)
            return model
        mB, mC = mk(B), mk(C)
        d5 = dadi.Spectrum(np.array(Dv, dtype=object if env.symbolic else float))
        d4 = dadi.Spectrum(np.array(Dv[:4], dtype=object if env.symbolic else float))
        hess = lambda m, pts, q, d: Godambe.get_godambe(m, pts, [], list(q), d, eps, just_hess=True)
        if scenario == 'params':
            env.assume((p[0] != r[0]) | (p[1] != r[1]))
            seq = [lambda: hess(mB, [10], p, d5), lambda: hess(mB, [10], r, d5)]
        elif scenario == 'params-one-differs':
            seq = [lambda: hess(mB, [10], p, d5), lambda: hess(mB, [10], [p[0], r[1]], d5)]
        elif scenario == 'pts':
            seq = [lambda: hess(mB, [10], p, d5), lambda: hess(mB, [20], p, d5)]
        elif scenario == 'ns':
            seq = [lambda: hess(mB, [10], p, d5), lambda: hess(mB, [10], p, d4)]
        elif scenario == 'func':
            seq = [lambda: hess(mB, [10], p, d5), lambda: hess(mC, [10], p, d5)]
        elif scenario == 'same':
            seq = [lambda: hess(mB, [10], p, d5), lambda: hess(mB, [10], p, d5)]
        else:
            raise KeyError(scenario)
        _clear_caches()
        hist = [f() for f in seq] + [seq[0]()]
        if len(Godambe.cache) > 0:
            env.holds('(vacuity) the spectrum cache is in use', True)
        cold = []
        for f in seq + [seq[0]]:
            _clear_caches()
            cold.append(f())
        for k, (a, b) in enumerate(zip(hist, cold)):
            env.same('call %d == cold' % k, np.asarray(a), np.asarray(b))
    return H.Unit('cache-godambe-%s' % scenario, body, params=dict(scenario=scenario), setup=_setup_godambe,
                  min_obligations=13, timeout_s=900, maxpaths=64, query_timeout_ms=120000)


def _projection_cache_unit(order_id):
    """Integer-keyed caches (ENUMERATION over a fixed set of operations, nothing symbolic in the keys): every
    projection result with deliberately pre-warmed caches (other operations first, different order) equals the
    cold result, and the cached arrays themselves are never modified by their users."""
    OPS = [((7,), [5]), ((7,), [3]), ((6,), [3]), ((5, 4), [3, 2]), ((5, 4), [4, 1]), ((4, 4), [2, 3]), ((6,), [5]),
           ((3, 3, 3), [1, 2, 2])]
    ORDERS = {0: list(range(len(OPS))), 1: list(reversed(range(len(OPS)))), 2: [3, 0, 7, 5, 1, 6, 2, 4]}

    def body(env):
        from dadi import Numerics
        specs = {}
        for shape, _ in OPS:
            if shape not in specs:
                specs[shape] = _mkspec(env, 'd' + 'x'.join(map(str, shape)), shape, mask='corners', positive=False)
        cold = []
        for shape, to in OPS:
            _clear_caches()
            cold.append(specs[shape].project(list(to)))
        _clear_caches()
        warm = {}
        snaps = {}
        for k in ORDERS[order_id]:
            shape, to = OPS[k]
            for key, arr in Numerics._projection_cache.items():
                if key not in snaps:
                    snaps[key] = _snap(arr)
            warm[k] = specs[shape].project(list(to))
        for k in range(len(OPS)):
            env.same('op %d %s->%s: warm == cold' % (k, OPS[k][0], OPS[k][1]), np.ma.getdata(warm[k]), np.ma.getdata(cold[k]))
            env.holds('op %d: masks agree' % k, bool(np.array_equal(np.ma.getmaskarray(warm[k]), np.ma.getmaskarray(cold[k]))))
        n = 0
        for key, sn in snaps.items():
            n += _unchanged(env, 'cached projection weights %s' % (key,), sn, Numerics._projection_cache[key])
        if n > 0:
            env.holds('(vacuity) cached projection weights inspected', True)
    return H.Unit('cache-intkeys-projection-order%d' % order_id, body, params=dict(order=ORDERS[order_id], enumeration=True),
                  setup=_setup_spec, min_obligations=40, timeout_s=600)


def _countdict_cache_unit():
    """History: a one-population count dictionary (symbolic multiplicities, several SNPs per configuration) is turned
    into a spectrum, then the same (to, from, hits) projection weights are used again by a second from-count-dict call
    and by Spectrum.project; every later result must equal its cold value and the memoised weight vectors must be
    unchanged (a user scaling the cached array in place would corrupt every later projection)."""
    def body(env):
        import dadi
        from dadi import Numerics
        cd = {}
        for called in (4, 5):
            for derived in (1, 2, 3):
                cd[((called,), (derived,), True)] = env.real('cnt_%d_%d' % (called, derived), lo=0)
        spec = _mkspec(env, 'q5', (6,), mask='corners', positive=False)

        def run():
            a = dadi.Spectrum._from_count_dict(dict(cd), [3], polarized=True)
            b = dadi.Spectrum._from_count_dict(dict(cd), [3], polarized=False)
            c = spec.project([3])
            return a, b, c
        _clear_caches()
        cold = []
        for k in range(3):
            _clear_caches()
            cold.append(run()[k])
        _clear_caches()
        first = run()
        snaps = dict((key, _snap(arr)) for key, arr in Numerics._projection_cache.items())
        second = run()
        for nm, got in (('first pass', first), ('second pass', second)):
            for k, lab in enumerate(('polarized', 'folded', 'project')):
                env.same('%s %s == cold' % (nm, lab), np.ma.getdata(got[k]), np.ma.getdata(cold[k]))
        n = 0
        for key, sn in snaps.items():
            n += _unchanged(env, 'cached projection weights %s' % (key,), sn, Numerics._projection_cache[key])
        env.holds('cached weight vectors inspected', n > 0)
    return H.Unit('cache-intkeys-countdict-history', body, params=dict(enumeration=True), setup=_setup_spec,
                  min_obligations=20, timeout_s=600)


def _partition_cache_unit():
    """Integer-keyed partition / multinomial / beta-binomial caches (ENUMERATION, plain numbers): warm == cold ==
    an independent enumeration, and the cached lists are not modified by BetaBinomConvolution."""
    KEYS = [(x, n, 0, mv) for mv in (2, 3, 4) for n in (1, 2, 3) for x in range(0, n * mv + 1)]

    def brute(x, n, lo, hi):
        return [list(c) for c in itertools.combinations_with_replacement(range(lo, hi + 1), n) if sum(c) == x]

    def body(env):
        from dadi import Numerics
        if env.symbolic:
            shims.uninstall_all()      # plain floats here: the real scipy/numpy functions
        _clear_caches()
        cold = {}
        for k in KEYS:
            _clear_caches()
            cold[k] = ([list(q) for q in Numerics.cached_part(*k)], Numerics.cached_part_precalc(*k),
                       Numerics.BetaBinomConvolution(k[0], k[1], 0.75, 1.5, ploidy=k[3]))
        _clear_caches()
        nbad = 0
        for k in reversed(KEYS):
            w = (Numerics.cached_part(*k), Numerics.cached_part_precalc(*k),
                 Numerics.BetaBinomConvolution(k[0], k[1], 0.75, 1.5, ploidy=k[3]))
            again = Numerics.BetaBinomConvolution(k[0], k[1], 0.75, 1.5, ploidy=k[3])
            ok = ([list(q) for q in w[0]] == cold[k][0] and sorted(cold[k][0]) == sorted(brute(*k))
                  and w[1][0] == cold[k][1][0] and list(w[1][1]) == list(cold[k][1][1])
                  and w[2] == cold[k][2] and again == cold[k][2])
            if not ok:
                nbad += 1
                env.fail('partition caches: key %s differs warm/cold/enumeration' % (k,))
        env.holds('all %d keys agree (warm, cold, independent enumeration)' % len(KEYS), nbad == 0)
        for N in ([1, 2, 0], [2, 1, 0], [0, 0, 3], [1, 2, 0]):
            a = Numerics.multinomln(N)
            Numerics._multinomln_cache.clear()
            env.holds('multinomln%s warm == cold == lgamma formula' % N,
                      a == Numerics.multinomln(N) and abs(a - (math.lgamma(sum(N) + 1) - sum(math.lgamma(v + 1) for v in N))) < 1e-12)
    return H.Unit('cache-intkeys-partitions', body, params=dict(enumeration=True), setup=_quiet, min_obligations=5,
                  timeout_s=300)


def _constructor_unit(shape, mask_corners):
    """dadi.Spectrum(data, mask=mask): the caller's data and mask arrays are left alone (the constructor masks the
    corners of ITS mask)."""
    def body(env):
        import dadi
        d = env.array('d', shape)
        m = np.zeros(shape, dtype=bool)
        m[tuple(min(1, s - 1) for s in shape)] = True
        pids = list(POPS[:len(shape)])
        s_d, s_m, s_p = _snap(d), _snap(m), _snap(pids)
        fs = dadi.Spectrum(d, mask=m, mask_corners=mask_corners, pop_ids=pids)
        fs.mask_corners()
        fs.data[tuple(0 for _ in shape)] = fs.data[tuple(s - 1 for s in shape)]   # writing into the new object ...
        _unchanged(env, 'data', s_d)                                               # ... must not reach the inputs
        _unchanged(env, 'mask', s_m)
        _unchanged(env, 'pop_ids', s_p)
        env.holds('spectrum shares no memory with data/mask', not _shares(fs, d) and not _shares(fs, m))
    nm = 'x'.join(map(str, shape))
    return H.Unit('inplace-spectrum-constructor-%s-%s' % (nm, 'corners' if mask_corners else 'nocorners'), body,
                  params=dict(shape=list(shape), mask_corners=mask_corners), setup=_setup_spec,
                  min_obligations=int(np.prod(shape)) + 3, timeout_s=300)


def _from_phi_layout_unit(nd, L, ns, pat):
    """Spectrum.from_phi (pure numpy) on a non-contiguous density view equals from_phi on a contiguous copy."""
    def body(env):
        import dadi
        base, v = _phi_view(env, nd, L, pat)
        c = np.array(v, copy=True, order='C')
        xx = env.constarray(GRID[L])
        _clear_caches()
        want = dadi.Spectrum.from_phi(c, list(ns), [xx] * nd, mask_corners=False)
        got = dadi.Spectrum.from_phi(v, list(ns), [xx] * nd, mask_corners=False)
        env.same('from_phi(view) == from_phi(contiguous copy)', np.ma.getdata(got), np.ma.getdata(want))
    return H.Unit('layout-from_phi-%dd-L%d-%s' % (nd, L, pat), body, params=dict(pops=nd, L=L, ns=list(ns), pattern=pat),
                  setup=_setup_spec, min_obligations=int(np.prod([n + 1 for n in ns])), timeout_s=600)


def _history_unit(order_id):
    """A mixed sequence of cached operations (sampling from phi on two symbolic grids, projections, folding,
    likelihoods) run back to back in a given order with shared caches: every result equals the result of the same
    call made with all caches cold."""
    def body(env):
        import dadi
        from dadi import Inference
        L = 4
        g, h = env.grid('g', L), env.grid('h', L)
        phi1 = np.empty((L, L), dtype=object if env.symbolic else float)
        phi2 = np.empty((L, L), dtype=object if env.symbolic else float)
        for idx in np.ndindex(L, L):
            phi1[idx] = env.real('p_%d_%d' % idx, lo=Fr(1, 10), hi=10)
            phi2[idx] = env.real('r_%d_%d' % idx, lo=Fr(1, 10), hi=10)
        data = _mkspec(env, 'd', (3, 3), mask='corners')
        calls = [
            lambda: dadi.Spectrum.from_phi(phi1, [3, 2], [g, g], mask_corners=False),
            lambda: dadi.Spectrum.from_phi(phi2, [3, 2], [h, h], mask_corners=False),
            lambda: dadi.Spectrum.from_phi(phi1, [3, 2], [g, g], mask_corners=False).project([2, 2]),
            lambda: dadi.Spectrum.from_phi(phi2, [2, 3], [h, h], mask_corners=False).project([2, 2]),
            lambda: dadi.Spectrum.from_phi(phi2, [4, 2], [g, g], mask_corners=False).project([2, 1]),
            lambda: dadi.Spectrum.from_phi(phi1, [2, 2], [h, h]).fold(),
            lambda: Inference.optimal_sfs_scaling(dadi.Spectrum.from_phi(phi1, [2, 2], [g, g]), data),
            lambda: dadi.Spectrum.from_phi(phi1, [3, 3], [g, g], mask_corners=False).marginalize([1]).project([2]),
        ]
        orders = {0: list(range(len(calls))), 1: list(reversed(range(len(calls)))), 2: [4, 1, 6, 3, 0, 7, 2, 5, 1, 4]}
        cold = []
        for f in calls:
            _clear_caches()
            cold.append(f())
        _clear_caches()
        for step, k in enumerate(orders[order_id]):
            r = calls[k]()
            if isinstance(r, np.ndarray):
                env.same('step %d (call %d) == cold' % (step, k), np.ma.getdata(r), np.ma.getdata(cold[k]))
                env.holds('step %d (call %d): mask == cold' % (step, k),
                          bool(np.array_equal(np.ma.getmaskarray(r), np.ma.getmaskarray(cold[k]))))
            else:
                env.eq('step %d (call %d) == cold' % (step, k), r, cold[k])
    return H.Unit('cache-history-mixed-order%d' % order_id, body, params=dict(order=order_id), setup=_setup_spec,
                  min_obligations=40, timeout_s=900, maxpaths=64, query_timeout_ms=120000)


# =================================================================================================
def units(tier, seed):
    thorough = tier == 'thorough'
    us = []
    # ---- (a) integrators
    for nd in range(1, 6):
        Ls = [3] + ([4] if thorough and nd <= 4 else []) + ([5] if thorough and nd <= 3 else [])
        for L in Ls:
            for mode in ('const', 'func'):
                for case in ('step', 'noop'):
                    us.append(_int_inplace_unit(nd, L, mode, [False] * nd, case))
        fzs = [[True] * nd, [i == 0 for i in range(nd)]] if nd > 1 else [[True]]
        if thorough and nd > 2:
            fzs.append([i == nd - 1 for i in range(nd)])
            fzs.append([i != 1 for i in range(nd)])
        for fz in fzs:
            for mode in (('const', 'func') if (thorough or nd <= 3) else ('func',)):
                us.append(_int_inplace_unit(nd, 3, mode, fz, 'step'))
    for case in ('step', 'noop'):
        us.append(_int_X_unit(4, case))
    # ---- (a) spectra
    cfgs = [((5,), 'corners', False), ((5,), 'none', False), ((5,), 'interior', True), ((4, 3), 'corners', False),
            ((4, 3), 'none', True), ((3, 3, 2), 'interior', False)]
    if thorough:
        cfgs += [((6,), 'interior', False), ((4, 4), 'interior', False), ((4, 3), 'corners', True), ((3, 2, 3), 'none', True),
                 ((3, 3, 2), 'corners', True)]
    for shape, mask, folded in cfgs:
        for op in _spec_ops(shape):
            if op == 'log' and mask == 'interior' and not thorough:
                continue
            if folded and op in ('Fst', 'Tajima_D', 'Zengs_E', 'pi', 'Watterson_theta', 'theta_L', 'scramble_pop_ids') and not thorough:
                continue
            us.append(_spec_unit(shape, mask, folded, op))
        us.append(_fold_unit(shape, mask, 'unfold' if folded else 'fold'))
    for shape in ((5,), (4, 3)):
        for mc in (True, False):
            us.append(_constructor_unit(shape, mc))
    for nd, L, ns, var in [(1, 4, (3,), 'linalg'), (1, 4, (3,), 'direct'), (2, 4, (2, 3), 'linalg'), (2, 3, (2, 2), 'direct'),
                           (2, 3, (2, 1), 'admix'), (3, 3, (1, 2, 1), 'linalg'), (3, 3, (1, 1, 2), 'admix'),
                           (4, 3, (1, 1, 1, 1), 'linalg')]:
        us.append(_from_phi_unit(nd, L, ns, var))
    # ---- (a) likelihoods, optimiser helpers
    for fname in LL_FUNCS:
        us.append(_ll_unit((5,), 'plain', fname))
        us.append(_ll_unit((4, 3), 'folded-data', fname))
        if fname in ('optimal_sfs_scaling', 'optimally_scaled_sfs'):
            us.append(_ll_unit((5,), 'masks-differ', fname))
    for multinom in (True, False):
        for fixed in (False, True):
            us.append(_object_func_unit(multinom, fixed))
    us.append(_project_params_unit())
    for n in ((2, 3) if thorough else (2,)):
        for bpat in ('none', 'both', 'holes'):
            for aslist in (True, False):
                us.append(_perturb_unit(n, bpat, aslist))
    for fname in ('phi_1D_to_2D', 'phi_2D_to_3D_split_1', 'phi_2D_to_3D_split_2', 'phi_2D_to_3D_admix', 'phi_3D_to_4D',
                  'phi_4D_to_5D', 'remove_pop', 'filter_pops', 'reorder_pops', 'phi_1D_snm'):
        us.append(_phimanip_unit(fname))
    for fname in ('trapz', 'reverse_array', 'apply_anc_state_misid', 'make_anc_state_misid_func', 'extrap', 'extrap_log',
                  'lagrange', 'end_point_first_derivs', 'intersect_masks'):
        us.append(_numerics_unit(fname))
    # ---- (b) layout
    for nd in range(1, 6):
        Ls = [3] + ([4] if thorough and nd <= 4 else [])
        for L in Ls:
            for mode in (('const', 'func') if nd <= 3 else ('func',)):
                for pat in PHI_PATTERNS:
                    if nd == 1 and pat in ('F', 'T', 'swap01', 'swaplast', 'step2-last', 'offset-last', 'neg-last', 'neg-all'):
                        continue
                    if nd == 2 and pat in ('swap01', 'swaplast'):
                        continue        # the same view as 'T'
                    if nd == 5 and L == 3 and not thorough and pat in ('swaplast', 'step2-first', 'neg-first', 'offset-last'):
                        continue
                    us.append(_layout_unit('phi', nd, L, mode, pat, seed))
                for pat in XX_PATTERNS:
                    if nd == 5 and not thorough and pat == 'offset':
                        continue
                    us.append(_layout_unit('xx', nd, L, mode, pat, seed))
    if thorough:
        for pat in ('T', 'step2-last'):
            u = _layout_unit('phi', 5, 4, 'func', pat, seed)
            u.timeout_s = 2400
            us.append(u)
        for nd in (1, 2):
            for mode in ('const', 'func'):
                for pat in PHI_PATTERNS:
                    if nd == 1 and pat in ('F', 'T', 'swap01', 'swaplast', 'step2-last', 'offset-last', 'neg-last', 'neg-all'):
                        continue
                    if nd == 2 and pat in ('swap01', 'swaplast'):
                        continue
                    us.append(_layout_unit('phi', nd, 5, mode, pat, seed + 1))
                for pat in XX_PATTERNS:
                    us.append(_layout_unit('xx', nd, 5, mode, pat, seed + 1))
    for nd, order in ((2, (2, 1)), (3, (2, 3, 1)), (4, (2, 1, 3, 4)), (4, (4, 3, 2, 1)), (5, (1, 2, 3, 5, 4))):
        us.append(_reorder_unit(nd, 3, order))
    if thorough:
        for nd, order in ((3, (3, 2, 1)), (4, (1, 3, 4, 2)), (5, (5, 1, 2, 3, 4))):
            us.append(_reorder_unit(nd, 3, order))
    for nd, L, ns, pat in [(2, 4, (2, 3), 'T'), (2, 4, (2, 3), 'neg-all'), (3, 3, (1, 2, 1), 'swap01'), (3, 3, (2, 1, 1), 'step2-last'),
                           (4, 3, (1, 1, 2, 1), 'T')]:
        us.append(_from_phi_layout_unit(nd, L, ns, pat))
    # ---- (c) caches
    for o in (0, 1, 2):
        us.append(_history_unit(o))
    for nd, L, sc in [(2, 4, 'grids'), (2, 4, 'grids-differ-at-1'), (2, 4, 'grids-differ-at-2'), (2, 4, 'sizes'), (2, 4, 'same'), (3, 3, 'grids'),
                      (3, 3, 'sizes')]:
        us.append(_dbeta_unit(nd, L, sc))
    if thorough:
        for nd, L, sc in [(2, 5, 'grids'), (2, 5, 'grids-differ-at-1'), (2, 5, 'grids-differ-at-3'), (3, 4, 'grids-differ-at-2'), (3, 4, 'grids'), (4, 3, 'grids'), (4, 3, 'sizes')]:
            us.append(_dbeta_unit(nd, L, sc))
    for sc in ('params', 'params-one-differs', 'pts', 'ns', 'func', 'same'):
        us.append(_godambe_unit(sc))
    for o in (0, 1, 2):
        us.append(_projection_cache_unit(o))
    us.append(_countdict_cache_unit())
    us.append(_partition_cache_unit())
    # The harness replays a bounded number of counterexamples per run, in unit order: the groups that exercise the
    # 4-/5-population drivers and non-contiguous grids (where defects were found when this check was written) go
    # last, so that a counterexample anywhere else is always among the replayed ones.
    late = ('inplace-int-4pop', 'inplace-int-5pop', 'layout-phi-4pop', 'layout-phi-5pop', 'layout-reorder-4pop',
            'layout-reorder-5pop', 'layout-xx-', 'inplace-misc-perturb_params')
    # (within that block one representative per defect kind first, so that each kind is among the replayed ones)
    reps = ['inplace-misc-perturb_params-n2-holes-list', 'layout-xx-1pop-func-L3-step2', 'layout-reorder-4pop-L3-order2134',
            'layout-phi-5pop-func-L3-T', 'inplace-int-5pop-func-L3-frozen------step', 'inplace-int-4pop-func-L3-frozen-----noop']
    us.sort(key=lambda u: (any(u.name.startswith(pfx) for pfx in late), reps.index(u.name) if u.name in reps else len(reps)))
    assert len(set(u.name for u in us)) == len(us)
    return us
