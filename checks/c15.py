"""C15 - library models are well-formed and reduce exactly to their nested special cases.

Real code: every function exposing `__param_names__` in dadi.Demographics1D/2D/3D, dadi.PortikModels.portik_models_2d/3d
and dadi.DFE.DemogSelModels (discovered by introspection) is executed unmodified on symbolic parameters: PhiManip,
Integration (Python coefficient builders + the C kernels from their LLVM IR), Spectrum.from_phi all run for real; only
the tridiagonal solver is replaced by its contract (fresh unknowns, engine/thomas.py), the grid by a small rational
grid and the time-step rule by "each epoch is integrated in exactly k implicit steps".

(a) well-formedness: no exception on any feasible path, Spectrum of shape ns+1, extrap_x = first interior grid point,
    corners masked, one parameter more / fewer rejected, every named parameter occurs in the computation, selection
    models hand a selection coefficient to every integration call.
(b) nesting: model A and model B (table NEST below) are run on the same symbolic parameters; B's k-th tridiagonal
    solve returns A's k-th unknowns and z3 proves the two systems (a,b,c,r) equal coefficient by coefficient
    (uniqueness lemma T1' of C02 then gives equal solutions); finally the spectra are proved equal entrywise.
"""
import importlib
import inspect
import logging
import re
import sys
from fractions import Fraction as Fr

import numpy as np
import z3

from engine import esf
from engine import harness as H
from engine import shims
from engine import symreal as S
from checks import kernels as K

# `equil` reads params[0] and therefore silently accepts extra parameters.  False: the "one parameter more" claim is not
# made for it (listed in META.outside); True: it is claimed and the check reports the (reproducible) acceptance.
CLAIM_EQUIL_EXTRA = False

MODULES = ['dadi.Demographics1D', 'dadi.Demographics2D', 'dadi.Demographics3D', 'dadi.PortikModels.portik_models_2d',
           'dadi.PortikModels.portik_models_3d', 'dadi.DFE.DemogSelModels']

# parameters that are inert by construction: bottlegrowth_2d_sel never splits the population (Ts = 0), so the selection
# coefficient of the second population cannot influence the spectrum (it exists for the two-gamma DFE cache interface)
INERT = {'bottlegrowth_2d_sel': ('gamma2',)}

FHI = Fr(10 ** 9 - 1, 10 ** 9)
BOUNDS = {   # kind -> (lo, hi, lo_open, hi_open)
    'nu': (Fr(1, 100), 100, False, False),
    'T': (0, 3, False, False),
    'm': (0, 10, False, False),
    'frac': (0, 1, True, True),
    'F': (0, FHI, True, False),
    'gamma': (-50, 50, False, False),
}

META = dict(
    explanation=(
        'Every function exposing __param_names__ in Demographics1D/2D/3D, PortikModels and DFE.DemogSelModels is found by '
        'introspection and executed unmodified with exactly len(__param_names__) symbolic parameters in the documented '
        'ranges (nu in [1e-2,100], T in [0,3], m in [0,10], fractions in (0,1), gamma in [-50,50]) on a small rational '
        'non-uniform grid (Numerics.default_grid stub keyed on pts): PhiManip, the Integration drivers (Python '
        'coefficient builders and the C kernels interpreted from LLVM IR) and Spectrum.from_phi run for real, the '
        'tridiagonal solver is replaced by its contract (fresh unknowns per solve) and the time-step rule by "every '
        'epoch takes exactly k implicit steps".  (a) On every feasible path (zero-length epochs T=0 are separate paths) '
        'the model must not raise, must return a dadi.Spectrum of shape ns+1 that is unfolded, has exactly the two '
        'corners masked, extrap_x equal to the first interior grid point and pop_ids None or of length P; the call '
        'with one parameter fewer / one more must raise ValueError/TypeError/IndexError; and when all epochs have '
        'positive length every named parameter must occur in the terms handed to the solver or in the spectrum (a '
        'parameter that is unpacked but never used is a copy-paste slip; branch conditions evaluated by the model count as '
        'uses; gamma2 of bottlegrowth_2d_sel is inert by construction and exempt); in demography+selection models every call '
        'of Integration.one_pop/two_pops/three_pops must receive one of the model\'s selection coefficients for each '
        'population (selection acts in every epoch; the calls are logged by pass-through wrappers, also in float replays).  (b) For each pair of the nesting table '
        '(A(args_A) = B(args_B) on shared symbolic variables: equal asymmetric rates, zero migration, zero-length epoch, '
        'equal sizes in consecutive epochs, island-model size fractions, gamma1=gamma2, gamma=0, identical models of '
        'different families) A is run first; in the run of B the k-th tridiagonal solve returns the unknowns of '
        'A\'s k-th solve and z3 proves a,b,c,r of the two solves equal entry by entry (then the solutions are equal '
        'by uniqueness, lemma T1\' of C02, n<=5); finally masks, extrap_x and all spectrum entries are proved equal.  '
        'If the two runs issue different sequences of solves the pair is refined by interpreting the Thomas solver '
        'inline at two rational parameter points (exact rational arithmetic) and comparing the spectra; any sat answer '
        'is replayed on the real float code (real grid, real time-step rule, compiled kernels) and only a reproduced '
        'difference is reported.'),
    functions=['every function with __param_names__ in dadi.Demographics1D, dadi.Demographics2D, dadi.Demographics3D, '
               'dadi.PortikModels.portik_models_2d, dadi.PortikModels.portik_models_3d, dadi.DFE.DemogSelModels '
               '(104 spectrum-returning models at the time of writing; the list is rebuilt on every run)',
               'dadi.PhiManip.phi_1D / phi_1D_genic / phi_1D_snm / phi_1D_to_2D / phi_2D_to_3D_split_2 / phi_2D_to_3D_admix / '
               'phi_2D_admix_1_into_2', 'dadi.Integration.one_pop / two_pops / three_pops (+ _const_params variants, '
               '_inject_mutations_*)', 'implicit_1Dx, implicit_2Dx/y, implicit_3Dx/y/z, implicit_precalc_2D*/3D* (IR)',
               'dadi.Spectrum.from_phi (1-D analytic, 2-D / 3-D linalg)', 'dadi.Spectrum.from_phi_inbreeding (1-D)'],
    files=['dadi/Demographics1D.py', 'dadi/Demographics2D.py', 'dadi/Demographics3D.py',
           'dadi/PortikModels/portik_models_2d.py', 'dadi/PortikModels/portik_models_3d.py', 'dadi/DFE/DemogSelModels.py',
           'dadi/PhiManip.py', 'dadi/Integration.py', 'dadi/Spectrum_mod.py', 'dadi/Numerics.py'] + K.FILES[:9],
    bounds=dict(
        quick='grid: 4 rational non-uniform points (0,1/8,1/2,1); sample sizes (3,), (3,2), (2,1,2) ((2,) for the '
              'inbreeding model); all parameters symbolic in the documented ranges (T in [0,3] for (a), (0,3] for (b); '
              'zero-length epochs of (b) are the pairs with a literal 0); (a): every model (104), every epoch exactly one '
              'implicit time step; (b): the full nesting table (%d pairs) with every epoch exactly one and exactly two '
              'implicit time steps (dt < T < 2 dt, one fresh dt per distinct epoch length)',
        thorough='quick plus: (a) with two steps per epoch; (a) and (b) again on a 5-point grid (0,1/16,1/4,5/8,1) with '
                 'sample sizes (4,), (2,3), (1,2,2) and one / two steps per epoch; (b) with exactly three steps per epoch '
                 'on the 4-point grid'),
    outside=['finite / non-negative spectrum entries (M-matrix argument, not encoded)',
             'label-swap equivariance "up to operator-splitting error" (not an exact identity)',
             'more than two time steps per epoch, grids beyond 5 points, sample sizes beyond the bounds, round-off',
             'the time-step rule Integration._compute_dt (subject of C03) and the tridiagonal solver (C02)',
             '*_mscore helpers (IM_mscore, IM_pre_mscore, split_mig_mscore): they format an ms command line with %f, '
             'which realises the values - not spectrum-returning models',
             'snm_1d / snm_2d take a documented placeholder instead of parameters: no arity claim',
             'equil reads params[0] only, so equil([gamma, extra], ns, pts) is silently accepted (lenient arity; '
             'unit claims it only when CLAIM_EQUIL_EXTRA=True).  Reproducer: import dadi; '
             'dadi.DFE.DemogSelModels.equil([1.0, 99.0], (4,), 20)',
             'out_of_africa and three_epoch_inbreeding have no nested library model: well-formedness only',
             'inbreeding coefficient F above 1-1e-9 (the code replaces F > 1-1e-10 by that double)',
             'general dominance h != 1/2 (no library model exposes h)', 'CUDA paths, the Demes event log'],
    stubs=['tridiag / tridiag_premalloc -> contract: fresh unknowns per solve; in nesting units the second model '
           'receives the first model\'s unknowns, justified by the proved equality of (a,b,c,r) and lemma T1\' (C02)',
           'Numerics.default_grid -> fixed rational non-uniform grid of pts points',
           'Integration._compute_dt -> +infinity (one step per epoch) or a fresh dt with dt < T < 2 dt (two steps)',
           'EXP / LOG / POW uninterpreted, with the axioms EXP(x) > 0 and a > 0 => POW(a,b) > 0',
           'scipy.special.betainc / comb / gammaln -> exact integer-parameter versions (engine.esf)',
           'three_epoch_inbreeding only: Numerics.betaln / math.exp -> exact log-space rational functions (C05 stub)',
           'numpy array constructors -> object arrays; Spectrum default dtype -> object; dadi.Demes event log -> no-op'],
    assumptions=['doubles modelled as reals', 'denominators occurring in a query non-zero',
                 'uniqueness of the tridiagonal solution (T1\', proved in C02 for n<=5)'],
)

GRIDS = {4: [0, Fr(1, 8), Fr(1, 2), 1], 5: [0, Fr(1, 16), Fr(1, 4), Fr(5, 8), 1]}
NS = {4: {1: (3,), 2: (3, 2), 3: (2, 1, 2)}, 5: {1: (4,), 2: (2, 3), 3: (1, 2, 2)}}
PTS_CONC = 8     # grid points of the real default grid used by float replays


class HarnessError(BaseException):
    """A limitation of this check (not of dadi): reported as inconclusive, never as a violation."""


# ---------------------------------------------------------------------------------------------
# discovery
def discover():
    """name -> function for every spectrum-returning model exposing __param_names__ (sorted by module, name)."""
    found = {}
    import warnings
    for mn in MODULES:
        with warnings.catch_warnings():
            warnings.simplefilter('ignore')       # dadi/DFE/Plotting.py: SyntaxWarning (invalid escape sequence)
            mod = importlib.import_module(mn)
        for k in sorted(vars(mod)):
            f = getattr(mod, k)
            if not callable(f) or not hasattr(f, '__param_names__') or not hasattr(f, '__name__'):
                continue
            key = f.__name__
            if key in found:
                if found[key] is not f:
                    raise HarnessError('two different model functions are called %s' % key)
                continue
            found[key] = f
    return found


def is_model(f):
    try:
        return list(inspect.signature(f).parameters)[:3] == ['params', 'ns', 'pts'] or \
            len(inspect.signature(f).parameters) == 3
    except (TypeError, ValueError):
        return False


def model_dim(f, depth=0):
    """Number of populations of the returned spectrum, from the source: the grids tuple handed to from_phi, following
    `return other_model(...)` delegation."""
    src = inspect.getsource(f)
    m = re.search(r'from_phi\w*\(\s*phi\s*,[^,()]*(?:\[[^\]]*\])?[^,()]*,\s*\(([^)]*)\)', src)
    if m:
        return len([x for x in m.group(1).split(',') if x.strip()])
    mod = sys.modules[f.__module__]
    for name in re.findall(r'return\s+(\w+)\(', src):
        g = getattr(mod, name, None)
        if g is not None and hasattr(g, '__param_names__') and depth < 4:
            return model_dim(g, depth + 1)
    raise HarnessError('cannot determine the dimension of %s' % f.__name__)


def kind(name):
    if name.startswith('gamma'):
        return 'gamma'
    if name.startswith('nu'):
        return 'nu'
    if name.startswith('T'):
        return 'T'
    if name.startswith('m'):
        return 'm'
    if name in ('s', 'f'):
        return 'frac'
    if name == 'F':
        return 'F'
    raise HarnessError('parameter name %r: unknown kind (extend checks/c15.py:kind)' % name)


def declare(env, name, positive_T=False):
    lo, hi, lo_open, hi_open = BOUNDS[kind(name)]
    if kind(name) == 'T' and positive_T:
        lo_open = True
    return env.real(name, lo=lo, hi=hi, lo_open=lo_open, hi_open=hi_open)


# ---------------------------------------------------------------------------------------------
# symbolic environment (worker process only)
class _Inf:
    """+infinity for the time-step stub: compares above every Sym / number without touching the solver."""
    def __lt__(s, o): return False
    def __le__(s, o): return isinstance(o, _Inf)
    def __gt__(s, o): return not isinstance(o, _Inf)
    def __ge__(s, o): return True
    def __eq__(s, o): return isinstance(o, _Inf)
    def __ne__(s, o): return not isinstance(o, _Inf)
    def __hash__(s): return 17
    def __repr__(s): return 'INF'


INF = _Inf()
CTX = dict(env=None, ax=None, nz={}, steps=1, T=None, dts={}, si=None, si_inline=None, installed=False)


def _axiom(t):
    """Add a valid fact (or a harness precondition on a fresh variable) to the path and to the unit's preconditions."""
    env = CTX['env']
    if env is None or not env.symbolic:
        return
    if S.CUR is not None:
        S.CUR.assume(t)
    k = t.get_id()
    if k not in CTX['ax']:
        CTX['ax'][k] = t
        env.pre.append(t)


def _install_sym():
    """Once per worker process: IR-backed integration modules in contract mode, from_phi shims, grid and time-step
    stubs, positivity axioms of EXP / POW."""
    if CTX['installed']:
        return CTX['si']
    import dadi
    from dadi import Integration, Numerics, Spectrum_mod
    for n in ('Spectrum_mod', 'Numerics', 'dadi', 'Integration', 'dadi.Spectrum_mod'):
        logging.getLogger(n).setLevel(logging.CRITICAL)
    si = K.sym_integration(contract=True)
    shims.install_numpy(Spectrum_mod)
    shims.patch_spectrum_dtype(dadi.Spectrum)
    shims.set_attr(Spectrum_mod, 'betainc', esf.betainc)
    shims.set_attr(Spectrum_mod, 'comb', esf.comb)
    shims.set_attr(Numerics, 'gammaln', esf.gammaln)
    shims.set_attr(Numerics, 'comb', esf.comb)
    shims.set_attr(Numerics, 'default_grid', lambda pts: S.constarray(GRIDS[pts]))
    # model modules that use the `math` module: exp / log / sqrt on symbolic values (math.* would demand a float)
    import importlib
    import types
    for mn in MODULES:
        try:
            mmod = importlib.import_module(mn)
        except Exception:
            continue
        if isinstance(getattr(mmod, 'math', None), types.ModuleType):
            shims.set_attr(mmod, 'math', esf.MathShim())

    def dt_stub(dx, nu, ms, gamma, h):
        if CTX['steps'] == 1:
            return INF
        T = S.Sym.lift(CTX['T'])
        if CTX.get('inline'):
            # inline refinement: one implicit step per epoch (growth functions are then evaluated at t = T only, where
            # they are rational: a**(T/T) = a, exp(log(a) T/T) = a), everything stays exact rational arithmetic
            return INF
        key = ('c', T.c) if T.c is not None else ('t', T.t.get_id())
        if key not in CTX['dts']:
            d = S.R('DT%d' % len(CTX['dts']))
            CTX['dts'][key] = (T, d)      # keeps the term alive: its id stays unique
            # exactly k steps: (k-1) dt < T < k dt.  Conditional on T > 0 so that the fact is satisfiable for every
            # parameter value (it is kept as a unit-wide precondition: an unconditional dt < T would make the
            # zero-length-epoch paths infeasible)
            k = CTX['steps']
            _axiom(z3.Implies(T.t > 0, z3.And(d.t > 0, (k - 1) * d.t < T.t, T.t < k * d.t)))
        return CTX['dts'][key][1]
    shims.set_attr(Integration, '_compute_dt', dt_stub)

    def wrap(orig):
        def driver(phi, xx, T, *a, **k):
            CTX['T'] = T - k.get('initial_t', 0)
            d0_ = set(S.CUR.denoms) if S.CUR is not None else set()
            _record_driver(orig, (phi, xx, T) + a, k)
            if S.CUR is not None:
                # divisions made by the recorder itself (it evaluates size functions) are the harness's, not the model's
                CTX.setdefault('harness_denoms', set()).update(set(S.CUR.denoms) - d0_)
            return orig(phi, xx, T, *a, **k)
        driver.__name__ = orig.__name__
        return driver
    for nm in DRIVERS:
        shims.set_attr(Integration, nm, wrap(getattr(Integration, nm)))

    oexp, opow, odiv = S.Sym.exp, S.Sym.__pow__, S.Sym._div

    def div(a, b):
        # x / x -> 1 (syntactically identical non-constant terms); "x != 0" becomes an obligation of the path, so
        # the simplification never hides a division by zero
        if a.c is None and b.c is None and z3.eq(a.t, b.t):
            env = CTX['env']
            if env is not None and env.symbolic and b.t.get_id() not in CTX['nz']:
                CTX['nz'][b.t.get_id()] = b
                env.holds('x/x simplified to 1: x != 0 for x = %s' % str(b.t)[:60], b != 0)
            return S.Sym(c=Fr(1))
        return odiv(a, b)
    S.Sym._div = staticmethod(div)

    def exp(s):
        if CTX.get('inline') and s.c is None and z3.is_app(s.t) and s.t.decl().name() == 'LOG':
            arg = S.Sym(s.t.arg(0))
            CTX['env'].holds('exp(log(a)) simplified to a: a > 0', arg > 0)
            return arg
        r = oexp(s)
        if r.c is None:
            _axiom(r.t > 0)
        return r

    def pow_(s, o, mod=None):
        if s.c is not None and s.c == 1:
            return S.Sym(c=Fr(1))          # 1 ** y = 1 for every real y
        r = opow(s, o)
        if isinstance(r, S.Sym) and r.c is None and z3.is_app(r.t) and r.t.decl().name() == 'POW':
            _axiom(z3.Implies(r.t.arg(0) > 0, r.t > 0))
        return r
    S.Sym.exp = exp
    S.Sym.__pow__ = pow_
    CTX['si'] = si
    CTX['installed'] = True
    return si


DRIVERS = ('one_pop', 'two_pops', 'three_pops')


def _record_driver(orig, args, kw):
    ba = inspect.signature(orig).bind(*args, **kw)
    ba.apply_defaults()
    CTX.setdefault('drivers', []).append((orig.__name__, dict(ba.arguments)))


class _RecordDrivers:
    """Float replays: the real Integration.one_pop / two_pops / three_pops, wrapped only to log their arguments."""
    def __enter__(self):
        from dadi import Integration
        self.saved = {nm: getattr(Integration, nm) for nm in DRIVERS}
        for nm, orig in self.saved.items():
            def driver(*a, _orig=orig, **k):
                _record_driver(_orig, a, k)
                return _orig(*a, **k)
            setattr(Integration, nm, driver)
        return self

    def __exit__(self, *exc):
        from dadi import Integration
        for nm, orig in self.saved.items():
            setattr(Integration, nm, orig)
        return False


def _activate(si):
    from dadi import Integration
    Integration.int_c = si.rec
    Integration.tridiag = si.tric


def _begin(env, steps):
    CTX['env'] = env
    CTX['steps'] = steps
    CTX['nz'] = {}
    CTX['drivers'] = []
    if env.symbolic:
        if CTX['ax'] is None or CTX.get('env_id') != id(env):
            CTX['ax'] = {}
            CTX['env_id'] = id(env)
        si = _install_sym()
        _activate(si)
        si.cap.make_u = None
        si.cap.reuse = None
        si.reset()
        return si
    return None


def _setup_inbreeding():
    from checks import c05
    c05._setup_inbreeding()


def concrete_setup():
    import warnings
    warnings.filterwarnings('ignore')
    for n in ('Spectrum_mod', 'Numerics', 'dadi', 'Integration', 'dadi.Spectrum_mod'):
        logging.getLogger(n).setLevel(logging.CRITICAL)


def _call(f, args, ns, pts):
    return f(tuple(args), tuple(ns), pts)


def _corner_mask(shape):
    m = np.zeros(shape, dtype=bool)
    m[tuple(0 for _ in shape)] = True
    m[tuple(s - 1 for s in shape)] = True
    return m


def _terms_of(si, fs):
    out = []
    for cl in si.cap.calls:
        for vec in (cl.a, cl.b, cl.c, cl.r):
            for v in vec:
                if v is not None:
                    v = S.Sym.lift(v)
                    if v.c is None:
                        out.append(v.t)
    for v in np.ravel(np.ma.getdata(fs)):
        v = S.Sym.lift(v)
        if v.c is None:
            out.append(v.t)
    return out


# ---------------------------------------------------------------------------------------------
# (a) well-formedness
def _perturb(name, v):
    k = kind(name)
    if k == 'frac':
        return v + (1 - v) / 2
    if k == 'F':
        return v / 2
    if k == 'gamma':
        return v + 1.5
    return v * 1.5 + 0.01


def wellformed_unit(name, L, steps):
    def body(env):
        f = discover()[name]
        names = list(f.__param_names__)
        nd = model_dim(f)
        ns = NS[L][nd] if name != 'three_epoch_inbreeding' else ((2,) if L == 4 else (4,))
        pts = L if env.symbolic else PTS_CONC
        vals = [declare(env, n) for n in names]
        allpos = True
        for n, v in zip(names, vals):
            if kind(n) == 'T':
                if not (v > 0):          # harness-side fork: zero-length epochs are separate paths
                    allpos = False
        si = _begin(env, steps)
        from dadi import Numerics
        import dadi
        n0 = len(S.CUR.trace) if env.symbolic else 0      # branch decisions taken by the model itself start here
        if env.symbolic:
            den0 = set(S.CUR.denoms)
            CTX['harness_denoms'] = set()
            fs = _call(f, vals, ns, pts)
            # a divisor that is NECESSARILY zero on this path (e.g. t/T evaluated eagerly in a zero-length epoch): the
            # float code divides by zero there (ZeroDivisionError for Python floats), although no later value depends on it
            for did, dt_ in list(S.CUR.denoms.items()):
                if did in den0 or did in CTX.get('harness_denoms', ()):
                    continue
                if not S.CUR.feasible(dt_ != 0):
                    env.fail('the model divides by %s, which is zero on this path' % str(dt_)[:60], hard=True)
        else:
            with _RecordDrivers():
                fs = _call(f, vals, ns, pts)
        drivers = list(CTX['drivers'])
        x1 = Numerics.default_grid(pts)[1]
        env.holds('returns a dadi.Spectrum', isinstance(fs, dadi.Spectrum))
        want = tuple(n + 1 for n in ns)
        if tuple(np.shape(fs)) != want:
            env.fail('shape', '%s instead of %s' % (np.shape(fs), want))
            return
        env.holds('unfolded', not fs.folded)
        env.holds('exactly the two corners are masked',
                  bool(np.array_equal(np.ma.getmaskarray(fs), _corner_mask(want))))
        env.holds('pop_ids None or one label per population', fs.pop_ids is None or len(fs.pop_ids) == nd)
        if fs.extrap_x is None:
            env.fail('extrap_x not set')
        else:
            env.eq('extrap_x is the first interior grid point', fs.extrap_x, x1)
        terms = (_terms_of(si, fs) + [c for c, _, _ in S.CUR.trace[n0:]]) if env.symbolic else None
        base = None if env.symbolic else np.array(np.ma.getdata(fs), dtype=float)
        # arity: exactly the named parameters
        if names:
            extra = env.real('extra_parameter', lo=Fr(1, 100), hi=3)
            cases = [('one parameter fewer', vals[:-1])]
            if name != 'equil' or CLAIM_EQUIL_EXTRA:
                cases.append(('one parameter more', vals + [extra]))
            for label, ps in cases:
                for ctor in (tuple, list):
                    try:
                        f(ctor(ps), tuple(ns), pts)
                    except S.Realised:
                        raise
                    except (ValueError, TypeError, IndexError):
                        env.holds('%s (%s) rejected' % (label, ctor.__name__), True)
                    else:
                        env.fail('%s (%s) accepted' % (label, ctor.__name__))
        # demography + selection: every integration call gets one of the model's selection coefficients for each
        # population (selection acts in every epoch)
        gammas = [v for n, v in zip(names, vals) if kind(n) == 'gamma']
        if gammas:
            for ci, (dn, ar) in enumerate(drivers):
                for key in sorted(ar):
                    if not key.startswith('gamma'):
                        continue
                    g = ar[key]
                    if env.symbolic:
                        g = S.Sym.lift(g) if not callable(g) else None
                        ok = g is not None and g.c is None and any(z3.eq(g.t, S.Sym.lift(v).t) for v in gammas)
                    else:
                        ok = (not callable(g)) and any(float(g) == float(v) for v in gammas)
                    env.holds('integration call %d (%s): %s is a selection coefficient of the model' % (ci, dn, key), ok)
        # every named parameter takes part in the computation (only when no epoch has zero length)
        if allpos and names:
            if env.symbolic:
                used = set(S.free_vars(terms))
                unused = [n for n in names if n not in used and n not in INERT.get(name, ())]
                env.holds('every named parameter occurs in the computation (unused: %s)' % unused, not unused)
            else:
                for i, n in enumerate(names):
                    if n in INERT.get(name, ()):
                        continue
                    ps = list(vals)
                    ps[i] = _perturb(n, ps[i])
                    other = np.array(np.ma.getdata(_call(f, ps, ns, pts)), dtype=float)
                    env.holds('changing %s changes the spectrum' % n, not np.array_equal(other, base))
    f = discover()[name]
    nT = sum(1 for n in f.__param_names__ if kind(n) == 'T')
    u = H.Unit('wellformed-%s-L%d-steps%d' % (name, L, steps), body,
               params=dict(model=name, module=f.__module__, L=L, steps=steps, params=list(f.__param_names__)),
               setup=_setup_inbreeding if name == 'three_epoch_inbreeding' else None,
               min_obligations=6 if f.__param_names__ else 5, expect_paths=2 ** nT, timeout_s=600 if steps == 1 else 900, maxpaths=600,
               query_timeout_ms=60000)
    return u


# ---------------------------------------------------------------------------------------------
# (b) nesting table: (model A, args A, model B, args B); arguments are expressions over shared variable names
# (kind by name as for __param_names__) and the constants 0 / 1.
NEST = [
    # ---- one population
    ('three_epoch', 'nuB nuF TB 0', 'two_epoch', 'nuB TB'),
    ('three_epoch', 'nuB nuF 0 TF', 'two_epoch', 'nuF TF'),
    ('two_epoch', 'nu 0', 'snm_1d', ''),
    ('growth', 'nu T', 'bottlegrowth_1d', '1 nu T'),
    # ---- two populations, core library
    ('split_mig', 'nu1 nu2 T m', 'split_asym_mig', 'nu1 nu2 T m m'),
    ('split_mig', 'nu1 nu2 T m', 'sym_mig', 'nu1 nu2 m T'),
    ('split_asym_mig', 'nu1 nu2 T m12 m21', 'asym_mig', 'nu1 nu2 m12 m21 T'),
    ('no_mig', 'nu1 nu2 T', 'split_mig', 'nu1 nu2 T 0'),
    ('no_mig', 'nu1 nu2 0', 'snm_2d', ''),
    ('split_delay_mig', 'nu1 nu2 0 T m12 m21', 'split_asym_mig', 'nu1 nu2 T m12 m21'),
    ('split_delay_mig', 'nu1 nu2 T1 T2 m12 m21', 'sec_contact_asym_mig', 'nu1 nu2 m12 m21 T1 T2'),
    ('split_delay_mig', 'nu1 nu2 T 0 m12 m21', 'no_mig', 'nu1 nu2 T'),
    ('IM_pre', '1 0 s nu1 nu2 T m12 m21', 'IM', 's nu1 nu2 T m12 m21'),
    ('bottlegrowth_2d', 'nuB nuF T', 'bottlegrowth_split', 'nuB nuF T 0'),
    ('bottlegrowth_split', 'nuB nuF T Ts', 'bottlegrowth_split_mig', 'nuB nuF 0 T Ts'),
    ('bottlegrowth_2d', 'nuB nuF T', 'bottlegrowth_split_mig', 'nuB nuF m T 0'),
    ('bottlegrowth_split_mig', 'nuB nuF m 0 Ts', 'split_mig', '1 1 Ts m'),
    # ---- Portik 2-D
    ('no_mig', 'nu1 nu2 T', 'sym_mig', 'nu1 nu2 0 T'),
    ('sym_mig', 'nu1 nu2 m T', 'asym_mig', 'nu1 nu2 m m T'),
    ('anc_sym_mig', 'nu1 nu2 m T1 T2', 'anc_asym_mig', 'nu1 nu2 m m T1 T2'),
    ('anc_sym_mig', 'nu1 nu2 m T 0', 'sym_mig', 'nu1 nu2 m T'),
    ('anc_sym_mig', 'nu1 nu2 0 T1 T2', 'no_mig_size', 'nu1 nu2 nu1 nu2 T1 T2'),
    ('anc_asym_mig', 'nu1 nu2 m12 m21 T 0', 'asym_mig', 'nu1 nu2 m12 m21 T'),
    ('sec_contact_sym_mig', 'nu1 nu2 m T1 T2', 'sec_contact_asym_mig', 'nu1 nu2 m m T1 T2'),
    ('sec_contact_sym_mig', 'nu1 nu2 m 0 T', 'sym_mig', 'nu1 nu2 m T'),
    ('sec_contact_asym_mig', 'nu1 nu2 m12 m21 0 T', 'asym_mig', 'nu1 nu2 m12 m21 T'),
    ('no_mig_size', 'nu1a nu2a nu1b nu2b T 0', 'no_mig', 'nu1a nu2a T'),
    ('no_mig_size', 'nu1a nu2a nu1b nu2b 0 T', 'no_mig', 'nu1b nu2b T'),
    ('sym_mig_size', 'nu1a nu2a nu1b nu2b m T1 T2', 'asym_mig_size', 'nu1a nu2a nu1b nu2b m m T1 T2'),
    ('sym_mig_size', 'nu1a nu2a nu1b nu2b 0 T1 T2', 'no_mig_size', 'nu1a nu2a nu1b nu2b T1 T2'),
    ('sym_mig_size', 'nu1 nu2 nu1 nu2 m T1 T2', 'sym_mig_twoepoch', 'nu1 nu2 m m T1 T2'),
    ('asym_mig_size', 'nu1 nu2 nu1 nu2 m12 m21 T1 T2', 'asym_mig_twoepoch', 'nu1 nu2 m12 m21 m12 m21 T1 T2'),
    ('asym_mig_size', 'nu1a nu2a nu1b nu2b m12 m21 T 0', 'asym_mig', 'nu1a nu2a m12 m21 T'),
    ('anc_sym_mig_size', 'nu1a nu2a nu1b nu2b m T1 T2', 'anc_asym_mig_size', 'nu1a nu2a nu1b nu2b m m T1 T2'),
    ('anc_sym_mig_size', 'nu1 nu2 nu1 nu2 m T1 T2', 'anc_sym_mig', 'nu1 nu2 m T1 T2'),
    ('anc_asym_mig_size', 'nu1 nu2 nu1 nu2 m12 m21 T1 T2', 'anc_asym_mig', 'nu1 nu2 m12 m21 T1 T2'),
    ('sec_contact_sym_mig_size', 'nu1a nu2a nu1b nu2b m T1 T2', 'sec_contact_asym_mig_size',
     'nu1a nu2a nu1b nu2b m m T1 T2'),
    ('sec_contact_sym_mig_size', 'nu1 nu2 nu1 nu2 m T1 T2', 'sec_contact_sym_mig', 'nu1 nu2 m T1 T2'),
    ('sec_contact_asym_mig_size', 'nu1 nu2 nu1 nu2 m12 m21 T1 T2', 'sec_contact_asym_mig', 'nu1 nu2 m12 m21 T1 T2'),
    ('sym_mig_twoepoch', 'nu1 nu2 m1 m2 T1 T2', 'asym_mig_twoepoch', 'nu1 nu2 m1 m1 m2 m2 T1 T2'),
    ('sym_mig_twoepoch', 'nu1 nu2 m 0 T1 T2', 'anc_sym_mig', 'nu1 nu2 m T1 T2'),
    ('sym_mig_twoepoch', 'nu1 nu2 0 m T1 T2', 'sec_contact_sym_mig', 'nu1 nu2 m T1 T2'),
    ('asym_mig_twoepoch', 'nu1 nu2 m12 m21 0 0 T1 T2', 'anc_asym_mig', 'nu1 nu2 m12 m21 T1 T2'),
    ('asym_mig_twoepoch', 'nu1 nu2 0 0 m12 m21 T1 T2', 'sec_contact_asym_mig', 'nu1 nu2 m12 m21 T1 T2'),
    # documented quirk: the asymmetric three-epoch model has no T3 and integrates the last epoch for T2 again
    ('sec_contact_sym_mig_three_epoch', 'nu1 nu2 m T1 T2 T2', 'sec_contact_asym_mig_three_epoch', 'nu1 nu2 m m T1 T2'),
    ('sec_contact_sym_mig_three_epoch', 'nu1 nu2 m T1 T2 0', 'sec_contact_sym_mig', 'nu1 nu2 m T1 T2'),
    ('sec_contact_sym_mig_three_epoch', 'nu1 nu2 m 0 T1 T2', 'anc_sym_mig', 'nu1 nu2 m T1 T2'),
    ('sec_contact_sym_mig_size_three_epoch', 'nu1a nu2a nu1b nu2b m T1 T2 T3', 'sec_contact_asym_mig_size_three_epoch',
     'nu1a nu2a nu1b nu2b m m T1 T2 T3'),
    ('sec_contact_sym_mig_size_three_epoch', 'nu1 nu2 nu1 nu2 m T1 T2 T3', 'sec_contact_sym_mig_three_epoch',
     'nu1 nu2 m T1 T2 T3'),
    ('sec_contact_asym_mig_size_three_epoch', 'nu1a nu2a nu1b nu2b m12 m21 T1 T2 0', 'sec_contact_asym_mig_size',
     'nu1a nu2a nu1b nu2b m12 m21 T1 T2'),
    ('sec_contact_asym_mig_size_three_epoch', 'nu1 nu2 nu1 nu2 m12 m21 T1 T2 T2', 'sec_contact_asym_mig_three_epoch',
     'nu1 nu2 m12 m21 T1 T2'),
    ('vic_no_mig', 'T s', 'no_mig', '1-s s T'),
    ('vic_anc_sym_mig', 'm T1 T2 s', 'vic_anc_asym_mig', 'm m T1 T2 s'),
    ('vic_anc_sym_mig', 'm T1 T2 s', 'anc_sym_mig', '1-s s m T1 T2'),
    ('vic_anc_asym_mig', 'm12 m21 T1 T2 s', 'anc_asym_mig', '1-s s m12 m21 T1 T2'),
    ('vic_anc_sym_mig', '0 T 0 s', 'vic_no_mig', 'T s'),
    ('vic_sec_contact_sym_mig', 'm T1 T2 s', 'vic_sec_contact_asym_mig', 'm m T1 T2 s'),
    ('vic_sec_contact_asym_mig', 'm12 m21 T1 T2 s', 'sec_contact_asym_mig', '1-s s m12 m21 T1 T2'),
    ('vic_sec_contact_sym_mig', 'm T 0 s', 'vic_no_mig', 'T s'),
    ('founder_sym', 'nu2 m T s', 'founder_asym', 'nu2 m m T s'),
    ('founder_nomig', 'nu2 T s', 'founder_sym', 'nu2 0 T s'),
    ('founder_nomig', 'nu2 T s', 'founder_asym', 'nu2 0 0 T s'),
    ('vic_two_epoch_admix', 'T 0 s f', 'vic_no_mig_admix_late', 'T s f'),
    ('vic_two_epoch_admix', '0 T s f', 'vic_no_mig_admix_early', 'T s f'),
    ('founder_nomig_admix_two_epoch', 'nu2 T 0 s f', 'founder_nomig_admix_late', 'nu2 T s f'),
    # ---- three populations
    ('split_symmig_adjacent', 'nu1 nuA nu2 nu3 mA m1 m2 T1 T2', 'split_symmig_all', 'nu1 nuA nu2 nu3 mA m1 m2 0 T1 T2'),
    ('split_nomig', 'nu1 nuA nu2 nu3 T1 T2', 'split_symmig_all', 'nu1 nuA nu2 nu3 0 0 0 0 T1 T2'),
    ('split_nomig', 'nu1 nuA nu2 nu3 0 T', 'sim_split_no_mig', 'nu1 nu2 nu3 T'),
    ('split_symmig_all', 'nu1 nuA nu2 nu3 mA m1 m2 m3 0 T', 'sim_split_sym_mig_all', 'nu1 nu2 nu3 m1 m2 m3 T'),
    ('refugia_adj_1', 'nu1 nuA nu2 nu3 m1 m2 T1 0 T3', 'refugia_adj_2', 'nu1 nuA nu2 nu3 m1 m2 T1 T3'),
    ('refugia_adj_1', 'nu1 nuA nu2 nu3 m1 m2 T1 T2 0', 'split_nomig', 'nu1 nuA nu2 nu3 T1 T2'),
    ('refugia_adj_2', 'nu1 nuA nu2 nu3 m1 m2 T1 T2', 'split_symmig_adjacent', 'nu1 nuA nu2 nu3 0 m1 m2 T1 T2'),
    ('refugia_adj_3', 'nu1 nuA nu2 nu3 mA m1 m2 0 T1 T2', 'split_symmig_adjacent', 'nu1 nuA nu2 nu3 mA m1 m2 T1 T2'),
    ('refugia_adj_3', 'nu1 nuA nu2 nu3 mA m1 m2 T1 0 T2', 'refugia_adj_2', 'nu1 nuA nu2 nu3 m1 m2 T1 T2'),
    ('ancmig_adj_3', 'nu1 nuA nu2 nu3 mA T1 0 T2', 'ancmig_adj_2', 'nu1 nuA nu2 nu3 mA T1 T2'),
    ('ancmig_adj_2', 'nu1 nuA nu2 nu3 0 T1 T2', 'split_nomig', 'nu1 nuA nu2 nu3 T1 T2'),
    ('ancmig_adj_2', 'nu1 nuA nu2 nu3 mA T1 T2', 'split_symmig_all', 'nu1 nuA nu2 nu3 mA 0 0 0 T1 T2'),
    ('ancmig_adj_1', 'nu1 nuA nu2 nu3 mA m1 m2 T1 T2 0', 'split_symmig_adjacent', 'nu1 nuA nu2 nu3 mA m1 m2 T1 T2'),
    ('ancmig_adj_1', 'nu1 nuA nu2 nu3 mA m1 m2 T1 0 T3', 'ancmig_adj_2', 'nu1 nuA nu2 nu3 mA T1 T3'),
    ('sim_split_sym_mig_adjacent', 'nu1 nu2 nu3 m1 m2 T', 'sim_split_sym_mig_all', 'nu1 nu2 nu3 m1 m2 0 T'),
    ('sim_split_no_mig', 'nu1 nu2 nu3 T', 'sim_split_sym_mig_all', 'nu1 nu2 nu3 0 0 0 T'),
    ('sim_split_no_mig_size', 'nu1a nu2a nu3a nu1b nu2b nu3b T 0', 'sim_split_no_mig', 'nu1a nu2a nu3a T'),
    ('sim_split_no_mig_size', 'nu1a nu2a nu3a nu1b nu2b nu3b 0 T', 'sim_split_no_mig', 'nu1b nu2b nu3b T'),
    ('sim_split_refugia_sym_mig_all', 'nu1 nu2 nu3 m1 m2 m3 0 T', 'sim_split_sym_mig_all', 'nu1 nu2 nu3 m1 m2 m3 T'),
    ('sim_split_refugia_sym_mig_adjacent', 'nu1 nu2 nu3 m1 m2 T1 T2', 'sim_split_refugia_sym_mig_all',
     'nu1 nu2 nu3 m1 m2 0 T1 T2'),
    ('sim_split_refugia_sym_mig_adjacent', 'nu1 nu2 nu3 0 0 T1 T2', 'sim_split_no_mig_size',
     'nu1 nu2 nu3 nu1 nu2 nu3 T1 T2'),
    ('sim_split_refugia_sym_mig_adjacent_size', 'nu1a nu2a nu3a nu1b nu2b nu3b m1 m2 T1 T2 0',
     'sim_split_refugia_sym_mig_adjacent', 'nu1a nu2a nu3a m1 m2 T1 T2'),
    ('sim_split_refugia_sym_mig_adjacent_size', 'nu1a nu2a nu3a nu1b nu2b nu3b 0 0 T1 0 T3',
     'sim_split_no_mig_size', 'nu1a nu2a nu3a nu1b nu2b nu3b T1 T3'),
    ('split_nomig_size', 'nu1a nuA nu2a nu3a nu1b nu2b nu3b T1 T2 0', 'split_nomig', 'nu1a nuA nu2a nu3a T1 T2'),
    ('split_nomig_size', 'nu1a nuA nu2a nu3a nu1b nu2b nu3b 0 T2 T3', 'sim_split_no_mig_size',
     'nu1a nu2a nu3a nu1b nu2b nu3b T2 T3'),
    ('ancmig_2_size', 'nu1a nuA nu2a nu3a nu1b nu2b nu3b 0 T1 T2 T3', 'split_nomig_size',
     'nu1a nuA nu2a nu3a nu1b nu2b nu3b T1 T2 T3'),
    ('ancmig_2_size', 'nu1a nuA nu2a nu3a nu1b nu2b nu3b mA T1 T2 0', 'ancmig_adj_2', 'nu1a nuA nu2a nu3a mA T1 T2'),
    ('split_sym_mig_adjacent_var2', 'nu1 nuA nu2 nu3 mA m3 T1 T2', 'split_sym_mig_adjacent_var1',
     'nu1 nuA nu2 nu3 mA 0 m3 T1 T2'),
    ('split_uni_mig_adjacent_var2', 'nu1 nuA nu2 nu3 mA m31 T1 T2', 'split_uni_mig_adjacent_var1',
     'nu1 nuA nu2 nu3 mA 0 m31 T1 T2'),
    ('split_sym_mig_adjacent_var1', 'nu1 nuA nu2 nu3 mA m2 m3 T1 T2', 'split_symmig_all',
     'nu1 nuA nu2 nu3 mA 0 m2 m3 T1 T2'),
    ('split_uni_mig_adjacent_var1', 'nu1 nuA nu2 nu3 mA 0 0 T1 T2', 'ancmig_adj_2', 'nu1 nuA nu2 nu3 mA T1 T2'),
    ('refugia_adj_2_var_sym', 'nu1 nuA nu2 nu3 m2 m3 T1 T2', 'split_sym_mig_adjacent_var1',
     'nu1 nuA nu2 nu3 0 m2 m3 T1 T2'),
    ('refugia_adj_2_var_uni', 'nu1 nuA nu2 nu3 m32 m31 T1 T2', 'split_uni_mig_adjacent_var1',
     'nu1 nuA nu2 nu3 0 m32 m31 T1 T2'),
    ('refugia_adj_3_var_sym', 'nu1 nuA nu2 nu3 mA m2 m3 0 T1 T2', 'split_sym_mig_adjacent_var1',
     'nu1 nuA nu2 nu3 mA m2 m3 T1 T2'),
    ('refugia_adj_3_var_sym', 'nu1 nuA nu2 nu3 mA m2 m3 T1 0 T2', 'refugia_adj_2_var_sym', 'nu1 nuA nu2 nu3 m2 m3 T1 T2'),
    ('refugia_adj_3_var_uni', 'nu1 nuA nu2 nu3 mA m32 m31 0 T1 T2', 'split_uni_mig_adjacent_var1',
     'nu1 nuA nu2 nu3 mA m32 m31 T1 T2'),
    ('refugia_adj_3_var_uni', 'nu1 nuA nu2 nu3 mA m32 m31 T1 0 T2', 'refugia_adj_2_var_uni',
     'nu1 nuA nu2 nu3 m32 m31 T1 T2'),
    ('sim_split_sym_mig_adjacent_var', 'nu1 nu2 nu3 m2 m3 T', 'sim_split_sym_mig_all', 'nu1 nu2 nu3 0 m2 m3 T'),
    ('sim_split_uni_mig_adjacent_var', 'nu1 nu2 nu3 0 0 T', 'sim_split_no_mig', 'nu1 nu2 nu3 T'),
    ('sim_split_refugia_sym_mig_adjacent_var', 'nu1 nu2 nu3 m2 m3 0 T', 'sim_split_sym_mig_adjacent_var',
     'nu1 nu2 nu3 m2 m3 T'),
    ('sim_split_refugia_sym_mig_adjacent_var', 'nu1 nu2 nu3 m2 m3 T1 T2', 'sim_split_refugia_sym_mig_all',
     'nu1 nu2 nu3 0 m2 m3 T1 T2'),
    ('sim_split_refugia_uni_mig_adjacent_var', 'nu1 nu2 nu3 m32 m31 0 T', 'sim_split_uni_mig_adjacent_var',
     'nu1 nu2 nu3 m32 m31 T'),
    ('sim_split_refugia_uni_mig_adjacent_var', 'nu1 nu2 nu3 0 0 T1 T2', 'sim_split_no_mig_size',
     'nu1 nu2 nu3 nu1 nu2 nu3 T1 T2'),
    ('admix_origin_no_mig', 'nu1 nu2 nu3 T1 T2 f', 'admix_origin_sym_mig_adj', 'nu1 nu2 nu3 0 0 T1 T2 f'),
    ('admix_origin_no_mig', 'nu1 nu2 nu3 T1 T2 f', 'admix_origin_uni_mig_adj', 'nu1 nu2 nu3 0 0 T1 T2 f'),
    ('sim_split_refugia_sym_mig_adjacent_size', 'nu1a nu2a nu3a nu1b nu2b nu3b m1 m2 0 0 T', 'sim_split_sym_mig_adjacent',
     'nu1b nu2b nu3b m1 m2 T'),
    ('sim_split_refugia_sym_mig_adjacent_size', 'nu1a nu2a nu3a nu1b nu2b nu3b m1 m2 0 T 0', 'sim_split_sym_mig_adjacent',
     'nu1a nu2a nu3a m1 m2 T'),
    # zero admixture: the admixture event with f = 0 is the plain split / no event at all
    ('admix_origin_no_mig', 'nu1 nu2 nu3 T1 T2 0', 'split_nomig', 'nu1 nu2 nu2 nu3 T1 T2'),
    ('admix_origin_sym_mig_adj', 'nu1 nu2 nu3 m2 m3 T1 T2 0', 'refugia_adj_2_var_sym', 'nu1 nu2 nu2 nu3 m2 m3 T1 T2'),
    ('admix_origin_uni_mig_adj', 'nu1 nu2 nu3 m32 m31 T1 T2 0', 'refugia_adj_2_var_uni', 'nu1 nu2 nu2 nu3 m32 m31 T1 T2'),
    ('vic_no_mig_admix_early', 'T s 0', 'vic_no_mig', 'T s'),
    ('vic_no_mig_admix_late', 'T s 0', 'vic_no_mig', 'T s'),
    # ---- growth models at constant size (function-of-time drivers / C kernels vs constant-parameter drivers)
    ('growth', '1 T', 'two_epoch', '1 T'),
    ('bottlegrowth_1d', 'nu nu T', 'two_epoch', 'nu T'),
    ('IM', 's s 1-s T m12 m21', 'split_asym_mig', 's 1-s T m12 m21'),
    ('IM_pre', 'nuPre 0 s nuPre*s nuPre*(1-s) T m12 m21', 'split_asym_mig', 'nuPre*s nuPre*(1-s) T m12 m21'),
    ('founder_nomig', 's T s', 'vic_no_mig', 'T s'),
    ('founder_sym', 's m T s', 'sym_mig', '1-s s m T'),
    ('founder_asym', 's m12 m21 T s', 'asym_mig', '1-s s m12 m21 T'),
    ('founder_nomig_admix_early', 's T s f', 'vic_no_mig_admix_early', 'T s f'),
    ('founder_nomig_admix_late', 's T s f', 'vic_no_mig_admix_late', 'T s f'),
    ('founder_nomig_admix_two_epoch', 's T1 T2 s f', 'vic_two_epoch_admix', 'T1 T2 s f'),
    ('out_of_africa', 'nuAf nuB nuEu nuEu nuAs nuAs mAfB mAfEu mAfAs mEuAs 0 TB TEuAs', 'split_symmig_all',
     'nuAf nuB nuEu nuAs mAfB mAfEu mEuAs mAfAs TB TEuAs'),
    ('out_of_africa', 'nuAf nuB nuEu nuEu nuAs nuAs mAfB mAfEu mAfAs mEuAs 0 0 T', 'sim_split_sym_mig_all',
     'nuAf nuEu nuAs mAfEu mEuAs mAfAs T'),
    ('growth_sel', '1 T gamma', 'two_epoch_sel', '1 T gamma'),
    ('IM_sel', 's s 1-s T m12 m21 gamma1 gamma2', 'split_asym_mig_sel', 's 1-s T m12 m21 gamma1 gamma2'),
    # ---- demography + selection
    ('equil', '0', 'snm_1d', ''),
    ('two_epoch_sel', 'nu T 0', 'two_epoch', 'nu T'),
    ('two_epoch_sel', 'nu 0 gamma', 'equil', 'gamma'),
    ('three_epoch_sel', 'nuB nuF TB TF 0', 'three_epoch', 'nuB nuF TB TF'),
    ('three_epoch_sel', 'nuB nuF TB 0 gamma', 'two_epoch_sel', 'nuB TB gamma'),
    ('three_epoch_sel', 'nuB nuF 0 TF gamma', 'two_epoch_sel', 'nuF TF gamma'),
    ('split_delay_mig_sel', 'nu1 nu2 T 0 m12 m21 gamma1 gamma2', 'split_asym_mig_sel', 'nu1 nu2 T 0 0 gamma1 gamma2'),
    ('IM_pre_sel', 'nu TPre s nu1 nu2 0 m12 m21 gamma1 gamma2', 'bottlegrowth_2d_sel', 'nu nu TPre gamma1 gamma2'),
    ('IM_pre', 'nu TPre s nu1 nu2 0 m12 m21', 'bottlegrowth_2d', 'nu nu TPre'),
    ('growth_sel', 'nu T 0', 'growth', 'nu T'),
    ('growth_sel', 'nu T gamma', 'bottlegrowth_1d_sel', '1 nu T gamma'),
    ('bottlegrowth_1d_sel', 'nuB nuF T 0', 'bottlegrowth_1d', 'nuB nuF T'),
    ('split_mig_sel_single_gamma', 'nu1 nu2 T m gamma', 'split_mig_sel', 'nu1 nu2 T m gamma gamma'),
    ('split_mig_sel', 'nu1 nu2 T m 0 0', 'split_mig', 'nu1 nu2 T m'),
    ('split_mig_sel', 'nu1 nu2 T m gamma1 gamma2', 'split_asym_mig_sel', 'nu1 nu2 T m m gamma1 gamma2'),
    ('split_asym_mig_sel_single_gamma', 'nu1 nu2 T m12 m21 gamma', 'split_asym_mig_sel', 'nu1 nu2 T m12 m21 gamma gamma'),
    ('split_asym_mig_sel', 'nu1 nu2 T m12 m21 0 0', 'split_asym_mig', 'nu1 nu2 T m12 m21'),
    ('split_delay_mig_sel_single_gamma', 'nu1 nu2 T1 T2 m12 m21 gamma', 'split_delay_mig_sel',
     'nu1 nu2 T1 T2 m12 m21 gamma gamma'),
    ('split_delay_mig_sel', 'nu1 nu2 T1 T2 m12 m21 0 0', 'split_delay_mig', 'nu1 nu2 T1 T2 m12 m21'),
    ('split_delay_mig_sel', 'nu1 nu2 0 T m12 m21 gamma1 gamma2', 'split_asym_mig_sel', 'nu1 nu2 T m12 m21 gamma1 gamma2'),
    ('IM_sel_single_gamma', 's nu1 nu2 T m12 m21 gamma', 'IM_sel', 's nu1 nu2 T m12 m21 gamma gamma'),
    ('IM_sel', 's nu1 nu2 T m12 m21 0 0', 'IM', 's nu1 nu2 T m12 m21'),
    ('IM_pre_sel_single_gamma', 'nuPre TPre s nu1 nu2 T m12 m21 gamma', 'IM_pre_sel',
     'nuPre TPre s nu1 nu2 T m12 m21 gamma gamma'),
    ('IM_pre_sel', 'nuPre TPre s nu1 nu2 T m12 m21 0 0', 'IM_pre', 'nuPre TPre s nu1 nu2 T m12 m21'),
    ('IM_pre_sel', '1 0 s nu1 nu2 T m12 m21 gamma1 gamma2', 'IM_sel', 's nu1 nu2 T m12 m21 gamma1 gamma2'),
    ('bottlegrowth_2d_sel_single_gamma', 'nuB nuF T gamma', 'bottlegrowth_2d_sel', 'nuB nuF T gamma gamma'),
    ('bottlegrowth_2d_sel', 'nuB nuF T 0 0', 'bottlegrowth_2d', 'nuB nuF T'),
    ('bottlegrowth_2d_sel', 'nuB nuF T gamma1 gamma2', 'bottlegrowth_split_sel', 'nuB nuF T 0 gamma1 gamma2'),
    ('bottlegrowth_split_sel_single_gamma', 'nuB nuF T Ts gamma', 'bottlegrowth_split_sel', 'nuB nuF T Ts gamma gamma'),
    ('bottlegrowth_split_sel', 'nuB nuF T Ts 0 0', 'bottlegrowth_split', 'nuB nuF T Ts'),
    ('bottlegrowth_split_sel', 'nuB nuF T Ts gamma1 gamma2', 'bottlegrowth_split_mig_sel', 'nuB nuF 0 T Ts gamma1 gamma2'),
    ('bottlegrowth_split_mig_sel_single_gamma', 'nuB nuF m T Ts gamma', 'bottlegrowth_split_mig_sel',
     'nuB nuF m T Ts gamma gamma'),
    ('bottlegrowth_split_mig_sel', 'nuB nuF m T Ts 0 0', 'bottlegrowth_split_mig', 'nuB nuF m T Ts'),
    # zero-length growth epoch after the split (T = 0 < Ts): only the split-with-migration phase at the ancestral size remains
    ('bottlegrowth_split_mig_sel', 'nuB nuF m 0 Ts gamma1 gamma2', 'split_mig_sel', '1 1 Ts m gamma1 gamma2'),
]

META['bounds']['quick'] = META['bounds']['quick'] % len(NEST)

# rational parameter points for the inline refinement (by kind, two points)
POINTS = {'nu': [Fr(3, 2), Fr(2, 5)], 'T': [Fr(1, 4), Fr(7, 10)], 'm': [Fr(3, 4), Fr(2)], 'frac': [Fr(1, 3), Fr(3, 5)],
          'F': [Fr(1, 5), Fr(1, 2)], 'gamma': [Fr(-3, 2), Fr(2)]}
_ID = re.compile(r'[A-Za-z_]\w*')


def _vars_of(*exprs):
    out = []
    for e in exprs:
        for tok in e.split():
            for nm in _ID.findall(tok):
                if nm not in out:
                    out.append(nm)
    return out


def _args(expr, vals):
    out = []
    for tok in expr.split():
        out.append(eval(tok, {'__builtins__': {}}, dict(vals)))   # tokens: names, 0, 1, 1-s
    return out


def _shift(names, vals, i):
    """a deterministic, pairwise distinct variation of the i-th rational point per variable"""
    out = {}
    for j, n in enumerate(names):
        k = kind(n)
        base = POINTS[k][i]
        if k in ('nu', 'T', 'm'):
            base = base * Fr(7 + j, 7)
        elif k == 'frac':
            base = base * Fr(9 + j, 10 + j)
        elif k == 'gamma':
            base = base + Fr(j, 4)
        out[n] = base
    return out


def nest_unit(idx, L, steps):
    A, exA, B, exB = NEST[idx]
    names = _vars_of(exA, exB)

    def body(env):
        models = discover()
        fA, fB = models[A], models[B]
        nd = model_dim(fA)
        if model_dim(fB) != nd:
            env.fail('models of different dimension')
            return
        ns = NS[L][nd]
        vals = {n: declare(env, n, positive_T=True) for n in names}
        aA, aB = _args(exA, vals), _args(exB, vals)
        if not env.symbolic:
            _begin(env, steps)
            pts = PTS_CONC
            points = [vals] + [{n: float(v) for n, v in _shift(names, vals, i).items()} for i in (0, 1)]
            for pi, vv in enumerate(points):
                fa = _call(fA, _args(exA, vv), ns, pts)
                fb = _call(fB, _args(exB, vv), ns, pts)
                da, db = np.array(np.ma.getdata(fa), dtype=float), np.array(np.ma.getdata(fb), dtype=float)
                if da.shape != db.shape:
                    env.fail('point%d:shape' % pi)
                    continue
                env.holds('point%d:mask' % pi, bool(np.array_equal(np.ma.getmaskarray(fa), np.ma.getmaskarray(fb))))
                scale = float(np.max(np.abs(da))) if da.size else 1.0
                for ix in np.ndindex(*da.shape):
                    ok = abs(da[ix] - db[ix]) <= 1e-7 * max(abs(da[ix]), abs(db[ix])) + 1e-9 * scale
                    env.holds('point%d:fs%s (%r vs %r)' % (pi, list(ix), da[ix], db[ix]), bool(ok))
            return
        si = _begin(env, steps)
        fa = _call(fA, aA, ns, L)
        calls_a = list(si.cap.calls)
        state = dict(mismatch=None)

        def make_u(k, n):
            if k < len(calls_a) and calls_a[k].n == n:
                return list(calls_a[k].u)
            if state['mismatch'] is None:
                state['mismatch'] = 'solve %d: %s' % (k, 'no such solve in the first model' if k >= len(calls_a)
                                                      else 'size %d vs %d' % (n, calls_a[k].n))
            return [S.R('v%d_%d' % (k, j)) for j in range(n)]
        si.cap.calls = []
        si.rec.sweeps = []
        si.cap.make_u = make_u
        try:
            fb = _call(fB, aB, ns, L)
        finally:
            si.cap.make_u = None
        calls_b = list(si.cap.calls)
        if state['mismatch'] is None and len(calls_a) != len(calls_b):
            state['mismatch'] = '%d solves vs %d' % (len(calls_a), len(calls_b))
        if state['mismatch'] is not None:
            env.note('call sequences differ (%s): refined inline at two rational points' % state['mismatch'])
            _refine_inline(env, fA, exA, fB, exB, names, ns, L)
            return
        env.holds('same number of solves', True)
        for ca, cb in zip(calls_a, calls_b):
            for j in range(ca.n):
                if j >= 1:
                    env.eq('solve%d:a%d' % (ca.k, j), cb.a[j], ca.a[j])
                env.eq('solve%d:b%d' % (ca.k, j), cb.b[j], ca.b[j])
                if j <= ca.n - 2:
                    env.eq('solve%d:c%d' % (ca.k, j), cb.c[j], ca.c[j])
                env.eq('solve%d:r%d' % (ca.k, j), cb.r[j], ca.r[j])
        _same_spectrum(env, fa, fb, 'fs')
    return H.Unit('nest-%s(%s)=%s(%s)-L%d-steps%d' % (A, ','.join(exA.split()), B, ','.join(exB.split()), L, steps), body,
                  params=dict(A=A, args_A=exA, B=B, args_B=exB, L=L, steps=steps),
                  min_obligations=3 + int(np.prod([n + 1 for n in NS[L][model_dim(discover()[A])]])),
                  timeout_s=600 if steps == 1 else 900, maxpaths=600, query_timeout_ms=60000)


def _same_spectrum(env, fa, fb, label):
    if tuple(np.shape(fa)) != tuple(np.shape(fb)):
        env.fail(label + ':shape')
        return
    env.holds(label + ':mask', bool(np.array_equal(np.ma.getmaskarray(fa), np.ma.getmaskarray(fb))))
    env.eq(label + ':extrap_x', fb.extrap_x, fa.extrap_x)
    env.holds(label + ':pop_ids', fa.pop_ids == fb.pop_ids)
    da, db = np.ma.getdata(fa), np.ma.getdata(fb)
    for ix in np.ndindex(*da.shape):
        env.eq('%s%s' % (label, list(ix)), db[ix], da[ix])


def _refine_inline(env, fA, exA, fB, exB, names, ns, L):
    """Both models with the real Thomas code interpreted inline, all parameters rational constants, one implicit step
    per epoch: the spectra are exact rationals (selection models: linear forms over a few EXP(constant) atoms) and are
    compared entry by entry."""
    if CTX['si_inline'] is None:
        CTX['si_inline'] = K.SymIntegration(contract=False)
    sj = CTX['si_inline']
    _activate(sj)
    CTX['inline'] = True
    try:
        for i in (0, 1):
            vv = {n: S.C(v) for n, v in _shift(names, None, i).items()}
            sj.reset()
            fa = _call(fA, _args(exA, vv), ns, L)
            sj.reset()
            fb = _call(fB, _args(exB, vv), ns, L)
            _same_spectrum(env, fa, fb, 'inline-point%d:fs' % i)
    finally:
        CTX['inline'] = False
        _activate(CTX['si'])


# ---------------------------------------------------------------------------------------------
def units(tier, seed):
    thorough = tier == 'thorough'
    try:
        models = discover()
    except HarnessError as e:
        def body(env, msg=str(e)):
            raise HarnessError(msg)
        return [H.Unit('discovery', body, params=dict(error=str(e)), min_obligations=1, timeout_s=60)]
    names = sorted(n for n, f in models.items() if is_model(f) and not n.endswith('_mscore'))
    us = []
    # (grid points, implicit steps per epoch, with the well-formedness units?)
    configs = [(4, 1, True), (4, 2, False)]
    if thorough:
        configs = [(4, 1, True), (4, 2, True), (5, 1, True), (5, 2, True), (4, 3, False)]
    def guarded(label, mk, *a):
        # a model this check cannot classify (new parameter name, undeterminable dimension, a model of the nesting
        # table that no longer exists) becomes a unit that ends as a harness error (exit 3), never a silent skip
        try:
            return mk(*a)
        except (HarnessError, KeyError) as e:
            msg = '%s: %s' % (type(e).__name__, e)

            def body(env, msg=msg):
                raise HarnessError(msg)
            return H.Unit(label, body, params=dict(error=msg), min_obligations=1, timeout_s=60)
    for L, steps, wf in configs:
        if wf:
            for n in names:
                us.append(guarded('wellformed-%s-L%d-steps%d' % (n, L, steps), wellformed_unit, n, L, steps))
        for i in range(len(NEST)):
            us.append(guarded('nest-%s=%s-#%d-L%d-steps%d' % (NEST[i][0], NEST[i][2], i, L, steps), nest_unit, i, L, steps))

    def weight(u):
        p = u.params
        w = p.get('L', 4) ** 3 * p.get('steps', 1)
        nm = p.get('model') or (p.get('A', '') + p.get('B', ''))
        if 'admix' in nm:
            w *= 20
        return -w
    us.sort(key=weight)
    return us
