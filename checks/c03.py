"""C03 - integration is linear in (density, theta0) and independent of the reference size."""
import itertools
from fractions import Fraction as Fr

import numpy as np
import z3

from engine import harness as H
from engine import symreal as S
from checks import kernels as K
from checks.c04 import GRIDS, NUS, GAMMAS, HS, MS, DRIVERS, _pick

META = dict(
    explanation=(
        'Linearity: (i) with all parameters symbolic and the tridiagonal solver replaced by its contract, the coefficients '
        'a,b,c handed to every solve are shown to contain no density or theta0 variable (structural check on the captured '
        'terms) - together with r = state/dt (C02) and the solver linearity lemma T3 (proved here from tridiag.c) this makes '
        'every step linear; (ii) end to end, with the real Thomas code interpreted inline at rational grid/parameter points, '
        'z3 proves  out(a*phi1+b*phi2, a*th1+b*th2) = a*out(phi1,th1)+b*out(phi2,th2)  entrywise for symbolic densities, '
        'theta0s and a,b, over 1-3 time steps, 1-5 populations, constant and time-varying parameters, frozen/nomut flags.  '
        'Reference size: the drivers are run twice on the same symbolic density, with (nu_i,T,m_ij,gamma_i,theta0) and with '
        '(c nu_i, c T, m_ij/c, gamma_i/c, theta0/c) (c>0 symbolic for one population, enumerated rationals in [1/20,20] for 2-5), using the real time-step rule; the second run must issue '
        'the same sequence of solves and z3 proves (a\',b\',c\',r\') = (a,b,c,r)/c for each, so by uniqueness (T1\') both runs '
        'produce the same density; the equilibrium density phi_1D is proved invariant (neutral: exact; genic selection: '
        'EXP uninterpreted, argument identities proved).'),
    functions=['Integration.one_pop..five_pops', 'Integration._compute_dt', 'Integration._inject_mutations_*',
               'Integration._*_const_params', 'implicit_* / implicit_precalc_* kernels (IR)', 'tridiag (IR)',
               'PhiManip.phi_1D / phi_1D_genic / phi_1D_snm / phi_1D_to_2D', 'Misc.ensure_1arg_func'],
    files=K.FILES + ['dadi/PhiManip.py'],
    bounds=dict(quick='scaling: symbolic grid L=4 (1-2 pops) / 3 (3 pops), all parameters and c symbolic, T <= dt (one step), '
                      'const and function-of-time drivers; 4-5 pops at L=3 with zero selection; linear-growth nu(t) for 1 pop; '
                      'linearity end-to-end: rational grids L=4 (1-3 pops) / 3 (4-5 pops), 2 parameter points (VERIF_SEED), '
                      '2-3 steps (1-3 pops), 1 step (4-5 pops)',
                thorough='scaling: T <= 2 dt (two steps) for 1-2 pops, L=5 for 1 pop; linearity: 4 parameter points'),
    outside=['round-off', 'accuracy of scipy.integrate.quad in the general-h equilibrium (contract stub: equal integrands and limits give equal results)', 'more steps than stated',
             'CUDA paths'],
    stubs=['tridiag -> contract in the scaling units: run 2 returns run 1\'s unknowns, justified per call by the proved '
           'equivalence of the two systems and lemma T1\'', 'EXP uninterpreted', 'dadi.Demes event log -> no-op'],
    assumptions=['doubles as reals', 'denominators occurring in a query non-zero'],
)


def _has_vars(term, prefixes):
    if term is None:
        return False
    t = S.Sym.lift(term)
    if t.is_const:
        return False
    return any(any(n.startswith(p) for p in prefixes) for n in S.free_vars([t.t]))


# ------------------------------------------------------------------------------------------ T3
def _t3_unit(n):
    from checks.c02 import _thomas_unit
    return _thomas_unit(n, 'T3')


# ------------------------------------------------------------------------------------------ coefficients independent
def _coef_unit(nd, L, mode):
    def body(env):
        from dadi import Integration
        if not env.symbolic:
            env.holds('symbolic-only structural unit', True)
            return
        xx = env.grid('x', L)
        phi = env.array('p', (L,) * nd)
        theta0 = env.real('theta0', lo=0)
        T = env.pos('T')
        wrap = (lambda v: v) if mode == 'const' else (lambda v: (lambda t, v=v: v))
        kw = {}
        sfx = (lambda i: str(i + 1)) if nd > 1 else (lambda i: '')
        for i in range(nd):
            kw['nu' + sfx(i)] = wrap(env.pos('nu%d' % (i + 1)))
            kw['gamma' + sfx(i)] = wrap(env.real('gamma%d' % (i + 1)))
            kw['h' + sfx(i)] = wrap(env.real('h%d' % (i + 1), lo=0, hi=1))
        for i in range(1, nd + 1):
            for j in range(1, nd + 1):
                if i != j:
                    kw['m%d%d' % (i, j)] = wrap(env.real('m%d%d' % (i, j), lo=0))
        kw['theta0'] = wrap(theta0)
        si = K.sym_integration()
        saved = Integration._compute_dt
        first = [True]

        def stub_dt(*a):
            d = S.R('DT')
            if first[0]:
                first[0] = False
                S.CUR.assume(d.t > 0)
                S.CUR.assume(T.t < d.t)
            return d
        Integration._compute_dt = stub_dt
        try:
            getattr(Integration, DRIVERS[nd - 1])(phi.copy(), xx, T, **kw)
        finally:
            Integration._compute_dt = saved
        calls = si.cap.calls
        env.holds('solves issued', len(calls) >= 1)
        bad = []
        for cl in calls:
            for nm, vec in (('a', cl.a), ('b', cl.b), ('c', cl.c)):
                for j, t in enumerate(vec):
                    if _has_vars(t, ('p_', 'theta0', 'u')):
                        bad.append('%s%d of call %d' % (nm, j, cl.k))
        env.holds('coefficients a,b,c are independent of the density, theta0 and earlier solutions %s' % bad[:3], not bad)
        # r depends on the density only through state/dt: it must not contain products of unknowns.  Stated with the
        # solver: r is homogeneous of degree one in (p, theta0, u): r(2p, 2theta0, 2u) = 2 r(p, theta0, u)
        subs_names = {}
        for cl in calls[: 2 * L]:
            for j, t in enumerate(cl.r):
                tt = S.Sym.lift(t)
                if tt.is_const:
                    continue
                fv = S.free_vars([tt.t])
                sub = [(v, v * 2) for n_, v in fv.items() if n_.startswith('p_') or n_ == 'theta0' or n_.startswith('u')]
                doubled = S.Sym(z3.substitute(tt.t, *sub)) if sub else tt
                env.eq('r%d of call %d homogeneous' % (j, cl.k), doubled, 2 * tt)
    return H.Unit('coef-independent-%dpop-%s-L%d' % (nd, mode, L), body, params=dict(pops=nd, mode=mode, L=L),
                  min_obligations=3, timeout_s=900, maxpaths=8)


# ------------------------------------------------------------------------------------------ linear end to end
def _linear_unit(nd, L, gi, pp, seed, steps, mode, flags):
    def body(env):
        from dadi import Integration
        xx = env.grid('x', L, symbolic=False, points=GRIDS[L][gi])
        p1 = env.array('p', (L,) * nd)
        p2 = env.array('q', (L,) * nd)
        th1, th2 = env.real('th1', lo=0), env.real('th2', lo=0)
        if nd <= 1:
            # a, b >= 0 so that the combined theta0 stays in the accepted domain (negative theta0 is rejected)
            al, be = env.real('alpha', lo=0), env.real('beta_', lo=0)
        else:
            al, be = env.const(Fr(2, 3)), env.const(Fr(7, 5))   # 2-5 pops: fixed rational coefficients (QF_LRA)
        if env.symbolic:
            K.sym_integration(contract=False)
        else:
            K.concrete_modules()
        grow = mode == 'growth'
        wrap = (lambda v: v) if mode == 'const' else (lambda v: (lambda t, v=v: v))
        kw = {}
        sfx = (lambda i: str(i + 1)) if nd > 1 else (lambda i: '')
        frozen = flags.get('frozen', [False] * nd)
        for i in range(nd):
            nu = env.const(_pick(NUS, seed + pp, i))
            if grow and i == 0:
                kw['nu' + sfx(i)] = (lambda t, nu=nu: nu * (1 + 50 * t))
            else:
                kw['nu' + sfx(i)] = wrap(nu)
            if frozen[i]:
                kw['frozen' + sfx(i)] = True
            else:
                kw['gamma' + sfx(i)] = wrap(env.const(_pick(GAMMAS, seed + pp, i)))
                kw['h' + sfx(i)] = wrap(env.const(_pick(HS, seed + pp, i)))
        if flags.get('nomut'):
            kw['nomut2'] = True
        k = 0
        for i in range(nd):
            for j in range(nd):
                if i != j and not frozen[i] and not frozen[j]:
                    kw['m%d%d' % (i + 1, j + 1)] = wrap(env.const(_pick(MS, seed + pp, k)))
                    k += 1
        saved = Integration.timescale_factor
        # T = (steps - 1/2) * (smallest step the rule will choose at t=0): `steps` time steps, the last one shorter.
        # (_compute_dt is used here only to pick T; it is not part of the oracle.)
        dx = np.diff(xx)
        dts = []
        for i in range(nd):
            if frozen[i]:
                continue
            ev = lambda v: v(0) if callable(v) else v
            ms_ = [ev(kw.get('m%d%d' % (i + 1, o + 1), 0)) for o in range(nd) if o != i]
            dts.append(Integration._compute_dt(dx, ev(kw['nu' + sfx(i)]), ms_, ev(kw['gamma' + sfx(i)]), ev(kw['h' + sfx(i)])))
        dtmin = dts[0]
        for d_ in dts[1:]:
            if d_ < dtmin:
                dtmin = d_
        T = dtmin * (2 * steps - 1) / 2
        fn = getattr(Integration, DRIVERS[nd - 1])
        try:
            o1 = np.asarray(fn(p1.copy(), xx, T, theta0=wrap(th1), **kw))
            o2 = np.asarray(fn(p2.copy(), xx, T, theta0=wrap(th2), **kw))
            o3 = np.asarray(fn(al * p1 + be * p2, xx, T, theta0=wrap(al * th1 + be * th2), **kw))
        finally:
            Integration.timescale_factor = saved
        for idx in np.ndindex(*o3.shape):
            env.eq('out%s' % (idx,), o3[idx], al * o1[idx] + be * o2[idx])
        # theta0 scaling (special case): zero density, output proportional to theta0
        if nd <= 2:
            try:
                z = 0 * p1
                oz1 = np.asarray(fn(z.copy(), xx, T, theta0=wrap(th1), **kw))
                oz2 = np.asarray(fn(z.copy(), xx, T, theta0=wrap(al * th1), **kw))
            finally:
                Integration.timescale_factor = saved
            for idx in np.ndindex(*oz1.shape):
                env.eq('theta-scaling%s' % (idx,), oz2[idx], al * oz1[idx])
    fl = ''.join('F' if f else '-' for f in flags.get('frozen', [False] * nd)) + ('N' if flags.get('nomut') else '')
    return H.Unit('linear-%dpop-L%d-g%d-p%d-steps%d-%s-%s' % (nd, L, gi, pp, steps, mode, fl), body,
                  params=dict(pops=nd, L=L, grid=gi, point=pp, steps=steps, mode=mode, flags=flags),
                  min_obligations=L ** nd, timeout_s=1200, expect_paths=1, query_timeout_ms=120000)


# ------------------------------------------------------------------------------------------ reference-size scaling
def _scale_unit(nd, L, mode, ksteps, sel=True, frozen=None, cval=None, symh=True):
    frozen = frozen or [False] * nd

    def body(env):
        from dadi import Integration
        xx = env.grid('x', L)
        phi = env.array('p', (L,) * nd)
        # 1 population: c symbolic; >= 2 populations: enumerated rational c (the time-step comparisons of the rescaled
        # run are then the same linear atoms as in the first run; with symbolic c z3 returns unknown on them)
        c = env.pos('c') if cval is None else env.const(cval)
        T = env.pos('T')
        theta0 = env.real('theta0', lo=0)
        sfx = (lambda i: str(i + 1)) if nd > 1 else (lambda i: '')
        nus = [env.pos('nu%d' % (i + 1)) for i in range(nd)]
        gammas = [(env.real('gamma%d' % (i + 1)) if sel else 0) for i in range(nd)]
        hs = [(env.real('h%d' % (i + 1), lo=0, hi=1) if (sel and symh) else env.const('1/2' if not sel else ['1/4', '1/2', '1', '0', '3/4'][i])) for i in range(nd)]
        ms = {}
        for i in range(1, nd + 1):
            for j in range(1, nd + 1):
                if i != j and not frozen[i - 1] and not frozen[j - 1]:
                    ms[i, j] = env.real('m%d%d' % (i, j), lo=0)
        beta = env.pos('beta') if nd == 1 else None

        def kwargs(scaled):
            s = c if scaled else 1
            if mode == 'const':
                wrap = lambda v: v
            else:
                wrap = lambda v: (lambda t, v=v: v)
            kw = {}
            for i in range(nd):
                if mode == 'growth' and i == 0:
                    # nu_1(t) = nu (1 + t/ T_ref-ish): in rescaled time t' = c t the same history is c nu (1 + t'/c)
                    kw['nu' + sfx(i)] = (lambda t, nu=nus[i], s=s: s * nu * (1 + t / s))
                else:
                    kw['nu' + sfx(i)] = wrap(s * nus[i])
                kw['gamma' + sfx(i)] = wrap(gammas[i] / s)
                kw['h' + sfx(i)] = wrap(hs[i])
                if frozen[i]:
                    kw['frozen' + sfx(i)] = True
            for (i, j), v in ms.items():
                kw['m%d%d' % (i, j)] = wrap(v / s)
            kw['theta0'] = wrap(theta0 / s)
            if nd == 1:
                kw['beta'] = wrap(beta)
            return kw
        fn = getattr(Integration, DRIVERS[nd - 1])
        if not env.symbolic:
            K.concrete_modules()
            real_rule = Integration._compute_dt
            recs = {'A': [], 'B': []}
            state = {'run': 'A'}

            def spy(dx, nu, ms_, gamma, h):
                recs[state['run']].append((nu, list(ms_), gamma, h))
                return real_rule(dx, nu, ms_, gamma, h)
            Integration._compute_dt = spy
            try:
                oa = np.asarray(fn(phi.copy(), xx, T, **kwargs(False)))
                state['run'] = 'B'
                ob = np.asarray(fn(phi.copy(), xx, c * T, **kwargs(True)))
            finally:
                Integration._compute_dt = real_rule
            env.same('density', ob, oa)
            # the arguments handed to the time-step rule must be the rescaled ones (this is what makes the step scale)
            env.holds('time-step rule consulted equally often', len(recs['A']) == len(recs['B']))
            for k, (ra, rb) in enumerate(zip(recs['A'], recs['B'])):
                env.eq('dt-rule call %d: nu scaled' % k, rb[0], c * ra[0])
                for q, (ma, mb) in enumerate(zip(ra[1], rb[1])):
                    env.eq('dt-rule call %d: m%d scaled' % (k, q), mb * c, ma)
                env.eq('dt-rule call %d: gamma scaled' % k, rb[2] * c, ra[2])
                env.eq('dt-rule call %d: h' % k, rb[3], ra[3])
            return
        si = K.sym_integration()
        orig = si.orig_compute_dt
        saved = Integration._compute_dt
        rec_a, rec_b = [], []
        try:
            si.cap.reuse = None
            if nd == 1:
                # one population: the REAL time-step rule runs in both parametrisations (c symbolic)
                def dt_rule_a(dx, nu, ms_, gamma, h):
                    d = orig(dx, nu, ms_, gamma, h)
                    cnd = T <= ksteps * d
                    if not isinstance(cnd, bool):
                        S.CUR.assume(cnd.t)
                    return d
                rule_b = orig
            else:
                # >= 2 populations: compositional.  Run A: the rule returns a fresh positive dt_k per call (T <= dt_k:
                # one step); run B: it returns c*dt_k, which is what the real rule returns for rescaled arguments by
                # the lemma unit `dt-rule-covariant` - that B's arguments ARE the rescaled ones is an obligation below.
                def dt_rule_a(dx, nu, ms_, gamma, h):
                    # one shared fresh value: the drivers only use min over populations, an arbitrary positive
                    # number either way (distinct values would only multiply paths by the orderings of the minimum)
                    d = S.R('DT')
                    if not rec_a:
                        S.CUR.assume(d.t > 0)
                        S.CUR.assume((T <= ksteps * d).t)
                    rec_a.append((nu, list(ms_), gamma, h, d))
                    return d

                def rule_b(dx, nu, ms_, gamma, h):
                    k = len(rec_b)
                    rec_b.append((nu, list(ms_), gamma, h))
                    if k >= len(rec_a):
                        raise ValueError('rescaled run consults the time-step rule more often')
                    return c * rec_a[k][4]
            Integration._compute_dt = dt_rule_a
            oa = np.asarray(fn(phi.copy(), xx, T, **kwargs(False)))
            calls_a = list(si.cap.calls)
            na = len(calls_a)
            si.cap.reuse = calls_a
            si.cap.calls = []
            Integration._compute_dt = rule_b
            try:
                ob = np.asarray(fn(phi.copy(), xx, c * T, **kwargs(True)))
            except ValueError as e:
                env.fail('rescaled run issues different solves', str(e)[:80])
                return
            calls_b = list(si.cap.calls)
        finally:
            Integration._compute_dt = saved
            si.cap.reuse = None
        if nd > 1:
            env.holds('time-step rule consulted equally often', len(rec_a) == len(rec_b))
            for k, (ra, rb) in enumerate(zip(rec_a, rec_b)):
                env.eq('dt-rule call %d: nu scaled' % k, rb[0], c * ra[0])
                env.holds('dt-rule call %d: same number of migration rates' % k, len(ra[1]) == len(rb[1]))
                for q, (ma, mb) in enumerate(zip(ra[1], rb[1])):
                    env.eq('dt-rule call %d: m%d scaled' % (k, q), mb * c, ma)
                env.eq('dt-rule call %d: gamma scaled' % k, rb[2] * c, ra[2])
                env.eq('dt-rule call %d: h' % k, rb[3], ra[3])
        env.holds('same number of solves (%d vs %d)' % (na, len(calls_b)), na == len(calls_b))
        if na != len(calls_b):
            return
        for ca, cb in zip(calls_a, calls_b):
            n = ca.n
            for j in range(n):
                if j >= 1:
                    env.eq('call%d:a%d' % (ca.k, j), cb.a[j] * c, ca.a[j])
                env.eq('call%d:b%d' % (ca.k, j), cb.b[j] * c, ca.b[j])
                if j <= n - 2:
                    env.eq('call%d:c%d' % (ca.k, j), cb.c[j] * c, ca.c[j])
                env.eq('call%d:r%d' % (ca.k, j), cb.r[j] * c, ca.r[j])
        env.same('density', ob, oa)
    fz = ''.join('F' if f else '-' for f in frozen)
    return H.Unit('scale-%dpop-%s-L%d-steps%d-%s-%s-c%s' % (nd, mode, L, ksteps, 'sel' if sel else 'nosel', fz,
                                                            'sym' if cval is None else str(cval).replace('/', 'over')), body,
                  params=dict(pops=nd, mode=mode, L=L, steps=ksteps, sel=sel, frozen=frozen, c=str(cval)),
                  min_obligations=4 * L, timeout_s=1500, maxpaths=400, query_timeout_ms=60000)


def _dt_lemma_unit(nm):
    """The time-step rule is covariant: _compute_dt(dx, c nu, m/c, gamma/c, h) = c _compute_dt(dx, nu, m, gamma, h)."""
    def body(env):
        from dadi import Integration
        if env.symbolic:
            K.sym_integration(contract=False)
        L = 4
        xx = env.grid('x', L)
        dx = np.diff(xx)
        c, nu = env.pos('c'), env.pos('nu')
        ms = [env.real('m%d' % k, lo=0) for k in range(nm)]
        gamma, h = env.real('gamma'), env.real('h', lo=0, hi=1)
        a = Integration._compute_dt(dx, nu, list(ms) if nm else [0], gamma, h)
        b = Integration._compute_dt(dx, c * nu, [m / c for m in ms] if nm else [0], gamma / c, h)
        env.eq('dt scales with c', b, c * a)
        # the documented refinement knob: dt is proportional to the module-level timescale_factor at call time
        saved_tf = Integration.timescale_factor
        try:
            Integration.timescale_factor = saved_tf / 8
            a8 = Integration._compute_dt(dx, nu, list(ms) if nm else [0], gamma, h)
        finally:
            Integration.timescale_factor = saved_tf
        env.eq('dt proportional to Integration.timescale_factor', a8 * 8, a)
        env.holds('dt positive', a > 0)
        # old-style rule switch must not be on (it is not scale covariant by design: documented global)
        env.holds('default rule in force', Integration.use_old_timestep is False)
    return H.Unit('dt-rule-covariant-%dmig' % nm, body, params=dict(n_mig=nm), min_obligations=3, timeout_s=900,
                  maxpaths=400, expect_paths=2)


def _phi1d_unit(L):
    def body(env):
        from dadi import PhiManip
        if env.symbolic:
            K.sym_integration(contract=False)
        xx = env.grid('x', L)
        c = env.pos('c')
        nu, theta0, beta = env.pos('nu'), env.real('theta0', lo=0), env.pos('beta')
        gamma = env.real('gamma')
        half = env.const('1/2')
        a = PhiManip.phi_1D(xx, nu=nu, theta0=theta0, gamma=gamma, h=half, beta=beta)
        b = PhiManip.phi_1D(xx, nu=c * nu, theta0=theta0 / c, gamma=gamma / c, h=half, beta=beta)
        for j in range(L):
            env.eq_struct('phi_1D[%d]' % j, b[j], a[j])
        a0 = PhiManip.phi_1D(xx, nu=nu, theta0=theta0, beta=beta)
        b0 = PhiManip.phi_1D(xx, nu=c * nu, theta0=theta0 / c, beta=beta)
        for j in range(L):
            env.eq('phi_1D neutral[%d]' % j, b0[j], a0[j])
            if j >= 1:
                # independent closed form of the neutral equilibrium
                env.eq('neutral closed form[%d]' % j, a0[j], nu * theta0 / xx[j] * 4 * beta / ((beta + 1) * (beta + 1)))
    return H.Unit('scale-phi_1D-L%d' % L, body, params=dict(L=L), min_obligations=3 * L, timeout_s=600, maxpaths=64)


def _phi1d_general_unit(L, cval):
    """phi_1D with dominance (h != 1/2): scipy.integrate.quad is replaced by a contract stub.  Run A records, for every
    quad call, the integrand as a term in a shared probe abscissa xi (the real Python integrand is evaluated on the
    symbolic xi), the limits and a fresh result; run B (rescaled parameters) must issue the same sequence, each
    integrand must equal A's for every xi (EXP uninterpreted, arguments proved equal) with equal limits, and receives
    A's result.  Then the two densities must coincide."""
    def body(env):
        from dadi import PhiManip
        import scipy.integrate as si_
        xx = env.grid('x', L)
        c = env.const(cval)
        nu, theta0, beta = env.pos('nu'), env.real('theta0', lo=0), env.pos('beta')
        gamma = env.real('gamma')
        h = env.real('h', lo=0, hi=1)
        env.assume(h != env.const('1/2'))
        if not env.symbolic:
            a = PhiManip.phi_1D(xx, nu=nu, theta0=theta0, gamma=gamma, h=h, beta=beta)
            b = PhiManip.phi_1D(xx, nu=c * nu, theta0=theta0 / c, gamma=gamma / c, h=h, beta=beta)
            env.same('phi_1D', b, a)
            return
        K.sym_integration(contract=False)
        xi = S.R('xi_probe')
        rec_a, rec_b = [], []
        state = {'run': 'A'}

        def quad_stub(f, lo, hi, args=(), **kw):
            term = f(xi, *args)
            if state['run'] == 'A':
                v = S.R('quad%d' % len(rec_a))
                rec_a.append((term, lo, hi, v))
                return v, 0
            k = len(rec_b)
            rec_b.append((term, lo, hi))
            if k >= len(rec_a):
                raise ValueError('rescaled run issues more quadratures')
            return rec_a[k][3], 0
        fake = type('scipy_integrate_stub', (), {'quad': staticmethod(quad_stub)})
        fake_scipy = type('scipy_stub', (), {'integrate': fake})
        saved = PhiManip.scipy
        PhiManip.scipy = fake_scipy
        try:
            a = PhiManip.phi_1D(xx, nu=nu, theta0=theta0, gamma=gamma, h=h, beta=beta)
            state['run'] = 'B'
            try:
                b = PhiManip.phi_1D(xx, nu=c * nu, theta0=theta0 / c, gamma=gamma / c, h=h, beta=beta)
            except ValueError as e:
                env.fail('rescaled run issues different quadratures', str(e)[:60])
                return
        finally:
            PhiManip.scipy = saved
        env.holds('same number of quadratures (%d, %d)' % (len(rec_a), len(rec_b)), len(rec_a) == len(rec_b))
        for k, (ra, rb) in enumerate(zip(rec_a, rec_b)):
            env.eq_struct('quad %d: integrand identical for every abscissa' % k, rb[0], ra[0])
            env.eq('quad %d: lower limit' % k, rb[1], ra[1])
            env.eq('quad %d: upper limit' % k, rb[2], ra[2])
        for j in range(L):
            env.eq_struct('phi_1D[%d]' % j, b[j], a[j])
    return H.Unit('scale-phi_1D-dominance-L%d-c%s' % (L, str(cval).replace('/', 'over')), body, params=dict(L=L, c=str(cval)),
                  min_obligations=3 * L, timeout_s=900, maxpaths=64, expect_paths=2)


def _model_unit(L, cval):
    """A small whole model built from the public API in both parametrisations."""
    def body(env):
        from dadi import Integration, PhiManip
        xx = env.grid('x', L)
        c = env.const(cval)
        nuA, nu1, nu2 = env.pos('nuA'), env.pos('nu1'), env.pos('nu2')
        T1, T2 = env.pos('T1'), env.pos('T2')
        m12, m21 = env.real('m12', lo=0), env.real('m21', lo=0)
        g1 = env.real('gamma1')
        theta0 = env.real('theta0', lo=0)

        def model(s, si=None):
            phi = PhiManip.phi_1D(xx, nu=s * 1, theta0=theta0 / s) if False else PhiManip.phi_1D(xx, theta0=theta0 / s, nu=s)
            phi = Integration.one_pop(phi, xx, s * T1, nu=s * nuA, theta0=theta0 / s)
            phi = PhiManip.phi_1D_to_2D(xx, phi)
            phi = Integration.two_pops(phi, xx, s * T2, nu1=s * nu1, nu2=s * nu2, m12=m12 / s, m21=m21 / s,
                                       gamma1=g1 / s, theta0=theta0 / s)
            return np.asarray(phi)
        if not env.symbolic:
            K.concrete_modules()
            env.same('density', model(c), model(1))
            return
        si = K.sym_integration()
        orig = si.orig_compute_dt
        saved = Integration._compute_dt
        state = {'T': None}
        try:
            def dt_rule_a(dx, nu, ms_, gamma, h):
                d = orig(dx, nu, ms_, gamma, h)
                S.CUR.assume((state['T'] <= d).t)
                return d
            Integration._compute_dt = dt_rule_a
            si.cap.reuse = None
            # run A (each stage bounded to one step)
            phi = PhiManip.phi_1D(xx, theta0=theta0, nu=1)
            state['T'] = T1
            phi = Integration.one_pop(phi, xx, T1, nu=nuA, theta0=theta0)
            phi = PhiManip.phi_1D_to_2D(xx, phi)
            state['T'] = T2
            phi = Integration.two_pops(phi, xx, T2, nu1=nu1, nu2=nu2, m12=m12, m21=m21, gamma1=g1, theta0=theta0)
            oa = np.asarray(phi)
            calls_a = list(si.cap.calls)
            si.cap.reuse = calls_a
            si.cap.calls = []
            Integration._compute_dt = orig
            try:
                ob = model(c)
            except ValueError as e:
                env.fail('rescaled run issues different solves', str(e)[:80])
                return
            calls_b = list(si.cap.calls)
        finally:
            Integration._compute_dt = saved
            si.cap.reuse = None
        env.holds('same number of solves', len(calls_a) == len(calls_b))
        if len(calls_a) != len(calls_b):
            return
        for ca, cb in zip(calls_a, calls_b):
            for j in range(ca.n):
                if j >= 1:
                    env.eq('call%d:a%d' % (ca.k, j), cb.a[j] * c, ca.a[j])
                env.eq('call%d:b%d' % (ca.k, j), cb.b[j] * c, ca.b[j])
                if j <= ca.n - 2:
                    env.eq('call%d:c%d' % (ca.k, j), cb.c[j] * c, ca.c[j])
                env.eq('call%d:r%d' % (ca.k, j), cb.r[j] * c, ca.r[j])
        env.same('density', ob, oa)
    return H.Unit('scale-model-split-mig-L%d-c%s' % (L, str(cval).replace('/', 'over')), body, params=dict(L=L, c=str(cval)), min_obligations=8 * L, timeout_s=1500,
                  maxpaths=400)


def units(tier, seed):
    thorough = tier == 'thorough'
    us = [_t3_unit(n) for n in ((3, 4, 5) if thorough else (3, 4))]
    for nd in range(1, 6):
        L = 4 if nd <= 2 else 3
        for mode in (('const', 'func') if nd <= 3 else ('func',)):
            us.append(_coef_unit(nd, L, mode))
    npoints = 4 if thorough else 2
    for nd in range(1, 6):
        L = 4 if (nd <= 2 or (nd == 3 and thorough)) else 3
        if nd == 5 and not thorough:
            continue   # 243 x 243 linear forms: minutes per unit, thorough only (quick keeps the structural unit)
        for pp in range(npoints):
            steps = (2 + pp % 2) if nd <= 2 else (2 if nd == 3 else 1)
            for mode in (('const', 'func') if nd <= 3 else ('func',)):
                us.append(_linear_unit(nd, L, (pp + nd + seed) % 3, pp, seed, steps, mode, {}))
        if nd == 1:
            us.append(_linear_unit(1, 4, seed % 3, 0, seed, 2, 'growth', {}))
        if nd == 2:
            us.append(_linear_unit(2, 4, seed % 3, 0, seed, 2, 'const', {'frozen': [True, False]}))
            us.append(_linear_unit(2, 4, (seed + 1) % 3, 1, seed, 2, 'func', {'nomut': True}))
            us.append(_linear_unit(2, 4, (seed + 1) % 3, 1, seed, 2, 'growth', {}))
        if nd == 3:
            us.append(_linear_unit(3, 4 if thorough else 3, seed % 3, 0, seed, 2, 'const', {'frozen': [False, True, False]}))
    us.append(_phi1d_unit(4))
    for nm in range(0, 5):
        us.append(_dt_lemma_unit(nm))
    for mode in ('const', 'func', 'growth'):
        us.append(_scale_unit(1, 4, mode, 1))
    CS = [Fr(1, 3), Fr(7, 2), Fr(1, 20), Fr(20), Fr(5, 4)]
    c1, c2 = CS[seed % 5], CS[(seed + 1) % 5]
    for mode in ('const', 'func'):
        us.append(_scale_unit(2, 4, mode, 1, cval=c1))
        us.append(_scale_unit(3, 3, mode, 1, cval=c2))
    us.append(_scale_unit(2, 4, 'const', 1, frozen=[True, False], cval=c2))
    us.append(_scale_unit(4, 3, 'func', 1, sel=True, cval=c1))
    us.append(_scale_unit(5, 3, 'func', 1, sel=False, cval=c2))
    us.append(_model_unit(4, c1))
    us.append(_phi1d_general_unit(4, c1))
    us.append(_phi1d_general_unit(4, c2))
    if thorough:
        us.append(_scale_unit(1, 5, 'const', 2))
        us.append(_scale_unit(1, 4, 'func', 2))
        for cv in CS:
            us.append(_scale_unit(2, 4, 'const', 2, cval=cv))
            us.append(_scale_unit(2, 4, 'growth', 1, cval=cv))
            us.append(_scale_unit(3, 3, 'func', 1, cval=cv))
        us.append(_scale_unit(4, 3, 'func', 1, sel=True, cval=c2))
    return us


def concrete_setup():
    K.concrete_modules()
