"""C11 - likelihoods are Poisson / multinomial over jointly unmasked entries, optimal theta.

Real code: dadi.Inference.ll / ll_per_bin / ll_multinom / ll_multinom_per_bin / minus_ll / minus_ll_multinom /
optimal_sfs_scaling / optimally_scaled_sfs / linear_Poisson_residual, Numerics.intersect_masks, and (for
auto-folding) Spectrum.fold plus the Spectrum arithmetic operators, all executed on numpy object arrays of z3 reals.
"""
import hashlib
import itertools
import linecache
import math
import sys
from fractions import Fraction as Fr

import numpy as np

from engine import harness as H
from engine import shims
from engine import symreal as S

META = dict(
    explanation=(
        'The unmodified dadi.Inference likelihood functions are run on Spectrum objects whose entries are z3 reals '
        '(model > 0 on its unmasked entries, data >= 0, values under masks unconstrained), for enumerated shapes '
        '(1-3 dimensions) and enumerated independent mask patterns on model and data, folded and unfolded data.  '
        'log, gammaln and sqrt are contract stubs returning one solver variable per distinct argument '
        '(LOG/LGAMMA: arbitrary real; SQRT: s>=0 and s*s=arg) and recording their arguments.  z3 proves for all '
        'values: (1) every argument handed to log / gammaln equals the (explicitly re-indexed, explicitly folded) '
        'model entry, resp. data+1; (2) ll_per_bin has exactly the joint mask and each unmasked bin equals '
        '-m + d*log(m) - lgamma(d+1); ll is the sum over exactly the jointly unmasked bins; minus_ll = -ll; '
        '(3) optimal_sfs_scaling = sum(d)/sum(m) over the jointly unmasked bins, optimally_scaled_sfs = theta*model, '
        'll_multinom = ll(theta*model, data) bin by bin; (4) ll_multinom(c*model, data) = ll_multinom(model, data) for '
        'symbolic c>0 (log arguments proved identical, then congruence); (5) ll(c*model, data) <= ll_multinom(model,'
        'data) for symbolic c>0 from the instantiated axioms log(xy)=log x+log y, log(x)<=x-1; '
        '(6) linear_Poisson_residual = (m-d)/sqrt(m), positive iff m>d, masked exactly on the joint mask (plus '
        'm<=lvl and d<=lvl when a mask level is given); (7, stretch) ll_multinom(m,d) <= ll_multinom(d,d) (Gibbs) from '
        'instantiated log axioms.'),
    functions=['dadi.Inference.ll', 'dadi.Inference.ll_per_bin', 'dadi.Inference.minus_ll',
               'dadi.Inference.ll_multinom', 'dadi.Inference.ll_multinom_per_bin', 'dadi.Inference.minus_ll_multinom',
               'dadi.Inference.optimal_sfs_scaling', 'dadi.Inference.optimally_scaled_sfs',
               'dadi.Inference.linear_Poisson_residual', 'dadi.Numerics.intersect_masks',
               'dadi.Spectrum_mod.Spectrum.fold', 'dadi.Spectrum_mod.Spectrum.log',
               'dadi.Spectrum_mod.Spectrum arithmetic operators (__add__ .. __rtruediv__)'],
    files=['dadi/Inference.py', 'dadi/Numerics.py', 'dadi/Spectrum_mod.py'],
    bounds=dict(
        quick='shapes (4,),(5,),(2,3),(3,3),(2,2,2) (<= 9 entries); (4,): all 16 pairs of inner mask patterns; other '
              'shapes: 3 structured + 2 seeded independent pattern pairs each, corners masked in both / unmasked '
              'in the model only / unmasked in both (equal and differing masks; shapes (4,),(2,3)); folded data against unfolded '
              '(auto-fold) and already folded models for (4,),(5,),(2,3),(3,3); ll and multinomial laws on every case, '
              'rescaling invariance / maximum / residuals on every third case (all folded cases) with <= 6 entries; '
              'residual with symbolic mask level on <= 3 jointly unmasked entries; Gibbs (stretch) 2-3 free entries',
        thorough='as quick plus (5,) all 64 pairs of inner mask patterns, (2,3) all pairs of patterns with <= 2 of the '
                 '4 non-corner entries masked, 9 pairs for (3,3),(2,2,2), shapes (3,4),(2,2,3),(6,) added (<= 12 '
                 'entries); rescaling / residual laws on every case with <= 9 entries; symbolic mask level on <= 5 '
                 'entries; Gibbs up to 6 free entries'),
    outside=['numerical values of the fractional powers in Anscombe_Poisson_residual (POW uninterpreted: formula, sign and masking are checked by congruence)', 'float round-off', 'model <= 0 on an unmasked entry '
             '(numpy.ma.log domain masking; only the warning text differs)', 'sum(data)=0 over the joint entries '
             '(theta=0: everything masked)', 'the text of the diagnostic warnings of ll_per_bin',
             'folded_ancestral / folded_major attributes (not present on dadi.Spectrum)',
             'model==data*const maximises ll_multinom with zeros in data (0*log 0 conventions)'],
    stubs=['numpy.ma.log -> contract stub: one solver real per distinct argument term, argument recorded and proved '
           'equal to the expected model entry; domain masking (arg <= 0 -> masked) kept',
           'scipy.special.gammaln -> contract stub: one solver real per distinct argument, argument proved = data+1; '
           'mask of a masked input is propagated like a numpy ufunc does',
           'numpy.ma.sqrt -> contract stub s with s>=0, s*s=arg (exact characterisation); domain arg<0 -> masked',
           'numpy.logical_and inside Inference and the comparison operators of Spectrum (<,<=,>,>=,==,!=) -> non-forking '
           'elementwise z3 terms with numpy.ma mask propagation (numpy would call bool() on every element: 2^entries '
           'forks inside the diagnostics of ll_per_bin); the residual mask level test uses them too and is then '
           'forked entry by entry in numpy.ma.masked_where',
           'valid facts assumed about the log stub variables of one entry across calls: equal arguments -> equal '
           'values, smaller argument -> smaller value (keeps counterexamples realistic)',
           'replay: the solver witness is tried first on the real float code; if it sits on a coincidence of the '
           'special functions (lgamma(1)=lgamma(2)) up to two deterministic in-domain perturbations are tried; a '
           'violation is only reported when the real code fails against the oracle on a concrete in-domain input',
           'Inference.logger / print -> silent; "%g" % Sym inside the logger.warning(...) statements of ll_per_bin '
           'formats as nan (text goes to the silenced logger only)',
           'axiom instances used by the rescale-max / Gibbs units: log(x*y)=log x+log y and log(x)<=x-1 for x,y>0',
           'numpy array constructors -> object arrays'],
    assumptions=['doubles modelled as reals', 'model > 0 on its unmasked entries', 'data >= 0',
                 'sum of data over the jointly unmasked entries > 0 for the multinomial units',
                 'recorded denominators != 0'],
)

# ----------------------------------------------------------------------------------------------------------------
# contract stubs (symbolic run only)
LOGCALLS = []
GAMCALLS = []
SQRTCALLS = []
LOGREG = {}       # entry index -> {variable name: (argument, variable)} for every log stub result of this process
_ACK_DONE = set()


def _fresh(prefix, v):
    """One solver variable per distinct argument term (same argument -> same variable: congruence for free)."""
    v = S.Sym.lift(v)
    key = v.t.sexpr()
    return S.R('%s_%s' % (prefix, hashlib.md5(key.encode()).hexdigest()[:12]))


class _Ma(shims.MaShim):
    def _dom(self, x, bad, fn, calls, fillv):
        x = np.ma.asanyarray(x)
        data = x.data
        out = np.empty(data.shape, dtype=object)
        args = np.empty(data.shape, dtype=object)
        m = np.ma.getmaskarray(x).copy()
        for idx in np.ndindex(*data.shape):
            args[idx] = data[idx]
            if m[idx]:
                out[idx] = fillv
                continue
            v = S.Sym.lift(data[idx])
            if bool(bad(v)):
                m[idx] = True
                out[idx] = fillv
            else:
                out[idx] = fn(v)
                if calls is LOGCALLS:
                    LOGREG.setdefault(idx, {})[str(out[idx].t)] = (v, out[idx])
        calls.append((args, out, m.copy()))
        res = np.ma.masked_array(out, mask=m)
        if type(x) is not np.ma.MaskedArray:
            res = res.view(type(x))
            try:
                res._update_from(x)
            except Exception:
                pass
            res.mask = m
        return res

    def log(self, x):
        if shims._has_sym(np.ma.getdata(x)):
            return self._dom(x, lambda v: v <= 0, lambda v: _fresh('LOG', v), LOGCALLS, 0)
        return np.ma.log(x)

    def power(self, a, b, third=None):
        """numpy.ma.power on Sym data: elementwise POW (uninterpreted for non-integer exponents); masked entries stay
        masked and keep a harmless value."""
        if not shims._has_sym(np.ma.getdata(a)):
            return np.ma.power(a, b, third)
        a = np.ma.asanyarray(a)
        data, m = a.data, np.ma.getmaskarray(a).copy()
        out = np.empty(data.shape, dtype=object)
        for idx in np.ndindex(*data.shape):
            out[idx] = 1 if m[idx] else S.Sym.lift(data[idx]) ** b
        res = np.ma.masked_array(out, mask=m)
        if type(a) is not np.ma.MaskedArray:
            res = res.view(type(a))
            res._update_from(a)
            res.mask = m
        return res

    def sqrt(self, x):
        if shims._has_sym(np.ma.getdata(x)):
            # value under the mask is unspecified; 1 keeps the subsequent data-level division defined
            return self._dom(x, lambda v: v < 0, lambda v: _fresh('SQRT', v), SQRTCALLS, 1)
        return np.ma.sqrt(x)


def _gammaln(x):
    """scipy.special.gammaln stand-in: elementwise fresh reals; the mask of a masked input is propagated the way
    numpy.ma propagates it through a unary ufunc (result masked exactly where the input is masked)."""
    data = np.asarray(np.ma.getdata(x), dtype=object)
    out = np.empty(data.shape, dtype=object)
    for idx in np.ndindex(*data.shape):
        out[idx] = _fresh('LGAMMA', data[idx])
    GAMCALLS.append((data.copy(), out.copy()))
    if isinstance(x, np.ma.MaskedArray):
        res = np.ma.masked_array(out, mask=np.ma.getmaskarray(x).copy()).view(type(x))
        res._update_from(x)
        res.mask = np.ma.getmaskarray(x).copy()
        return res
    return out


def _logical_and(a, b):
    """numpy.logical_and without forking on symbolic operands (z3 And); numpy.ma mask propagation."""
    ad, bd = np.ma.getdata(a), np.ma.getdata(b)
    ad, bd = np.broadcast_arrays(np.asarray(ad), np.asarray(bd))
    if ad.dtype != object and bd.dtype != object:
        return np.logical_and(a, b)
    out = np.empty(ad.shape, dtype=object)
    for idx in np.ndindex(*ad.shape):
        x, y = ad[idx], bd[idx]
        if isinstance(x, S.SymBool) or isinstance(y, S.SymBool):
            if not isinstance(x, S.SymBool) and not x:
                out[idx] = False
            elif not isinstance(y, S.SymBool) and not y:
                out[idx] = False
            elif not isinstance(x, S.SymBool):
                out[idx] = y
            elif not isinstance(y, S.SymBool):
                out[idx] = x
            else:
                out[idx] = x & y
        else:
            out[idx] = bool(x) and bool(y)
    if isinstance(a, np.ma.MaskedArray) or isinstance(b, np.ma.MaskedArray):
        mk = np.ma.mask_or(np.ma.getmaskarray(a), np.ma.getmaskarray(b))
        return np.ma.masked_array(out, mask=mk)
    return out


def _logical_or(a, b):
    """numpy.logical_or without forking on symbolic operands."""
    ad, bd = np.ma.getdata(a), np.ma.getdata(b)
    ad, bd = np.broadcast_arrays(np.asarray(ad), np.asarray(bd))
    if ad.dtype != object and bd.dtype != object:
        return np.logical_or(a, b)
    out = np.empty(ad.shape, dtype=object)
    for idx in np.ndindex(*ad.shape):
        x, y = ad[idx], bd[idx]
        if isinstance(x, S.SymBool) or isinstance(y, S.SymBool):
            if not isinstance(x, S.SymBool) and x:
                out[idx] = True
            elif not isinstance(y, S.SymBool) and y:
                out[idx] = True
            elif not isinstance(x, S.SymBool):
                out[idx] = y
            elif not isinstance(y, S.SymBool):
                out[idx] = x
            else:
                out[idx] = x | y
        else:
            out[idx] = bool(x) or bool(y)
    if isinstance(a, np.ma.MaskedArray) or isinstance(b, np.ma.MaskedArray):
        mk = np.ma.mask_or(np.ma.getmaskarray(a), np.ma.getmaskarray(b))
        return np.ma.masked_array(out, mask=mk)
    return out


def _mk_cmp(ufunc):
    """numpy.ma comparison of a Spectrum without realising the elementwise results as Python bools (the default
    object loop OO->? calls bool() on every element, i.e. forks 2^entries times in pure diagnostics)."""
    def cmp(self, other):
        sd = np.ma.getdata(self)
        if sd.dtype != object and not shims._has_sym(np.ma.getdata(other)):
            return getattr(np.ma.MaskedArray, cmp.__name__)(self, other)
        res = ufunc(np.asarray(sd, dtype=object), np.ma.getdata(other), dtype=object)
        mk = np.ma.mask_or(np.ma.getmaskarray(self), np.broadcast_to(np.ma.getmaskarray(other), sd.shape))
        return np.ma.masked_array(res, mask=mk)
    return cmp


def _ackermann(env):
    """Valid facts about log relating the stub variables of the same entry across calls: equal arguments give equal
    values (congruence), smaller argument gives smaller value (strict monotonicity).  Sound to assume (true of the
    real function); they keep counterexamples of a violated obligation realistic, hence reproducible on floats."""
    for idx, d in LOGREG.items():
        items = sorted(d.items())
        for i in range(len(items)):
            for j in range(i):
                (n1, (a1, v1)), (n2, (a2, v2)) = items[i], items[j]
                if (n1, n2) in _ACK_DONE:
                    continue
                _ACK_DONE.add((n1, n2))
                lt, gt = a1 < a2, a1 > a2
                if not isinstance(lt, S.SymBool):
                    continue
                env.assume(S.SymBool(S.z3.Implies(lt.t, (v1 < v2).t)))
                env.assume(S.SymBool(S.z3.Implies(gt.t, (v1 > v2).t)))
                env.assume(S.SymBool(S.z3.Implies((a1 == a2).t, (v1 == v2).t)))


def _with_ack(body):
    def wrapped(env):
        r = body(env)
        if env.symbolic:
            _ackermann(env)
        return r
    return wrapped


class _NoLog:
    def warning(self, *a, **k):
        pass
    info = debug = error = critical = warning


_orig_float = S.Sym.__float__


def _float_in_warning(s):
    """'%g' % Sym inside the logger.warning(...) statements of ll_per_bin: the text goes to the silenced logger."""
    f = sys._getframe(1)
    if f.f_code.co_name == 'll_per_bin' and f.f_code.co_filename.endswith('Inference.py'):
        src = linecache.getline(f.f_code.co_filename, f.f_lineno - 1) + linecache.getline(f.f_code.co_filename,
                                                                                         f.f_lineno)
        if 'logger.warning(' in src:
            return float('nan')
    return _orig_float(s)


def _setup():
    import logging
    import dadi
    from dadi import Inference, Numerics, Spectrum_mod
    logging.disable(logging.CRITICAL)
    for mod in (Inference, Numerics, Spectrum_mod):
        sh = shims.install_numpy(mod, overrides={'logical_and': _logical_and, 'logical_or': _logical_or} if mod is Inference else None)
        object.__setattr__(sh, 'ma', _Ma(np.ma))
    shims.patch_spectrum_dtype(dadi.Spectrum)
    shims.set_attr(Inference, 'gammaln', _gammaln)
    shims.set_attr(Inference, 'logical_and', _logical_and)
    shims.set_attr(Inference, 'logger', _NoLog())
    shims.set_attr(Inference, 'print', lambda *a, **k: None)
    S.Sym.__float__ = _float_in_warning
    for nm, uf in (('__lt__', np.less), ('__le__', np.less_equal), ('__gt__', np.greater),
                   ('__ge__', np.greater_equal), ('__eq__', np.equal), ('__ne__', np.not_equal)):
        f = _mk_cmp(uf)
        f.__name__ = nm
        setattr(dadi.Spectrum, nm, f)


def concrete_setup():
    import logging
    logging.disable(logging.CRITICAL)


# ----------------------------------------------------------------------------------------------------------------
# independent oracles
def _rev(shape, idx):
    return tuple(s - 1 - i for s, i in zip(shape, idx))


def fold_oracle(env, shape, m, mm):
    """Textbook folding of an unfolded spectrum (values, mask): minor-allele entries collect their mirror image,
    ambiguous entries are averaged, mirror-image entries are dropped; masks are or-ed with the mirror image and
    the absent-everywhere corner is masked."""
    T = sum(s - 1 for s in shape)
    half = env.const(Fr(1, 2))
    out = np.empty(shape, dtype=object if env.symbolic else float)
    mk = np.zeros(shape, dtype=bool)
    for idx in np.ndindex(*shape):
        tot, r = sum(idx), _rev(shape, idx)
        if 2 * tot > T:
            out[idx] = env.const(0)
            mk[idx] = True
        elif 2 * tot == T:
            out[idx] = half * m[idx] + half * m[r]
            mk[idx] = mm[idx] or mm[r]
        else:
            out[idx] = m[idx] + m[r]
            mk[idx] = mm[idx] or mm[r]
        if tot == 0:
            mk[idx] = True
    return out, mk


def folded_out(shape):
    T = sum(s - 1 for s in shape)
    fo = np.zeros(shape, dtype=bool)
    for idx in np.ndindex(*shape):
        fo[idx] = 2 * sum(idx) > T
    return fo


class Ctx:
    """Inputs + oracle quantities of one unit."""
    pass


def make_inputs(env, P, scale_c=False):
    """Builds model / data Spectrum objects from unit params.  P: shape, mm, dm (flat 0/1 lists), fold in
    ('none', 'data' (folded data, unfolded model), 'both')."""
    import dadi
    shape = tuple(P['shape'])
    mm = np.array(P['mm'], dtype=bool).reshape(shape)
    dm = np.array(P['dm'], dtype=bool).reshape(shape)
    fold = P.get('fold', 'none')
    del LOGCALLS[:], GAMCALLS[:], SQRTCALLS[:]
    m = env.array('m', shape)
    d = env.array('d', shape)
    fo = folded_out(shape)
    if fold in ('data', 'both'):
        dm = dm | fo
        d = d.copy()
        for idx in np.ndindex(*shape):
            if fo[idx]:
                d[idx] = env.const(0)
    if fold == 'both':
        mm = mm | fo
        m = m.copy()
        for idx in np.ndindex(*shape):
            if fo[idx]:
                m[idx] = env.const(0)
    c = Ctx()
    c.shape, c.m, c.d, c.mm, c.dm, c.fold = shape, m, d, mm, dm, fold
    # effective model (after the automatic folding) by the independent oracle
    if fold == 'data':
        c.mf, c.mfm = fold_oracle(env, shape, m, mm)
    else:
        c.mf, c.mfm = m, mm
    c.joint = c.mfm | dm
    c.J = [idx for idx in np.ndindex(*shape) if not c.joint[idx]]
    # preconditions: model positive where it is not masked (its own mask), data non-negative where not masked
    for idx in np.ndindex(*shape):
        if not mm[idx]:
            env.assume(m[idx] > 0)
        if not dm[idx]:
            env.assume(d[idx] >= 0)
    c.M = dadi.Spectrum(m, mask=mm.copy(), mask_corners=False, data_folded=(fold == 'both'), check_folding=False)
    c.D = dadi.Spectrum(d, mask=dm.copy(), mask_corners=False, data_folded=(fold in ('data', 'both')),
                        check_folding=False)
    return c


def _log(env, call, idx, expected_arg, label):
    """log of expected_arg: symbolic -> the stub's variable for entry idx of the given recorded call, together
    with the obligation that the code's argument there equals expected_arg; concrete -> math.log."""
    if env.symbolic:
        args, outs, _ = call
        _eq(env, '%s:log-arg%s' % (label, list(idx)), args[idx], expected_arg)
        return outs[idx]
    return math.log(expected_arg)


def _lgam(env, call, idx, expected_arg, label):
    if env.symbolic:
        args, outs = call
        _eq(env, '%s:gammaln-arg%s' % (label, list(idx)), args[idx], expected_arg)
        return outs[idx]
    return math.lgamma(expected_arg)


def _eq(env, label, a, b, **kw):
    """env.eq; on replay a non-finite / masked value where the oracle is finite is a failure (the harness
    tolerance is relative to max(|a|,|b|), which would accept inf)."""
    if not env.symbolic:
        with np.errstate(all='ignore'):
            fa = float(a) if a is not np.ma.masked else float('nan')
            fb = float(b) if b is not np.ma.masked else float('nan')
        if not (math.isfinite(fa) and math.isfinite(fb)):
            env.holds(label + ' (finite)', False)
            return
    env.eq(label, a, b, **kw)


def _perturb(values, k):
    """Generic in-domain point near the solver's witness (all preconditions are positivity constraints, offsets
    are positive): used only to confirm a violated obligation on the real code when the solver's own witness sits
    on a coincidence of the special functions (lgamma(1)=lgamma(2), log(1)=0)."""
    out = {}
    for i, (n, v) in enumerate(sorted(values.items())):
        if v is None or not (n[:2] in ('m_', 'd_') or n in ('c', 'k', 'lvl')):
            out[n] = v
            continue
        out[n] = str(Fr(v) + Fr(37 + 11 * k + 13 * ((i * 7 + k) % 10), 100))
    return out


def _replay_for(body):
    def rp(values):
        last = None
        for k in range(3):
            vals = values if k == 0 else _perturb(values, k)
            env = H.ConcEnv(None, vals)
            try:
                body(env)
            except Exception as e:
                env.failed.append(('unexpected-exception:%s:%s' % (type(e).__name__, str(e)[:160]), None, None))
            last = dict(reproduced=bool(env.failed) and env.domain_ok, failed=[tuple(f) for f in env.failed[:10]],
                        checked=env.checked, domain_ok=env.domain_ok, attempt=k, values=vals if k else 'solver')
            if last['reproduced']:
                return last
        return last
    return rp


def _calls(env, lst, n, label):
    if not env.symbolic:
        return [None] * n
    if len(lst) != n:
        env.fail('%s: %d stub calls, expected %d' % (label, len(lst), n))
        return None
    return list(lst)


def _mask_is(env, label, arr, want):
    got = np.ma.getmaskarray(arr)
    env.holds(label, bool(got.shape == want.shape and np.array_equal(got, want)))


def _val(x):
    return np.ma.getdata(x)


# ----------------------------------------------------------------------------------------------------------------
def body_ll(P):
    def body(env):
        from dadi import Inference
        c = make_inputs(env, P)
        with np.errstate(all='ignore'):
            pb = Inference.ll_per_bin(c.M, c.D)
        lc, gc = _calls(env, LOGCALLS, 1, 'log'), _calls(env, GAMCALLS, 1, 'gammaln')
        if lc is None or gc is None:
            return
        _mask_is(env, 'per-bin mask = joint mask', pb, c.joint)
        pbd = _val(pb)
        tot = env.const(0)
        for idx in c.J:
            L = _log(env, lc[0], idx, c.mf[idx], 'll')
            G = _lgam(env, gc[0], idx, c.d[idx] + 1, 'll')
            want = -c.mf[idx] + c.d[idx] * L - G
            _eq(env, 'per-bin%s' % list(idx), pbd[idx], want)
            tot = tot + want
        del LOGCALLS[:], GAMCALLS[:]
        with np.errstate(all='ignore'):
            ll = Inference.ll(c.M, c.D)
            mll = Inference.minus_ll(c.M, c.D)
        _eq(env, 'll = sum over joint', ll, tot)
        _eq(env, 'minus_ll', mll, -tot)
    return _with_ack(body)


def theta_oracle(env, c):
    sd, sm = env.const(0), env.const(0)
    for idx in c.J:
        sd = sd + c.d[idx]
        sm = sm + c.mf[idx]
    return sd, sm


def body_mn(P):
    def body(env):
        from dadi import Inference
        c = make_inputs(env, P)
        sd, sm = theta_oracle(env, c)
        env.assume(sd > 0)
        with np.errstate(all='ignore'):
            th = Inference.optimal_sfs_scaling(c.M, c.D)
        tho = sd / sm
        _eq(env, 'theta = sum d / sum m over joint', th, tho)
        with np.errstate(all='ignore'):
            osf = Inference.optimally_scaled_sfs(c.M, c.D)
        _mask_is(env, 'optimally_scaled_sfs mask', osf, c.mm)
        for idx in np.ndindex(*c.shape):
            if not c.mm[idx]:
                _eq(env, 'optimally_scaled_sfs%s' % list(idx), _val(osf)[idx], tho * c.m[idx])
        del LOGCALLS[:], GAMCALLS[:]
        with np.errstate(all='ignore'):
            pb = Inference.ll_multinom_per_bin(c.M, c.D)
        lc, gc = _calls(env, LOGCALLS, 1, 'log'), _calls(env, GAMCALLS, 1, 'gammaln')
        if lc is None or gc is None:
            return
        _mask_is(env, 'multinom per-bin mask = joint mask', pb, c.joint)
        pbd = _val(pb)
        tot = env.const(0)
        for idx in c.J:
            L = _log(env, lc[0], idx, tho * c.mf[idx], 'mn')
            G = _lgam(env, gc[0], idx, c.d[idx] + 1, 'mn')
            want = -tho * c.mf[idx] + c.d[idx] * L - G
            _eq(env, 'multinom per-bin%s' % list(idx), pbd[idx], want)
            tot = tot + want
        del LOGCALLS[:], GAMCALLS[:]
        with np.errstate(all='ignore'):
            ll = Inference.ll_multinom(c.M, c.D)
            mll = Inference.minus_ll_multinom(c.M, c.D)
        _eq(env, 'll_multinom = ll(theta*model)', ll, tot)
        _eq(env, 'minus_ll_multinom', mll, -tot)
    return _with_ack(body)


def _iff(a, b):
    if isinstance(a, S.SymBool) or isinstance(b, S.SymBool):
        a = a if isinstance(a, S.SymBool) else S.SymBool(S.z3.BoolVal(bool(a)))
        return (a & b) | (~a & _not(b))
    return bool(a) == bool(b)


def _not(a):
    return ~a if isinstance(a, S.SymBool) else (not bool(a))


def _or(a, b):
    if isinstance(a, S.SymBool) or isinstance(b, S.SymBool):
        return a | b
    return bool(a) or bool(b)


def _and(a, b):
    if isinstance(a, S.SymBool) or isinstance(b, S.SymBool):
        return a & b
    return bool(a) and bool(b)


def _le_tol(env, a, b):
    """a <= b (exact symbolically; with a relative float tolerance on replay)."""
    if env.symbolic:
        return a <= b
    return float(a) <= float(b) + 1e-9 * max(1.0, abs(float(a)), abs(float(b)))


def body_inv(P):
    """ll_multinom and theta under model -> c*model, c > 0 symbolic."""
    def body(env):
        from dadi import Inference
        c = make_inputs(env, P)
        cs = env.real('c', lo=0, lo_open=True)
        sd, sm = theta_oracle(env, c)
        env.assume(sd > 0)
        with np.errstate(all='ignore'):
            ll1 = Inference.ll_multinom(c.M, c.D)
        l1, g1 = _calls(env, LOGCALLS, 1, 'log'), _calls(env, GAMCALLS, 1, 'gammaln')
        del LOGCALLS[:], GAMCALLS[:]
        with np.errstate(all='ignore'):
            M2 = cs * c.M
            ll2 = Inference.ll_multinom(M2, c.D)
        l2, g2 = _calls(env, LOGCALLS, 1, 'log'), _calls(env, GAMCALLS, 1, 'gammaln')
        if None in (l1, g1, l2, g2):
            return
        _mask_is(env, 'c*model keeps the mask', M2, c.mm)
        cong = []
        if env.symbolic:
            env.holds('same log mask', bool(np.array_equal(l1[0][2], l2[0][2]) and np.array_equal(l1[0][2], c.mfm)))
            for idx in c.J:
                # the argument of log is unchanged by the rescaling (then log(..) is unchanged: congruence)
                _eq(env, 'log-arg invariant%s' % list(idx), l2[0][0][idx], l1[0][0][idx])
                _eq(env, 'log-arg%s' % list(idx), l1[0][0][idx], sd / sm * c.mf[idx])
                _eq(env, 'gammaln-arg invariant%s' % list(idx), g2[0][0][idx], g1[0][0][idx])
                cong.append((l2[0][1][idx] == l1[0][1][idx]).t if isinstance(l2[0][1][idx] == l1[0][1][idx], S.SymBool)
                            else S.z3.BoolVal(bool(l2[0][1][idx] == l1[0][1][idx])))
                e = g2[0][1][idx] == g1[0][1][idx]
                cong.append(e.t if isinstance(e, S.SymBool) else S.z3.BoolVal(bool(e)))
        _eq(env, 'll_multinom(c*model) = ll_multinom(model)', ll2, ll1, pre=cong)
        with np.errstate(all='ignore'):
            t1 = Inference.optimal_sfs_scaling(c.M, c.D)
            t2 = Inference.optimal_sfs_scaling(M2, c.D)
        _eq(env, 'theta(c*model)*c = theta(model)', t2 * cs, t1)
    return _with_ack(body)


def body_max(P):
    """ll(c*model, data) <= ll_multinom(model, data) for every c > 0 (multinomial = maximum over rescalings),
    with equality at c = theta (that part is body_mn)."""
    def body(env):
        from dadi import Inference
        c = make_inputs(env, P)
        cs = env.real('c', lo=0, lo_open=True)
        sd, sm = theta_oracle(env, c)
        env.assume(sd > 0)
        tho = sd / sm
        with np.errstate(all='ignore'):
            llmn = Inference.ll_multinom(c.M, c.D)
        l1 = _calls(env, LOGCALLS, 1, 'log')
        del LOGCALLS[:], GAMCALLS[:]
        with np.errstate(all='ignore'):
            llc = Inference.ll(cs * c.M, c.D)
        l2 = _calls(env, LOGCALLS, 1, 'log')
        if l1 is None or l2 is None:
            return
        ax = []
        if env.symbolic:
            delta = S.R('DELTA_log_c_over_theta')
            for idx in c.J:
                _eq(env, 'log-arg multinom%s' % list(idx), l1[0][0][idx], tho * c.mf[idx])
                _eq(env, 'log-arg scaled%s' % list(idx), l2[0][0][idx], cs * c.mf[idx])
                # log(c*m) - log(theta*m) = log(c/theta)   [log(xy) = log x + log y, all factors > 0]
                ax.append((l2[0][1][idx] - l1[0][1][idx] == delta).t)
            # log(x) <= x - 1 at x = c/theta > 0
            ax.append((delta <= cs / tho - 1).t)
        env.holds('ll(c*model) <= ll_multinom(model)', _le_tol(env, llc, llmn), pre=ax)
    return _with_ack(body)


def body_resid(P, lvl_mode):
    def body(env):
        from dadi import Inference
        c = make_inputs(env, P)
        lvl = None
        with np.errstate(all='ignore'):
            if lvl_mode == 'none':
                r = Inference.linear_Poisson_residual(c.M, c.D)
            else:
                lvl = env.real('lvl', lo=0)
                r = Inference.linear_Poisson_residual(c.M, c.D, mask=lvl)
        sc = _calls(env, SQRTCALLS, 1, 'sqrt')
        if sc is None:
            return
        rm = np.ma.getmaskarray(r)
        rd = _val(r)
        env.holds('shape', rm.shape == c.shape)
        for idx in np.ndindex(*c.shape):
            if c.joint[idx]:
                env.holds('masked where model or data is masked%s' % list(idx), bool(rm[idx]))
                continue
            if lvl is None:
                env.holds('not masked on joint entry%s' % list(idx), not rm[idx])
            else:
                small = _and(c.mf[idx] <= lvl, c.d[idx] <= lvl)
                env.holds('masked iff model<=lvl and data<=lvl%s' % list(idx), small if rm[idx] else _not(small))
            if rm[idx]:
                continue
            if env.symbolic:
                _eq(env, 'sqrt-arg%s' % list(idx), sc[0][0][idx], c.mf[idx])
                s = sc[0][1][idx]
                env.assume(_and(s >= 0, s * s == sc[0][0][idx]))      # contract of the sqrt stub
            else:
                s = math.sqrt(c.mf[idx])
            _eq(env, 'residual = (model-data)/sqrt(model)%s' % list(idx), rd[idx], (c.mf[idx] - c.d[idx]) / s)
            env.holds('positive iff model > data%s' % list(idx), _iff(rd[idx] > 0, c.mf[idx] > c.d[idx]))
            env.holds('negative iff model < data%s' % list(idx), _iff(rd[idx] < 0, c.mf[idx] < c.d[idx]))
    return _with_ack(body)


def body_anscombe(P, use_mask):
    """Anscombe residual: documented transformation, sign (positive when the model is high) and masking.  Fractional
    powers are uninterpreted (POW); code and oracle build the same POW terms, so equality is decided by congruence."""
    def body(env):
        from dadi import Inference
        c = make_inputs(env, P)
        for idx in np.ndindex(*c.shape):
            if not c.dm[idx]:
                env.assume(c.d[idx] > 0)     # zeros in the data are masked by the function when a mask level is given
        lvl = env.const(0) if use_mask else None
        with np.errstate(all='ignore'):
            r = Inference.Anscombe_Poisson_residual(c.M, c.D, mask=lvl) if use_mask else \
                Inference.Anscombe_Poisson_residual(c.M, c.D)
        rm = np.ma.getmaskarray(r)
        rd = _val(r)
        env.holds('shape', rm.shape == c.shape)
        for idx in np.ndindex(*c.shape):
            if c.joint[idx]:
                env.holds('masked where model or data is masked%s' % list(idx), bool(rm[idx]))
                continue
            mkd = rm[idx]
            env.holds('not masked on a joint entry with positive model and data%s' % list(idx),
                      (not bool(mkd)) if not isinstance(mkd, S.SymBool) else _not(mkd))
            m_, d_ = c.mf[idx], c.d[idx]
            dt_ = d_ ** (2. / 3) - d_ ** (-1. / 3) / 9
            mt_ = m_ ** (2. / 3) - m_ ** (-1. / 3) / 9
            want = -(1.5 * (dt_ - mt_) / m_ ** (1. / 6))
            _eq(env, 'Anscombe residual, positive when the model is high%s' % list(idx), rd[idx], want)
    return _with_ack(body)


def body_gibbs(P):
    """ll_multinom(model, data) <= ll_multinom(k*data, data) for every model > 0 (same masks), data > 0."""
    def body(env):
        import dadi
        from dadi import Inference
        c = make_inputs(env, P)
        k = env.real('k', lo=0, lo_open=True)
        sd, sm = theta_oracle(env, c)
        for idx in c.J:
            env.assume(c.d[idx] > 0)
        tho = sd / sm
        with np.errstate(all='ignore'):
            ll1 = Inference.ll_multinom(c.M, c.D)
        l1 = _calls(env, LOGCALLS, 1, 'log')
        del LOGCALLS[:], GAMCALLS[:]
        kd = c.d.copy()
        for idx in np.ndindex(*c.shape):
            kd[idx] = k * c.d[idx] if not c.dm[idx] else env.const(1)
        M2 = dadi.Spectrum(kd, mask=c.mm.copy(), mask_corners=False, data_folded=(c.fold == 'both'),
                           check_folding=False)
        with np.errstate(all='ignore'):
            ll2 = Inference.ll_multinom(M2, c.D)
        l2 = _calls(env, LOGCALLS, 1, 'log')
        if l1 is None or l2 is None:
            return
        ax = []
        if env.symbolic:
            for idx in c.J:
                _eq(env, 'log-arg model%s' % list(idx), l1[0][0][idx], tho * c.mf[idx])
                _eq(env, 'log-arg data%s' % list(idx), l2[0][0][idx], c.d[idx])
                # log(theta*m) - log(d) = log(theta*m/d) <= theta*m/d - 1, multiplied by d > 0
                lam = l1[0][1][idx] - l2[0][1][idx]
                ax.append((c.d[idx] * lam <= tho * c.mf[idx] - c.d[idx]).t)
        env.holds('ll_multinom(model) <= ll_multinom(k*data)', _le_tol(env, ll1, ll2), pre=ax)
    return _with_ack(body)


def body_lemma(env):
    """The multiplied axiom instance used by the Gibbs units follows from log(x) <= x-1: d>0, a<=b => d*a<=d*b."""
    d = env.real('d', lo=0, lo_open=True)
    a = env.real('a')
    b = env.real('b')
    env.assume(a <= b)
    env.holds('d*a <= d*b', _le_tol(env, d * a, d * b))


def body_foldmismatch(P):
    """A folded model against unfolded data cannot be compared: ValueError (no silent nonsense)."""
    def body(env):
        from dadi import Inference
        Pm = dict(P, fold='both')
        c = make_inputs(env, Pm)
        import dadi
        D = dadi.Spectrum(c.d, mask=c.dm.copy(), mask_corners=False)
        for fn in (Inference.ll, Inference.ll_multinom):
            try:
                with np.errstate(all='ignore'):
                    fn(c.M, D)
                env.fail('%s accepted folded model with unfolded data' % fn.__name__)
            except ValueError:
                env.holds('%s rejects' % fn.__name__, True)
    return _with_ack(body)


# ----------------------------------------------------------------------------------------------------------------
def _flat(shape, pts):
    a = np.zeros(shape, dtype=int)
    for p in pts:
        a[p] = 1
    return [int(x) for x in a.ravel()]


def _corners(shape):
    return [tuple(0 for _ in shape), tuple(s - 1 for s in shape)]


def _name(P):
    return '%s-m%s-d%s%s' % ('x'.join(map(str, P['shape'])), ''.join(map(str, P['mm'])),
                             ''.join(map(str, P['dm'])), '' if P.get('fold', 'none') == 'none' else '-fold' + P['fold'])


def joint_of(P):
    """Joint mask (numpy bool) of a case, by the independent folding oracle on masks only."""
    shape = tuple(P['shape'])
    mm = np.array(P['mm'], dtype=bool).reshape(shape)
    dm = np.array(P['dm'], dtype=bool).reshape(shape)
    fold = P.get('fold', 'none')
    fo = folded_out(shape)
    if fold in ('data', 'both'):
        dm = dm | fo
    if fold == 'both':
        mm = mm | fo
    if fold == 'data':
        mfm = np.zeros(shape, dtype=bool)
        for idx in np.ndindex(*shape):
            mfm[idx] = fo[idx] or mm[idx] or mm[_rev(shape, idx)] or sum(idx) == 0
        mm = mfm
    return mm | dm


def pattern_pairs(shape, seed, allpairs=False, maxmasked=None, nrand=3, corners='masked'):
    """(mm, dm) flat pattern pairs with independent inner patterns.  corners: 'masked' (both), 'model-open'
    (model corners unmasked, data masked), 'open' (unmasked in both)."""
    import random
    inner = [idx for idx in np.ndindex(*shape) if idx not in _corners(shape)]
    cm = [] if corners in ('open', 'model-open') else _corners(shape)
    cd = [] if corners == 'open' else _corners(shape)
    out = []
    if allpairs:
        subs = []
        for k in range(len(inner) + 1):
            if maxmasked is not None and k > maxmasked:
                break
            subs += list(itertools.combinations(inner, k))
        for a in subs:
            for b in subs:
                out.append((_flat(shape, cm + list(a)), _flat(shape, cd + list(b))))
        return out
    rng = random.Random(1000 * seed + sum(shape) * 7 + len(shape))
    out.append((_flat(shape, cm), _flat(shape, cd)))
    out.append((_flat(shape, cm + [inner[0]]), _flat(shape, cd + [inner[-1]])))
    out.append((_flat(shape, cm + inner[:2]), _flat(shape, cd + inner[1:2])))
    tries = 0
    while len(out) < 3 + nrand and tries < 400:
        tries += 1
        a = [i for i in inner if rng.random() < 0.3]
        b = [i for i in inner if rng.random() < 0.3]
        if a != b and (a or b):
            pr = (_flat(shape, cm + a), _flat(shape, cd + b))
            if pr not in out:
                out.append(pr)
    return out


def units(tier, seed):
    us = []
    thorough = tier == 'thorough'
    cases = []

    def add(shape, fold='none', **kw):
        for mm, dm in pattern_pairs(shape, seed, **kw):
            P = dict(shape=list(shape), mm=mm, dm=dm, fold=fold)
            if not joint_of(P).all() and P not in cases:
                cases.append(P)
    # --- unfolded model, unfolded data
    add((4,), allpairs=True)
    add((5,), allpairs=thorough, nrand=2)
    add((2, 3), allpairs=thorough, maxmasked=2, nrand=2)
    add((3, 3), nrand=6 if thorough else 2)
    add((2, 2, 2), nrand=6 if thorough else 2)
    add((4,), corners='model-open', nrand=1)
    if thorough:
        add((3, 4), nrand=3)
        add((2, 2, 3), nrand=3)
        add((2, 3), corners='model-open', nrand=2)
    # --- folded data against an unfolded model (auto-fold) and against an already folded model
    for shape, nr in (((4,), 2), ((5,), 2), ((2, 3), 1), ((3, 3), 2 if thorough else 1)) + \
            ((((2, 2, 2), 2), ((6,), 3), ((3, 4), 2)) if thorough else ()):
        add(shape, fold='data', nrand=nr)
        add(shape, fold='data', corners='model-open', nrand=0)
        add(shape, fold='both', nrand=0 if not thorough else 1)
    ncore = len(cases)
    for P in cases:
        nJ = int((~joint_of(P)).sum())
        nm = _name(P)
        us.append(H.Unit('ll-' + nm, body_ll(P), params=P, setup=_setup, min_obligations=3 * nJ + 3,
                         expect_paths=1, timeout_s=300, maxpaths=400))
        us.append(H.Unit('mn-' + nm, body_mn(P), params=P, setup=_setup, min_obligations=3 * nJ + 4,
                         expect_paths=1, timeout_s=300, maxpaths=400))
    # --- corners unmasked in BOTH spectra: equal masks, and differing masks (Numerics.intersect_masks must not
    #     re-mask the corners: theta is over the entries masked in neither)
    ccases = []
    for shape in ((4,), (2, 3)) + (((5,), (3, 3), (2, 2, 2)) if thorough else ()):
        inner = [idx for idx in np.ndindex(*shape) if idx not in _corners(shape)]
        ccases.append(('corners-equalmask-', dict(shape=list(shape), mm=_flat(shape, inner[:1]),
                                                  dm=_flat(shape, inner[:1]), fold='none')))
        ccases.append(('corners-unmasked-', dict(shape=list(shape), mm=_flat(shape, inner[:1]),
                                                 dm=_flat(shape, []), fold='none')))
        ccases.append(('corners-unmasked-', dict(shape=list(shape), mm=_flat(shape, []),
                                                 dm=_flat(shape, inner[-1:]), fold='none')))
        ccases.append(('corners-unmasked-', dict(shape=list(shape), mm=_flat(shape, inner[:1]),
                                                 dm=_flat(shape, inner[-1:]), fold='none')))
    for pref, P in ccases:
        nJ = int((~joint_of(P)).sum())
        us.append(H.Unit(pref + 'mn-' + _name(P), body_mn(P), params=P, setup=_setup, min_obligations=3 * nJ + 4,
                         expect_paths=1, timeout_s=300, maxpaths=400))
        us.append(H.Unit(pref + 'll-' + _name(P), body_ll(P), params=P, setup=_setup, min_obligations=3 * nJ + 3,
                         expect_paths=1, timeout_s=300, maxpaths=400))
        us.append(H.Unit(pref + 'max-' + _name(P), body_max(P), params=P, setup=_setup, min_obligations=2 * nJ + 1,
                         expect_paths=1, timeout_s=300, maxpaths=400))
    # --- rescaling: invariance and maximum over c > 0; residuals
    sub = [P for P in cases if int(np.prod(P['shape'])) <= (9 if thorough else 6)]
    step = 2 if thorough else 3
    for k, P in enumerate(sub):
        nJ = int((~joint_of(P)).sum())
        nm = _name(P)
        if step == 1 or k % step == 0 or P['fold'] != 'none':
            us.append(H.Unit('inv-' + nm, body_inv(P), params=P, setup=_setup, min_obligations=3 * nJ + 3,
                             expect_paths=1, timeout_s=300, maxpaths=400))
        if step == 1 or k % step == 1 or P['fold'] != 'none':
            us.append(H.Unit('max-' + nm, body_max(P), params=P, setup=_setup, min_obligations=2 * nJ + 1,
                             expect_paths=1, timeout_s=300, maxpaths=400))
        if step == 1 or k % step == 2 % step or P['fold'] != 'none':
            us.append(H.Unit('resid-' + nm, body_resid(P, 'none'), params=dict(P, lvl='none'), setup=_setup,
                             min_obligations=4 * nJ + 1, expect_paths=1, timeout_s=300, maxpaths=400))
        if nJ <= (5 if thorough else 3) and (step == 1 or k % step == 0 or P['fold'] != 'none'):
            us.append(H.Unit('resid-lvl-' + nm, body_resid(P, 'sym'), params=dict(P, lvl='sym'), setup=_setup,
                             min_obligations=2 * nJ + 1, expect_paths=2 ** nJ, timeout_s=600, maxpaths=3000))
    # --- call history: the same data VALUES evaluated under different masks in one process (a memoised term keyed on
    #     the values alone would go stale); both evaluations must match their own oracle
    def body_hist(Ps):
        bodies = [body_ll(P_) for P_ in Ps] + [body_mn(P_) for P_ in Ps[:1]]

        def body(env):
            for b_ in bodies:
                b_(env)
        return body
    hshapes = [((5,), [[1, 0, 1, 0, 1], [1, 0, 0, 0, 1], [1, 1, 0, 0, 1]]),
               ((2, 3), [[1, 0, 1, 0, 0, 1], [1, 0, 0, 0, 0, 1], [1, 0, 0, 1, 0, 1]])]
    for shape, dms in hshapes:
        corner = [1] + [0] * (int(np.prod(shape)) - 2) + [1]
        for order in (dms, dms[::-1]):
            Ps = [dict(shape=list(shape), mm=corner, dm=dm_, fold='none') for dm_ in order]
            nJ = sum(int((~joint_of(P_)).sum()) for P_ in Ps)
            us.append(H.Unit('hist-ll-%s-%s' % ('x'.join(map(str, shape)), '_'.join(''.join(map(str, d_)) for d_ in order)),
                             body_hist(Ps), params=dict(shape=list(shape), dms=order), setup=_setup,
                             min_obligations=3 * nJ, expect_paths=1, timeout_s=300, maxpaths=400))
    # --- Anscombe residual (sign / masking; fractional powers uninterpreted)
    for P in [dict(shape=[4], mm=[1, 0, 0, 1], dm=[1, 0, 0, 1], fold='none'),
              dict(shape=[5], mm=[1, 0, 1, 0, 1], dm=[1, 0, 0, 0, 1], fold='none'),
              dict(shape=[2, 3], mm=[1, 0, 0, 0, 0, 1], dm=[1, 0, 0, 1, 0, 1], fold='none')]:
        nJ = int((~joint_of(P)).sum())
        for um in (False, True):
            us.append(H.Unit('anscombe-%s-%s' % (_name(P), 'masklevel0' if um else 'nomask'), body_anscombe(P, um),
                             params=dict(P, mask=um), setup=_setup, min_obligations=2 * nJ, timeout_s=300, maxpaths=400))
    # --- folded model against unfolded data is rejected
    P = dict(shape=[4], mm=[1, 0, 0, 1], dm=[1, 0, 0, 1], fold='none')
    us.append(H.Unit('fold-mismatch-rejected', body_foldmismatch(P), params=P, setup=_setup, min_obligations=2))
    # --- stretch: model == const*data maximises the multinomial likelihood over all models (Gibbs inequality)
    us.append(H.Unit('gibbs-lemma', body_lemma, setup=_setup, min_obligations=1, stretch=True))
    gshapes = [((4,), [1, 0, 0, 1]), ((5,), [1, 0, 0, 0, 1]), ((5,), [1, 0, 1, 0, 1])]
    if thorough:
        gshapes += [((6,), [1, 0, 0, 0, 0, 1]), ((2, 3), [1, 0, 0, 0, 0, 1]), ((2, 2, 2), [1, 0, 0, 1, 0, 1, 0, 1])]
    for shape, mk in gshapes:
        P = dict(shape=list(shape), mm=mk, dm=mk, fold='none')
        nJ = int((~joint_of(P)).sum())
        us.append(H.Unit('gibbs-' + _name(P), body_gibbs(P), params=P, setup=_setup, min_obligations=2 * nJ + 1,
                         expect_paths=1, timeout_s=600, maxpaths=50, stretch=True, query_timeout_ms=120000))
    for u in us:
        if u.name != 'gibbs-lemma':
            u.replay = _replay_for(u.body)
    return us
