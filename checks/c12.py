"""C12 - optimisers honour bounds and fixed parameters and report the point they found (plumbing fragment).

Real code executed symbolically (numpy object arrays of z3 reals): Inference._project_params_down/_up,
Inference._object_func/_object_func_log, NLopt_mod.opt, the legacy scipy wrappers of Inference
(optimize, optimize_log, optimize_lbfgsb, optimize_log_lbfgsb, optimize_log_fmin, optimize_log_powell,
optimize_cons, optimize_grid) and Misc.perturb_params.  The third-party optimisers themselves (nlopt.opt,
scipy.optimize.fmin_*) are replaced by *contract stubs*: "evaluate the objective at the start first, at some
solver-chosen points (inside the bounds the stub was given, if it was given any), at the returned point last,
report the objective value of the returned point".  The model function is a recorder; Inference.ll / ll_multinom
are recorders returning one solver real per model evaluation.
"""
import contextlib
import itertools
import logging
import math
from fractions import Fraction as Fr

import numpy as np
import z3

from engine import harness as H
from engine import shims
from engine import symreal as S

META = dict(
    explanation=(
        'Plumbing around the optimisers, for every fixed-parameter mask of 1-4 parameter models and symbolic '
        'parameter values, bounds, fixed values, likelihood values and ll_scale: (A) _project_params_down/_up select '
        'and re-insert exactly the free positions, are mutually inverse, handle list/tuple/array/scalar/None and '
        'reject length mismatches; (B) _object_func calls the model exactly when lower<=params<=upper (path '
        'condition implies the bounds at every call), with the fixed values at their positions, sample sizes, extra '
        'args and pts keyword, uses ll_multinom iff multinom, returns -ll/ll_scale, the penalty 1e8/ll_scale on '
        'out-of-bounds paths and on a NaN likelihood, and does not mutate func_kwargs; (C) NLopt_mod.opt with '
        'nlopt.opt replaced by a contract stub: bounds/start handed to the optimiser are the (log of the) user '
        'bounds/start of the free parameters in order, the start is inside them, the first model evaluation is at '
        'the user start (fixed values substituted), every model evaluation lies inside the user bounds, the '
        'returned vector has fixed values unchanged, equals the (exp of the) point the optimiser returned = the '
        'last evaluated point, lies inside the bounds, and the reported optimum is the log-likelihood of exactly '
        'that evaluation, maximised, for log_opt on and off and multinom on and off; (D) the same laws for the '
        'scipy wrappers with scipy.optimize.fmin_bfgs/fmin/fmin_powell/fmin_l_bfgs_b/fmin_slsqp/brute replaced by '
        'contract stubs (unconstrained ones: any real point, result no worse than the start; bounded ones: points '
        'inside the bounds they are given), including fopt = -ll/ll_scale of the returned point; (E) '
        'Misc.perturb_params with numpy.random.uniform replaced by solver reals in [0,1): result = '
        'min(max(p*2**(fold*(2u-1)), 1.01*lower), 0.99*upper) entry by entry, within [lower, upper] for '
        '0<=lower<=0.99*upper.'),
    functions=['dadi.Inference._project_params_down', 'dadi.Inference._project_params_up',
               'dadi.Inference._object_func', 'dadi.Inference._object_func_log', 'dadi.NLopt_mod.opt',
               'dadi.Inference.optimize', 'dadi.Inference.optimize_log', 'dadi.Inference.optimize_lbfgsb',
               'dadi.Inference.optimize_log_lbfgsb', 'dadi.Inference.optimize_log_fmin',
               'dadi.Inference.optimize_log_powell', 'dadi.Inference.optimize_cons', 'dadi.Inference.optimize_grid',
               'dadi.Misc.perturb_params'],
    files=['dadi/Inference.py', 'dadi/NLopt_mod.py', 'dadi/Misc.py'],
    bounds=dict(
        quick='1-3 parameters with every fixed mask, 4 parameters with 5 masks; bounds patterns both/none/holes/'
              'one-sided; multinom alternating over the units; 3 objective evaluations per optimiser run (start, one '
              'intermediate, returned point); perturb_params 1-3 parameters, fold 1 and 2',
        thorough='1-4 parameters with every fixed mask, both multinom settings and all bounds patterns for every '
                 'optimiser; perturb_params 1-4 parameters, fold 1, 2, 3 and 1/2 (4 parameters with two-sided bounds: fold 1)'),
    outside=['what nlopt / scipy actually do (which points they visit, that they evaluate the start first, that the '
             'result is no worse than the start): compiled / iterative third-party code, replaced by the contract',
             'the nlopt.RoundoffLimited fallback (returns nan parameters by design)',
             'log_opt / log wrappers with a missing (None) bound (log(-inf) = nan handed to the optimiser)',
             'verbose output formatting, output_file handling, optimize_grid(full_output=True) theta bookkeeping (the returned parameters and fopt are checked with an empty evaluation grid)',
             'optimize_log_resid', 'a model with zero free parameters for the optimisers',
             'perturb_params with negative bounds or bounds closer than 1% (the multiplicative clamp leaves [lower, '
             'upper] there; see report)', 'float round-off (exp(log(x)) == x up to 1 ulp)'],
    stubs=['nlopt.opt -> contract stub class (records bounds/settings; optimize(x0): f(x0) first, f(xm), f(xs) with '
           'solver-chosen xm, xs inside the recorded bounds, f(xs) no worse than f(x0) in the direction set, returns '
           'xs, last_optimum_value = f(xs))',
           'scipy.optimize.fmin_bfgs / fmin / fmin_powell -> contract stub: f(x0) first, arbitrary real xm, xs, '
           'assumes f(xs) <= f(x0) (returned point no worse than the start), returns (xs, f(xs), ...)',
           'scipy.optimize.fmin_l_bfgs_b / fmin_slsqp -> contract stub: xm, xs inside the bounds list it is given',
           'scipy.optimize.brute -> contract stub: two solver-chosen points, returns the last (scalar for 1 dim)',
           'model_func -> recorder; Inference.ll / ll_multinom / optimal_sfs_scaling -> recorders returning one '
           'solver real per model evaluation',
           'numpy.random.uniform -> solver reals in [0,1)',
           'EXP/LOG/POW uninterpreted with axiom instances added by the harness: EXP(LOG x)=x for x>0, LOG and EXP '
           'monotone on the pairs (bound, start) and (log-bound, optimiser point), LOG(EXP t)=t built in',
           'numpy.maximum/minimum inside Misc -> elementwise forking max/min that understands +-inf entries',
           'numpy array constructors -> object arrays'],
    assumptions=['doubles modelled as reals', 'start inside the bounds, fixed values inside their bounds',
                 'log parametrisation: start and bounds of free parameters > 0',
                 'penalty-based scipy wrappers: log-likelihood at the start > -1e8 (better than the penalty) and '
                 'll_scale > 0', 'perturb_params: 0 <= lower <= 0.99*upper', 'recorded denominators != 0'],
)

PENALTY = Fr(10 ** 8)
C101 = Fr(1.01)     # exact binary values of the float literals used by perturb_params
C099 = Fr(0.99)


# ----------------------------------------------------------------------------------------------------------------
# small helpers
def _setup():
    from dadi import Inference, Misc, NLopt_mod
    for nm in ('Inference', 'Misc', 'Numerics'):
        logging.getLogger(nm).setLevel(logging.ERROR)
    shims.install_numpy(Inference)
    shims.install_numpy(NLopt_mod)
    shims.install_numpy(Misc, overrides=dict(maximum=_maximum, minimum=_minimum))


def _isinf(b):
    return isinstance(b, (float, np.floating)) and math.isinf(b)


def _pick(cond, a, b):
    return a if bool(cond) else b


def _maximum(a, b):
    """numpy.maximum for object arrays that may hold +-inf floats next to Sym (forks on symbolic comparisons)."""
    a = np.asarray(a, dtype=object)
    b = np.asarray(b, dtype=object)
    a, b = np.broadcast_arrays(a, b)
    out = np.empty(a.shape, dtype=object)
    for idx in np.ndindex(*a.shape):
        x, y = a[idx], b[idx]
        if _isinf(y):
            out[idx] = x if y < 0 else y
        elif _isinf(x):
            out[idx] = y if x < 0 else x
        else:
            out[idx] = _pick(x >= y, x, y)
    return out


def _minimum(a, b):
    a = np.asarray(a, dtype=object)
    b = np.asarray(b, dtype=object)
    a, b = np.broadcast_arrays(a, b)
    out = np.empty(a.shape, dtype=object)
    for idx in np.ndindex(*a.shape):
        x, y = a[idx], b[idx]
        if _isinf(y):
            out[idx] = x if y > 0 else y
        elif _isinf(x):
            out[idx] = y if x > 0 else x
        else:
            out[idx] = _pick(x <= y, x, y)
    return out


class _Over(object):
    """Namespace wrapper: attributes given in `over` first, everything else from `base`."""

    def __init__(self, base, **over):
        object.__setattr__(self, '_base', base)
        object.__setattr__(self, '_over', over)

    def __getattr__(self, k):
        o = object.__getattribute__(self, '_over')
        if k in o:
            return o[k]
        return getattr(object.__getattribute__(self, '_base'), k)


@contextlib.contextmanager
def patched(*triples):
    saved = [(o, n, getattr(o, n)) for o, n, _ in triples]
    for o, n, v in triples:
        setattr(o, n, v)
    try:
        yield
    finally:
        for o, n, v in reversed(saved):
            setattr(o, n, v)


def _arr(env, lst):
    lst = list(lst)
    if env.symbolic:
        a = np.empty(len(lst), dtype=object)
        for i, v in enumerate(lst):
            a[i] = v
        return a
    return np.array(lst, dtype=float)


def _log(v):
    return v.log() if isinstance(v, S.Sym) else math.log(v)


def _exp(v):
    return v.exp() if isinstance(v, S.Sym) else math.exp(v)


def _assume_once(env, f):
    """Global (path-independent) assumption, added once per unit run."""
    seen = env.__dict__.setdefault('_c12_seen', set())
    k = f.get_id()
    if k in seen:
        return
    seen.add(k)
    env.assume(f)


class Ax(object):
    """Instances of true statements about exp/log on the reals for the uninterpreted EXP/LOG (symbolic run only)."""

    def __init__(self, env):
        self.env = env
        self.on = env.symbolic

    @staticmethod
    def _t(x):
        return S.tz(x)

    def explog(self, x):
        if self.on and isinstance(x, S.Sym):
            t = self._t(x)
            _assume_once(self.env, z3.Implies(t > 0, S.UF['EXP'](S.UF['LOG'](t)) == t))

    def log_zero(self, x):
        # log(x) = 0 exactly when x = 1
        if self.on and isinstance(x, S.Sym):
            t = self._t(x)
            _assume_once(self.env, z3.Implies(t > 0, (S.UF['LOG'](t) == 0) == (t == 1)))

    def log_mono(self, a, b):
        if self.on and isinstance(a, S.Sym) and isinstance(b, S.Sym):
            ta, tb = self._t(a), self._t(b)
            _assume_once(self.env, z3.Implies(z3.And(ta > 0, ta <= tb), S.UF['LOG'](ta) <= S.UF['LOG'](tb)))

    def exp_mono(self, a, b):
        if self.on and isinstance(a, S.Sym) and isinstance(b, S.Sym):
            ta, tb = self._t(a), self._t(b)
            _assume_once(self.env, z3.Implies(ta <= tb, S.UF['EXP'](ta) <= S.UF['EXP'](tb)))


def mask_name(mask):
    return ''.join('F' if m else 'v' for m in mask)


def all_masks(n):
    return [tuple(bool(b) for b in bits) for bits in itertools.product((0, 1), repeat=n)]


class Rec(object):
    def __init__(self):
        self.calls = []
        self.ll = []


class ModelOut(object):
    def __init__(self, idx):
        self.idx = idx


class Data(object):
    sample_sizes = (5, 3)


def make_model(rec):
    def model(params, ns, *fargs, **kw):
        rec.calls.append(dict(params=[p for p in params], ns=ns, fargs=tuple(fargs), kw=dict(kw)))
        return ModelOut(len(rec.calls) - 1)
    return model


def make_ll(env, rec, kind, data, first_above_penalty=False, nan=False):
    def ll(sfs, d):
        k = sfs.idx
        if nan:
            v = float('nan')
        elif first_above_penalty and k == 0:
            v = env.real('%s%d' % (kind, k), lo=-PENALTY, lo_open=True)
        else:
            v = env.real('%s%d' % (kind, k))
        rec.ll.append(dict(kind=kind, idx=k, value=v, data_ok=(d is data), sfs_ok=isinstance(sfs, ModelOut)))
        return v
    return ll


def bounds_lists(env, n, bpat, positive_idx=()):
    """User-level lower/upper lists for a bounds pattern; entries are solver reals or None."""
    def lo(i):
        return env.real('lo%d' % i, lo=0, lo_open=True) if i in positive_idx else env.real('lo%d' % i)

    def up(i):
        return env.real('up%d' % i, lo=0, lo_open=True) if i in positive_idx else env.real('up%d' % i)
    if bpat == 'both':
        return [lo(i) for i in range(n)], [up(i) for i in range(n)]
    if bpat == 'none':
        return None, None
    if bpat == 'lower':
        return [lo(i) for i in range(n)], None
    if bpat == 'upper':
        return None, [up(i) for i in range(n)]
    if bpat == 'holes':   # every parameter keeps exactly one of its two bounds
        return ([lo(i) if i % 2 == 0 else None for i in range(n)],
                [up(i) if i % 2 == 1 else None for i in range(n)])
    raise ValueError(bpat)


def fixed_lists(env, n, mask, fp):
    fixedv = [env.real('fix%d' % i) if mask[i] else None for i in range(n)]
    if not any(mask) and fp == 'none':
        return fixedv, None
    return fixedv, list(fixedv)


def assume_inside(env, val, i, lower, upper):
    if lower is not None and lower[i] is not None:
        env.assume(lower[i] <= val)
    if upper is not None and upper[i] is not None:
        env.assume(val <= upper[i])


class Obl(object):
    """Obligation sink that attaches the path-dependent contract assumptions of the stubs to every obligation."""

    def __init__(self, env):
        self.env = env
        self.extra = []
        self.dead = False

    def path_assume(self, cond):
        """Assumption whose term depends on the path (so it must not become a global precondition).  If the path
        cannot satisfy it the path is marked dead (no behaviour of a contract-abiding optimiser): the body must
        return without further branching (raising PathInfeasible here would lose sibling paths)."""
        if self.env.symbolic:
            if isinstance(cond, S.SymBool):
                if S.CUR.feasible(cond.t):
                    S.CUR.solver.add(cond.t)
                    self.extra.append(cond.t)
                else:
                    self.dead = True
            elif not cond:
                self.dead = True

    def eq(self, label, a, b):
        if a is None or b is None or isinstance(a, str) or isinstance(b, str):
            return self.holds(label + ' (not a number)', a is b)
        self.env.eq(label, a, b, pre=tuple(self.extra))

    def holds(self, label, c):
        self.env.holds(label, c, pre=tuple(self.extra))


# ----------------------------------------------------------------------------------------------------------------
# (A) projection around fixed values
def make_proj_body(n, mask):
    free = [i for i in range(n) if not mask[i]]
    nf = len(free)

    def body(env):
        from dadi import Inference
        down, up = Inference._project_params_down, Inference._project_params_up
        fixedv = [env.real('fix%d' % i) if mask[i] else None for i in range(n)]
        fixed_params = list(fixedv)
        full = [env.real('p%d' % i) for i in range(n)]
        q = [env.real('q%d' % j) for j in range(nf)]
        merged = [fixedv[i] if mask[i] else full[i] for i in range(n)]
        for cname, conv in (('list', list), ('tuple', tuple), ('array', lambda v: _arr(env, v))):
            d = down(conv(full), fixed_params)
            env.holds('down(%s) length' % cname, len(d) == nf)
            for j, i in enumerate(free):
                env.eq('down(%s)[%d] is entry %d' % (cname, j, i), d[j], full[i])
            if nf:
                u = up(conv(q), fixed_params)
                env.holds('up(%s) length' % cname, len(u) == n)
                for i in range(n):
                    env.eq('up(%s)[%d]' % (cname, i), u[i], fixedv[i] if mask[i] else q[free.index(i)])
        # mutually inverse
        dd = down(up(_arr(env, q), fixed_params), fixed_params)
        env.holds('down(up(q)) length', len(dd) == nf)
        for j in range(nf):
            env.eq('down(up(q))[%d]' % j, dd[j], q[j])
        uu = up(down(list(merged), fixed_params), fixed_params)
        env.holds('up(down(p)) length', len(uu) == n)
        for i in range(n):
            env.eq('up(down(p))[%d]' % i, uu[i], merged[i])
        u2 = up(down(list(full), fixed_params), fixed_params)     # fixed positions of the input are ignored
        for i in range(n):
            env.eq('up(down(p_any))[%d]' % i, u2[i], merged[i])
        # the input is not modified
        qa = _arr(env, q)
        up(qa, fixed_params)
        for j in range(nf):
            env.eq('up leaves its input alone [%d]' % j, qa[j], q[j])
        # scalar input (what scipy.optimize.brute returns for one free parameter)
        if nf == 1:
            us = up(q[0], fixed_params)
            env.holds('up(scalar) length', len(us) == n)
            for i in range(n):
                env.eq('up(scalar)[%d]' % i, us[i], fixedv[i] if mask[i] else q[0])
        # bounds lists with None entries survive the projection
        bl = [None if i % 2 == 0 else full[i] for i in range(n)]
        db = down(bl, fixed_params)
        env.holds('down(bounds) length', len(db) == nf)
        for j, i in enumerate(free):
            if i % 2 == 0:
                env.holds('down(bounds)[%d] None' % j, db[j] is None)
            else:
                env.eq('down(bounds)[%d]' % j, db[j], full[i])
        # no fixed parameters: identity
        lst = list(full)
        env.holds('down(None) identity', down(lst, None) is lst)
        env.holds('up(None) identity', up(lst, None) is lst)
        if not any(mask):
            d0 = down(list(full), [None] * n)
            u0 = up(list(full), [None] * n)
            for i in range(n):
                env.eq('down(all free)[%d]' % i, d0[i], full[i])
                env.eq('up(all free)[%d]' % i, u0[i], full[i])
        # length mismatch is rejected
        try:
            down(list(full) + [full[0]], fixed_params)
            env.fail('down accepted a longer vector')
        except ValueError:
            env.holds('down rejects longer vector', True)
        if n > 1:
            try:
                down(list(full)[:-1], fixed_params)
                env.fail('down accepted a shorter vector')
            except ValueError:
                env.holds('down rejects shorter vector', True)
    return body


# ----------------------------------------------------------------------------------------------------------------
# (B) objective function
def make_objfunc_body(n, mask, bpat, multinom, variant, fp):
    free = [i for i in range(n) if not mask[i]]
    nf = len(free)

    def body(env):
        from dadi import Inference
        fixedv, fixed_params = fixed_lists(env, n, mask, fp)
        x = [env.real('x%d' % j) for j in range(nf)]
        lower, upper = bounds_lists(env, n, bpat)
        scale = env.real('scale', lo=0, lo_open=True) if variant != 'noscale' else None
        full = [fixedv[i] if mask[i] else x[free.index(i)] for i in range(n)]
        rec = Rec()
        data = Data()
        model = make_model(rec)
        fa = env.real('farg')
        pts = [40, 50]
        kw = dict(extra='tok')
        kw_before = dict(kw)
        thetav = env.real('theta')
        kwargs = dict(lower_bound=lower, upper_bound=upper, multinom=multinom, func_args=[fa, 7], func_kwargs=kw,
                      fixed_params=fixed_params, output_stream=None)
        if scale is not None:
            kwargs['ll_scale'] = scale
        if variant == 'thetas':
            kwargs['store_thetas'] = True
        lo_in = [None if lower is None or lower[i] is None else lower[i] for i in range(n)]
        up_in = [None if upper is None or upper[i] is None else upper[i] for i in range(n)]
        params = _arr(env, x) if variant != 'listparams' else list(x)
        with patched((Inference, 'll', make_ll(env, rec, 'llp', data, nan=(variant == 'nan'))),
                     (Inference, 'll_multinom', make_ll(env, rec, 'llm', data, nan=(variant == 'nan'))),
                     (Inference, 'optimal_sfs_scaling', lambda sfs, d: thetav)):
            if variant == 'log':
                for v in x:
                    env.assume(v > 0)
                logx = [_log(v) for v in x]
                ax = Ax(env)
                for v in x:
                    ax.explog(v)
                args = (data, model, pts, lower, upper, 0, multinom, 0, [fa, 7], kw, fixed_params,
                        scale, None)
                res = Inference._object_func_log(_arr(env, logx), *args)
            else:
                res = Inference._object_func(params, data, model, pts, **kwargs)
        sc = scale if scale is not None else 1
        oob = False
        for i in range(n):
            if lo_in[i] is not None:
                oob = oob | (full[i] < lo_in[i])
            if up_in[i] is not None:
                oob = oob | (full[i] > up_in[i])
        if rec.calls:
            env.holds('model called once', len(rec.calls) == 1)
            c = rec.calls[0]
            env.holds('model sees n parameters', len(c['params']) == n)
            for i in range(n):
                env.eq('model param[%d]' % i, c['params'][i], full[i])
                if lo_in[i] is not None:
                    env.holds('model param[%d] >= lower' % i, c['params'][i] >= lo_in[i])
                if up_in[i] is not None:
                    env.holds('model param[%d] <= upper' % i, c['params'][i] <= up_in[i])
            env.holds('called only inside the bounds', ~oob if isinstance(oob, S.SymBool) else (not oob))
            env.holds('sample sizes', c['ns'] == Data.sample_sizes)
            env.holds('extra args', len(c['fargs']) == 2 and c['fargs'][1] == 7)
            env.eq('extra arg value', c['fargs'][0], fa)
            env.holds('keywords', c['kw'] == dict(extra='tok', pts=pts))
            env.holds('func_kwargs not mutated', kw == kw_before)
            env.holds('one likelihood call', len(rec.ll) == 1)
            env.holds('likelihood kind', rec.ll[0]['kind'] == ('llm' if multinom else 'llp'))
            env.holds('likelihood args', rec.ll[0]['data_ok'] and rec.ll[0]['sfs_ok'])
            if variant == 'nan':
                env.eq('NaN likelihood -> penalty', res, env.const(PENALTY) / sc)
            else:
                env.eq('value = -ll/ll_scale', res, -rec.ll[0]['value'] / sc)
            if variant == 'thetas':
                key = tuple(params)
                env.holds('theta stored under the optimiser-level vector', key in Inference._theta_store)
                if key in Inference._theta_store:
                    env.eq('theta value', Inference._theta_store[key], thetav)
        else:
            env.holds('not called => out of bounds', oob)
            env.eq('penalty', res, env.const(PENALTY) / sc)
            env.holds('no likelihood call', len(rec.ll) == 0)
    return body


# ----------------------------------------------------------------------------------------------------------------
# (C) NLopt driver
class Ctx(object):
    def __init__(self, env):
        self.env = env
        self.opts = []
        self.noptimize = 0
        self.nevals = 0
        self.x0 = None
        self.points = []      # solver-chosen points [(tag, [values])]
        self.xlast = None
        self.vlast = None
        self.v0 = None
        self.scipy_calls = []
        self.bounds = None
        self.kw = None
        self.rec = None
        self.calls_after_start = None

    def fresh(self, name, lb, ub):
        env = self.env
        v = env.real(name)
        lbf = lb is not None and not _isinf(lb)
        ubf = ub is not None and not _isinf(ub)
        if env.symbolic:
            if lbf:
                _assume_once(env, S.tz(v) >= S.tz(lb))
            if ubf:
                _assume_once(env, S.tz(v) <= S.tz(ub))
            return v
        if lbf and not v >= lb:
            v = float(lb)
        if ubf and not v <= ub:
            v = float(ub)
        return v


class StubOpt(object):
    """Contract stub for nlopt.opt."""

    def __init__(self, ctx, algorithm, n):
        self.ctx = ctx
        self.algorithm = algorithm
        self.n = n
        self.lb = self.ub = None
        self.f = None
        self.sign = 0
        self.ineq = []
        self.eqc = []
        self.settings = {}
        self.local = None
        self.last = None
        ctx.opts.append(self)

    def set_lower_bounds(self, lb):
        lb = list(lb)
        if len(lb) != self.n:
            raise ValueError('nlopt invalid argument (dimension)')
        self.lb = lb

    def set_upper_bounds(self, ub):
        ub = list(ub)
        if len(ub) != self.n:
            raise ValueError('nlopt invalid argument (dimension)')
        self.ub = ub

    def add_inequality_constraint(self, c, tol=0):
        self.ineq.append((c, tol))

    def add_equality_constraint(self, c, tol=0):
        self.eqc.append((c, tol))

    def set_stopval(self, v): self.settings['stopval'] = v
    def set_ftol_abs(self, v): self.settings['ftol_abs'] = v
    def set_xtol_abs(self, v): self.settings['xtol_abs'] = v
    def set_maxeval(self, v): self.settings['maxeval'] = v
    def set_maxtime(self, v): self.settings['maxtime'] = v
    def set_local_optimizer(self, o): self.local = o

    def set_max_objective(self, f):
        self.f, self.sign = f, 1

    def set_min_objective(self, f):
        self.f, self.sign = f, -1

    def optimize(self, x0):
        ctx = self.ctx
        ctx.noptimize += 1
        x0 = list(x0)
        if len(x0) != self.n:
            raise ValueError('nlopt invalid argument (dimension of x0)')
        ctx.x0 = x0
        lb = self.lb if self.lb is not None else [None] * self.n
        ub = self.ub if self.ub is not None else [None] * self.n
        grad = np.array([])
        ctx.v0 = self.f(_arr(ctx.env, x0), grad)
        ctx.nevals += 1
        x = v = None
        for tag in ('m', 's'):
            x = [ctx.fresh('x%s%d' % (tag, j), lb[j], ub[j]) for j in range(self.n)]
            ctx.points.append((tag, x))
            v = self.f(_arr(ctx.env, x), grad)
            ctx.nevals += 1
        # contract: the returned point is no worse than the start (in the direction being optimised)
        sgn = self.sign if self.sign else 1
        if ctx.env.symbolic:
            c = (v * sgn >= ctx.v0 * sgn)
            if isinstance(c, S.SymBool):
                _assume_once(ctx.env, c.t)
        elif not (v * sgn >= ctx.v0 * sgn):
            x = list(x0)
            v = self.f(_arr(ctx.env, x), grad)
            ctx.nevals += 1
        ctx.xlast, ctx.vlast = x, v
        self.last = v
        return _arr(ctx.env, x)

    def last_optimum_value(self):
        return self.last

    def last_optimize_result(self):
        return 4


def make_nlopt_body(n, mask, log_opt, multinom, bpat, fp, aslist):
    free = [i for i in range(n) if not mask[i]]
    nf = len(free)

    def body(env):
        import nlopt as real_nlopt
        from dadi import Inference, NLopt_mod
        ax = Ax(env)
        fixedv, fixed_params = fixed_lists(env, n, mask, fp)
        pos = tuple(free) if log_opt else ()
        p0 = [env.real('p%d' % i, lo=0, lo_open=True) if i in pos else env.real('p%d' % i) for i in range(n)]
        lower, upper = bounds_lists(env, n, bpat, positive_idx=pos)
        for i in range(n):
            assume_inside(env, fixedv[i] if mask[i] else p0[i], i, lower, upper)
        if log_opt:
            for i in free:
                ax.explog(p0[i])
                ax.explog(lower[i])
                ax.explog(upper[i])
                ax.log_mono(lower[i], p0[i])
                ax.log_mono(p0[i], upper[i])
        full0 = [fixedv[i] if mask[i] else p0[i] for i in range(n)]
        lo_in = [None if lower is None or lower[i] is None else lower[i] for i in range(n)]
        up_in = [None if upper is None or upper[i] is None else upper[i] for i in range(n)]
        rec = Rec()
        data = Data()
        model = make_model(rec)
        ctx = Ctx(env)
        ns = _Over(real_nlopt, opt=lambda alg, nn: StubOpt(ctx, alg, nn))
        cons = (lambda p, g: 0, Fr(1, 10 ** 6))
        with patched((NLopt_mod, 'nlopt', ns), (Inference, 'll', make_ll(env, rec, 'llp', data)),
                     (Inference, 'll_multinom', make_ll(env, rec, 'llm', data))):
            lb_arg = None if lower is None else list(lower)
            ub_arg = None if upper is None else list(upper)
            fp_keep = None if fixed_params is None else list(fixed_params)
            popt, llopt = NLopt_mod.opt(list(p0) if aslist else _arr(env, p0), data, model, [40, 50],
                                        multinom=multinom, lower_bound=lb_arg, upper_bound=ub_arg,
                                        fixed_params=fixed_params, log_opt=log_opt, func_args=[3],
                                        ineq_constraints=[cons])
        # the caller's bound / fixed-value lists are left exactly as they were (None entries stay None)
        for nm_, got_, want_ in (('lower_bound', lb_arg, lower), ('upper_bound', ub_arg, upper),
                                 ('fixed_params', fixed_params, fp_keep)):
            env.holds("caller's %s list untouched" % nm_,
                      (got_ is None and want_ is None) or
                      (got_ is not None and want_ is not None and len(got_) == len(want_)
                       and all(a_ is b_ for a_, b_ in zip(got_, want_))))
        if not ctx.opts or ctx.noptimize != 1:
            env.fail('optimiser not run exactly once')
            return
        st = [o for o in ctx.opts if o.f is not None][0]
        if log_opt:   # optimiser points vs. log-bounds: monotonicity instances
            for tag, x in ctx.points:
                for j, i in enumerate(free):
                    ax.exp_mono(_log(lower[i]), x[j])
                    ax.exp_mono(x[j], _log(upper[i]))
        tr = _log if log_opt else (lambda v: v)
        env.holds('optimiser dimension = number of free parameters', st.n == nf)
        env.holds('likelihood is maximised', st.sign == 1)
        env.holds('constraint registered', len(st.ineq) == 1 and st.ineq[0][0] is cons[0] and not st.eqc)
        env.holds('bounds set', st.lb is not None and st.ub is not None)
        for j, i in enumerate(free):
            for nm, got, want, sgn in (('lower', st.lb[j], lo_in[i], -1), ('upper', st.ub[j], up_in[i], 1)):
                if want is None:
                    env.holds('optimiser %s bound[%d] infinite' % (nm, j), _isinf(got) and got * sgn > 0)
                else:
                    env.eq('optimiser %s bound[%d]' % (nm, j), got, tr(want))
            env.eq('optimiser start[%d]' % j, ctx.x0[j], tr(p0[i]))
            if lo_in[i] is not None and not _isinf(st.lb[j]):
                env.holds('optimiser start[%d] >= its lower bound' % j, ctx.x0[j] >= st.lb[j])
            if up_in[i] is not None and not _isinf(st.ub[j]):
                env.holds('optimiser start[%d] <= its upper bound' % j, ctx.x0[j] <= st.ub[j])
        env.holds('one model evaluation per objective evaluation', len(rec.calls) == ctx.nevals and ctx.nevals >= 3)
        if len(rec.calls) != ctx.nevals or ctx.nevals < 3:
            return
        for i in range(n):
            env.eq('first evaluation at the user start [%d]' % i, rec.calls[0]['params'][i], full0[i])
        for k, c in enumerate(rec.calls):
            env.holds('evaluation %d sees n parameters' % k, len(c['params']) == n)
            for i in range(n):
                if mask[i]:
                    env.eq('evaluation %d fixed[%d]' % (k, i), c['params'][i], fixedv[i])
                if lo_in[i] is not None:
                    env.holds('evaluation %d param[%d] >= lower' % (k, i), c['params'][i] >= lo_in[i])
                if up_in[i] is not None:
                    env.holds('evaluation %d param[%d] <= upper' % (k, i), c['params'][i] <= up_in[i])
            env.holds('evaluation %d likelihood kind' % k, rec.ll[k]['kind'] == ('llm' if multinom else 'llp'))
            env.holds('evaluation %d extra args' % k, c['fargs'] == (3,) and c['kw'] == dict(pts=[40, 50]))
        env.holds('result length', len(popt) == n)
        untr = _exp if log_opt else (lambda v: v)
        for i in range(n):
            if mask[i]:
                env.eq('returned fixed[%d] unchanged' % i, popt[i], fixedv[i])
            else:
                j = free.index(i)
                env.eq('returned free[%d] = optimiser result' % i, popt[i], untr(ctx.xlast[j]))
            env.eq('returned[%d] = last evaluated point' % i, popt[i], rec.calls[-1]['params'][i])
            if lo_in[i] is not None:
                env.holds('returned[%d] >= lower' % i, popt[i] >= lo_in[i])
            if up_in[i] is not None:
                env.holds('returned[%d] <= upper' % i, popt[i] <= up_in[i])
        env.eq('reported optimum = log-likelihood at the returned point', llopt, rec.ll[-1]['value'])
        env.holds('reported optimum no worse than the likelihood at the start (optimiser contract)',
                  llopt >= rec.ll[0]['value'])
    return body


# ----------------------------------------------------------------------------------------------------------------
# (D) scipy wrappers
WRAPPERS = {
    'optimize_log': dict(fn='fmin_bfgs', log=True, mode='penalty', scale=True, nout=7),
    'optimize': dict(fn='fmin_bfgs', log=False, mode='penalty', scale=True, nout=7),
    'optimize_log_fmin': dict(fn='fmin', log=True, mode='penalty', scale=False, nout=5),
    'optimize_log_powell': dict(fn='fmin_powell', log=True, mode='penalty', scale=False, nout=6),
    'optimize_log_lbfgsb': dict(fn='fmin_l_bfgs_b', log=True, mode='bounds', scale=True, nout=3),
    'optimize_lbfgsb': dict(fn='fmin_l_bfgs_b', log=False, mode='bounds', scale=True, nout=3),
    'optimize_cons': dict(fn='fmin_slsqp', log=False, mode='bounds', scale=True, nout=5),
}


def make_scipy_stub(ctx, ob, fn, mode, nout):
    def stub(f, x0, *pos, **kw):
        env = ctx.env
        ctx.scipy_calls.append(fn)
        ctx.kw = dict(kw)
        args = tuple(kw.get('args', ()))
        x0 = list(x0)
        nd = len(x0)
        ctx.x0 = x0
        bounds = kw.get('bounds', None)
        if mode == 'bounds' and bounds is not None:
            bounds = [tuple(b) for b in bounds]
            if len(bounds) != nd:
                raise ValueError('length of x0 != length of bounds')
        else:
            bounds = None
        ctx.bounds = bounds
        sim = kw.get('initial_simplex', None)
        first = x0
        if sim is not None:
            # contract of scipy.optimize.fmin: with an initial simplex the first evaluation is at its first vertex
            first = list(np.asarray(sim, dtype=object)[0])
        ctx.v0 = f(_arr(env, first), *args)
        ctx.nevals += 1
        ctx.calls_after_start = len(ctx.rec.calls)
        x = v = None
        for tag in ('m', 's'):
            x = [ctx.fresh('x%s%d' % (tag, j), bounds[j][0] if bounds else None, bounds[j][1] if bounds else None)
                 for j in range(nd)]
            ctx.points.append((tag, x))
            v = f(_arr(env, x), *args)
            ctx.nevals += 1
        if mode == 'penalty':
            if env.symbolic:
                ob.path_assume(v <= ctx.v0)          # contract: the returned point is no worse than the start
            elif not v <= ctx.v0:
                x = list(x0)
                v = f(_arr(env, x), *args)
                ctx.nevals += 1
        ctx.xlast, ctx.vlast = x, v
        out = (_arr(env, x), v) + tuple('tok%d' % k for k in range(2, nout))
        if fn == 'fmin_l_bfgs_b' or kw.get('full_output'):
            return out
        return out[0]
    return stub


def make_scipy_body(wname, n, mask, multinom, bpat, fp, full_output, aslist):
    free = [i for i in range(n) if not mask[i]]
    nf = len(free)
    W = WRAPPERS[wname]
    logw = W['log']

    def body(env):
        import scipy as real_scipy
        import scipy.optimize as real_so
        from dadi import Inference
        ax = Ax(env)
        ob = Obl(env)
        fixedv, fixed_params = fixed_lists(env, n, mask, fp)
        pos = tuple(free) if logw else ()
        p0 = [env.real('p%d' % i, lo=0, lo_open=True) if i in pos else env.real('p%d' % i) for i in range(n)]
        # bounds of log-parametrised bounded wrappers are logged *before* the projection: all positive there
        allpos = tuple(range(n)) if (logw and W['mode'] == 'bounds') else pos
        lower, upper = bounds_lists(env, n, bpat, positive_idx=allpos)
        for i in range(n):
            assume_inside(env, fixedv[i] if mask[i] else p0[i], i, lower, upper)
        lo_in = [None if lower is None or lower[i] is None else lower[i] for i in range(n)]
        up_in = [None if upper is None or upper[i] is None else upper[i] for i in range(n)]
        if logw:
            for i in free:
                ax.explog(p0[i])
                ax.log_zero(p0[i])
                for b in (lo_in[i], up_in[i]):
                    if b is not None:
                        ax.explog(b)
                if lo_in[i] is not None:
                    ax.log_mono(lo_in[i], p0[i])
                if up_in[i] is not None:
                    ax.log_mono(p0[i], up_in[i])
        scale = env.real('scale', lo=0, lo_open=True) if W['scale'] else None
        full0 = [fixedv[i] if mask[i] else p0[i] for i in range(n)]
        rec = Rec()
        data = Data()
        model = make_model(rec)
        ctx = Ctx(env)
        ctx.rec = rec
        stub = make_scipy_stub(ctx, ob, W['fn'], W['mode'], W['nout'])
        so = _Over(real_so, **{W['fn']: stub})
        sp = _Over(real_scipy, optimize=so)
        kwargs = dict(lower_bound=None if lower is None else list(lower),
                      upper_bound=None if upper is None else list(upper),
                      multinom=multinom, fixed_params=fixed_params, full_output=full_output, func_args=[3])
        if scale is not None:
            kwargs['ll_scale'] = scale
        pen = (W['mode'] == 'penalty')
        with patched((Inference, 'scipy', sp),
                     (Inference, 'll', make_ll(env, rec, 'llp', data, first_above_penalty=pen)),
                     (Inference, 'll_multinom', make_ll(env, rec, 'llm', data, first_above_penalty=pen))):
            out = getattr(Inference, wname)(list(p0) if aslist else _arr(env, p0), data, model, [40, 50], **kwargs)
        if ob.dead:
            return
        if ctx.scipy_calls != [W['fn']]:
            env.fail('scipy optimiser not called exactly once')
            return
        if full_output:
            ob.holds('full output arity', isinstance(out, tuple) and len(out) == W['nout'])
            popt, fopt = out[0], out[1]
        else:
            popt, fopt = out, None
        if logw and W['mode'] == 'bounds':
            for tag, x in ctx.points:
                for j, i in enumerate(free):
                    if lo_in[i] is not None:
                        ax.exp_mono(_log(lo_in[i]), x[j])
                    if up_in[i] is not None:
                        ax.exp_mono(x[j], _log(up_in[i]))
        tr = _log if logw else (lambda v: v)
        untr = _exp if logw else (lambda v: v)
        ob.holds('optimiser dimension = number of free parameters', len(ctx.x0) == nf)
        for j, i in enumerate(free):
            ob.eq('optimiser start[%d]' % j, ctx.x0[j], tr(p0[i]))
        if W['mode'] == 'bounds':
            ob.holds('bounds handed to the optimiser', ctx.bounds is not None and len(ctx.bounds) == nf)
            if ctx.bounds is not None and len(ctx.bounds) == nf:
                for j, i in enumerate(free):
                    for nm, got, want in (('lower', ctx.bounds[j][0], lo_in[i]), ('upper', ctx.bounds[j][1], up_in[i])):
                        if want is None:
                            ob.holds('optimiser %s bound[%d] absent' % (nm, j), got is None or _isinf(got))
                        else:
                            ob.holds('optimiser %s bound[%d] present' % (nm, j), got is not None)
                            if got is not None:
                                ob.eq('optimiser %s bound[%d]' % (nm, j), got, tr(want))
                                if nm == 'lower':
                                    ob.holds('optimiser start[%d] >= its lower bound' % j, ctx.x0[j] >= got)
                                else:
                                    ob.holds('optimiser start[%d] <= its upper bound' % j, ctx.x0[j] <= got)
        ob.holds('one model evaluation per in-bounds objective evaluation', 1 <= len(rec.calls) <= ctx.nevals)
        if not rec.calls:
            return
        ob.holds('first objective evaluation reaches the model', ctx.calls_after_start == 1)
        for i in range(n):
            ob.eq('first evaluation at the user start [%d]' % i, rec.calls[0]['params'][i], full0[i])
        ob.eq('objective at the start = -ll/ll_scale', ctx.v0, -rec.ll[0]['value'] / (scale if scale is not None else 1))
        for k, c in enumerate(rec.calls):
            ob.holds('evaluation %d sees n parameters' % k, len(c['params']) == n)
            for i in range(n):
                if mask[i]:
                    ob.eq('evaluation %d fixed[%d]' % (k, i), c['params'][i], fixedv[i])
                if lo_in[i] is not None:
                    ob.holds('evaluation %d param[%d] >= lower' % (k, i), c['params'][i] >= lo_in[i])
                if up_in[i] is not None:
                    ob.holds('evaluation %d param[%d] <= upper' % (k, i), c['params'][i] <= up_in[i])
            ob.holds('evaluation %d likelihood kind' % k, rec.ll[k]['kind'] == ('llm' if multinom else 'llp'))
            ob.holds('evaluation %d extra args' % k, c['fargs'] == (3,) and c['kw'] == dict(pts=[40, 50]))
        ob.holds('result length', len(popt) == n)
        for i in range(n):
            if mask[i]:
                ob.eq('returned fixed[%d] unchanged' % i, popt[i], fixedv[i])
            else:
                ob.eq('returned free[%d] = optimiser result' % i, popt[i], untr(ctx.xlast[free.index(i)]))
            if lo_in[i] is not None:
                ob.holds('returned[%d] >= lower' % i, popt[i] >= lo_in[i])
            if up_in[i] is not None:
                ob.holds('returned[%d] <= upper' % i, popt[i] <= up_in[i])
        # the returned point was the last one evaluated (on live paths the last objective evaluation reached the
        # model: an out-of-bounds last point contradicts "no worse than the start"); its likelihood is reported
        if W['mode'] == 'bounds' or bpat == 'none':
            ob.holds('every objective evaluation reached the model', len(rec.calls) == ctx.nevals)
        for i in range(n):
            ob.eq('returned[%d] = last evaluated point' % i, popt[i], rec.calls[-1]['params'][i])
        if fopt is not None:
            ob.eq('reported optimum = -ll/ll_scale at the returned point', fopt,
                  -rec.ll[-1]['value'] / (scale if scale is not None else 1))
    return body


def make_grid_body(n, mask, multinom, full=False):
    free = [i for i in range(n) if not mask[i]]
    nf = len(free)

    def body(env):
        import scipy as real_scipy
        import scipy.optimize as real_so
        from dadi import Inference
        fixedv, fixed_params = fixed_lists(env, n, mask, 'list')
        rec = Rec()
        data = Data()
        model = make_model(rec)
        seen = {}
        grid = tuple(slice(0, 1, Fr(1, 2)) for _ in range(nf))
        pts_l = []

        def brute(f, ranges=None, args=(), Ns=20, full_output=0, finish=None, **kw):
            seen['ranges'] = ranges
            seen['finish'] = finish
            x = None
            for tag in ('m', 's'):
                x = [env.real('g%s%d' % (tag, j)) for j in range(nf)]
                pts_l.append(x)
                seen['v'] = f(_arr(env, x), *args)
            best = x[0] if nf == 1 else _arr(env, x)
            if full_output:
                # (x0, fval, grid, Jout) with an EMPTY evaluation grid: the theta bookkeeping loop has nothing to do
                return best, seen['v'], np.zeros((nf, 0)), np.zeros((0,))
            return best
        so = _Over(real_so, brute=brute)
        sp = _Over(real_scipy, optimize=so)
        with patched((Inference, 'scipy', sp), (Inference, 'll', make_ll(env, rec, 'llp', data)),
                     (Inference, 'll_multinom', make_ll(env, rec, 'llm', data)),
                     (Inference, 'optimal_sfs_scaling', lambda sfs_, d_: env.const(Fr(1)))):
            popt = Inference.optimize_grid(data, model, [40, 50], grid, multinom=multinom, fixed_params=fixed_params,
                                           func_args=[3], full_output=full)
        if full:
            env.holds('full_output: 5 results', isinstance(popt, tuple) and len(popt) == 5)
            env.eq('full_output: fopt handed on', popt[1], seen['v'])
            popt = popt[0]
        env.holds('grid passed through', seen.get('ranges') is grid and seen.get('finish') is False)
        env.holds('evaluations', len(rec.calls) == 2)
        for k, c in enumerate(rec.calls):
            for i in range(n):
                env.eq('evaluation %d param[%d]' % (k, i), c['params'][i],
                       fixedv[i] if mask[i] else pts_l[k][free.index(i)])
            env.holds('evaluation %d likelihood kind' % k, rec.ll[k]['kind'] == ('llm' if multinom else 'llp'))
        env.eq('objective = -ll', seen['v'], -rec.ll[-1]['value'])
        env.holds('result length', len(popt) == n)
        for i in range(n):
            env.eq('returned[%d]' % i, popt[i], fixedv[i] if mask[i] else pts_l[-1][free.index(i)])
    return body


# ----------------------------------------------------------------------------------------------------------------
# (E) perturb_params
def _bad(v):
    return v is None or isinstance(v, str) or (isinstance(v, (float, np.floating)) and not math.isfinite(v))


def _pow2_range(fold):
    """Rational enclosure [lo, hi] of [2**-fold, 2**fold]."""
    fold = Fr(fold)
    if fold.denominator == 1:
        return Fr(1, 2 ** int(fold)), Fr(2 ** int(fold))
    x = 2.0 ** float(fold)
    hi = Fr(math.ceil(x * 1000) + 1, 1000)
    lo = Fr(math.floor(1000 / x) - 1, 1000)
    return lo, hi


def make_perturb_body(n, bpat, fold, aslist):
    def body(env):
        from dadi import Misc
        p = [env.real('p%d' % i) for i in range(n)]
        fq = env.const(Fr(fold))
        tlo, thi = _pow2_range(fold)
        # The factor t_i = 2**(fold*(2u_i-1)) is a solver variable tied to the uninterpreted POW term; the replay
        # derives u_i from the model's t_i, so that the float run sees exactly the factor the solver chose.
        if env.symbolic:
            u = [env.real('u%d' % i, lo=0, hi=1, hi_open=True) for i in range(n)]
            for i in range(n):
                t = env.real('t%d' % i, lo=tlo, hi=thi)
                e = fq * (2 * u[i] - 1)
                _assume_once(env, S.tz(t) == S.UF2['POW'](S.tz(2), S.tz(e)))
        else:
            u = []
            for i in range(n):
                t = env.real('t%d' % i, lo=tlo, hi=thi)
                u.append(min(max((math.log2(t) / float(fold) + 1) / 2, 0.0), 1 - 2.0 ** -40))
        lower, upper = bounds_lists(env, n, bpat)
        c101, c099 = env.const(C101), env.const(C099)
        for i in range(n):
            lo = None if lower is None else lower[i]
            up = None if upper is None else upper[i]
            if lo is not None:
                env.assume(lo >= 0)
            if up is not None:
                env.assume(up >= 0)
            if lo is not None and up is not None:
                env.assume(lo <= c099 * up)
        calls = []

        def uniform(low=0.0, high=1.0, size=None):
            calls.append((low, high, size))
            return _arr(env, u[:size] if isinstance(size, int) else u)
        rnd = _Over(np.random, uniform=uniform)
        lo_arg = None if lower is None else list(lower)
        up_arg = None if upper is None else list(upper)
        with patched((Misc, 'numpy', _Over(Misc.numpy, random=rnd))):
            res = Misc.perturb_params(list(p) if aslist else _arr(env, p),
                                      fold=int(fold) if fold == int(fold) else float(fold), lower_bound=lo_arg,
                                      upper_bound=up_arg)
        env.holds('uniform(size=n) on [0,1)', calls == [(0.0, 1.0, n)])
        env.holds('result length', len(res) == n)
        for i in range(n):
            lo = None if lower is None else lower[i]
            up = None if upper is None else upper[i]
            if _bad(res[i]):
                env.fail('entry %d is not a finite number' % i)
                continue
            raw = p[i] * 2 ** (fq * (2 * u[i] - 1))
            want = raw
            if lo is not None:
                want = H.ite(env, want >= c101 * lo, want, c101 * lo)
            if up is not None:
                want = H.ite(env, want <= c099 * up, want, c099 * up)
            env.eq('entry %d = clamp(p*2^(fold(2u-1)))' % i, res[i], want)
            if lo is not None:
                env.holds('entry %d >= lower' % i, res[i] >= lo)
            if up is not None:
                env.holds('entry %d <= upper' % i, res[i] <= up)
                env.holds('entry %d <= 0.99*upper' % i, res[i] <= c099 * up)
            if lo is not None and up is not None:
                # (when the clamps are compatible) strictly inside by the documented 1%
                env.holds('entry %d >= 1.01*lower when 1.01*lower<=0.99*upper' % i,
                          (res[i] >= c101 * lo) | (c101 * lo > c099 * up))
            elif lo is not None:
                env.holds('entry %d >= 1.01*lower' % i, res[i] >= c101 * lo)
            if lo is None and up is None:
                # "perturbed <fold> factors of 2 up or down"
                env.holds('entry %d within 2^fold of the original' % i,
                          (abs(res[i]) <= env.const(thi) * abs(p[i])) & (abs(res[i]) >= env.const(tlo) * abs(p[i])))
    return body


# ----------------------------------------------------------------------------------------------------------------
def _scipy_paths(W, n, mask, bpat):
    """Paths a penalty-based wrapper unit must reach: (k+1) outcomes of the bound scan for the intermediate point
    times (k+1) for the returned point (k of them dead: out of bounds contradicts 'no worse than the start')."""
    if W['mode'] != 'penalty':
        return 1
    free = [i for i in range(n) if not mask[i]]
    k = dict(both=2 * len(free), none=0, holes=len(free), lower=len(free), upper=len(free))[bpat]
    return (k + 1) ** 2


def _preload():
    """Import dadi/scipy/nlopt once in the parent (units() runs there before the workers are forked), so that the
    ~1000 short-lived workers do not each pay the import; shims are still installed per worker only."""
    try:
        import nlopt  # noqa: F401
        import scipy.optimize  # noqa: F401
        from dadi import Inference, Misc, NLopt_mod  # noqa: F401
    except Exception:   # the workers will report the import problem
        pass


def units(tier, seed):
    _preload()
    thorough = (tier == 'thorough')
    us = []
    tmo = 900 if thorough else 300

    def masks_for(n, optimiser):
        ms = all_masks(n)
        if optimiser:
            ms = [m for m in ms if not all(m)]
        if n == 4 and not thorough:
            keep = [(False, False, False, False), (True, False, False, False), (False, True, False, True),
                    (True, True, False, False), (False, True, True, True), (True, True, True, False)]
            ms = [m for m in ms if m in keep]
        return ms

    # (A)
    for n in range(1, 5):
        for mask in masks_for(n, False):
            us.append(H.Unit('proj-n%d-%s' % (n, mask_name(mask)), make_proj_body(n, mask),
                             params=dict(n=n, mask=list(mask)), setup=_setup, min_obligations=10, expect_paths=1,
                             timeout_s=tmo))
    # (B)
    cnt = 0
    for n in range(1, 5):
        for mask in masks_for(n, False):
            pats = ['both', 'holes', 'lower', 'upper', 'none'] if thorough else \
                [['both', 'holes'], ['both', 'lower'], ['both', 'upper'], ['both', 'none']][cnt % 4]
            for bpat in pats:
                mns = [True, False] if thorough else [cnt % 2 == 0]
                for multinom in mns:
                    cnt += 1
                    variant = ['plain', 'noscale', 'listparams', 'thetas'][cnt % 4]
                    fp = 'none' if cnt % 2 else 'list'
                    nlo = 0 if bpat in ('upper', 'none') else (n if bpat != 'holes' else (n + 1) // 2)
                    nup = 0 if bpat in ('lower', 'none') else (n if bpat != 'holes' else n // 2)
                    us.append(H.Unit('objfunc-n%d-%s-%s-%s-%s' % (n, mask_name(mask), bpat,
                                                                   'multinom' if multinom else 'poisson', variant),
                                     make_objfunc_body(n, mask, bpat, multinom, variant, fp),
                                     params=dict(n=n, mask=list(mask), bounds=bpat, multinom=multinom,
                                                 variant=variant, fixed_params_as=fp),
                                     setup=_setup, min_obligations=8 + 3 * (nlo + nup), expect_paths=nlo + nup + 1,
                                     timeout_s=tmo))
    for n, mask, bpat, multinom, variant in ((2, (False, True), 'both', True, 'nan'),
                                             (3, (False, False, False), 'holes', False, 'nan'),
                                             (2, (False, False), 'both', True, 'log'),
                                             (3, (True, False, False), 'both', False, 'log'),
                                             (1, (False,), 'lower', False, 'log')):
        us.append(H.Unit('objfunc-n%d-%s-%s-%s-%s' % (n, mask_name(mask), bpat,
                                                       'multinom' if multinom else 'poisson', variant),
                         make_objfunc_body(n, mask, bpat, multinom, variant, 'list'),
                         params=dict(n=n, mask=list(mask), bounds=bpat, multinom=multinom, variant=variant),
                         setup=_setup, min_obligations=8, expect_paths=2, timeout_s=tmo))
    # (C)
    cnt = 0
    for n in range(1, 5):
        for mask in masks_for(n, True):
            for log_opt in (False, True):
                pats = ['both'] if log_opt else (['both', 'none', 'holes', 'lower'] if thorough else
                                                 [['both', 'none'], ['both', 'holes'], ['both', 'lower']][cnt % 3])
                for bpat in pats:
                    mns = [True, False] if thorough else [cnt % 2 == 0]
                    for multinom in mns:
                        cnt += 1
                        fp = 'none' if cnt % 2 else 'list'
                        aslist = (cnt % 3 == 0)
                        us.append(H.Unit('nlopt-n%d-%s-%s-%s-%s' % (n, mask_name(mask), 'log' if log_opt else 'lin',
                                                                     bpat, 'multinom' if multinom else 'poisson'),
                                         make_nlopt_body(n, mask, log_opt, multinom, bpat, fp, aslist),
                                         params=dict(n=n, mask=list(mask), log_opt=log_opt, bounds=bpat,
                                                     multinom=multinom, fixed_params_as=fp, p0_as_list=aslist),
                                         setup=_setup, min_obligations=12 + 4 * n, expect_paths=1, timeout_s=tmo,
                                         query_timeout_ms=120000))
    if not thorough:
        # one-sided / mixed None bounds with NO fixed_params (the bound lists reach the optimiser set-up unprojected)
        for n, bpat, multinom in ((2, 'holes', True), (3, 'holes', False), (2, 'lower', False), (3, 'upper', True)):
            mask = tuple([False] * n)
            us.append(H.Unit('nlopt-n%d-%s-lin-%s-%s-nofixed' % (n, mask_name(mask), bpat,
                                                                 'multinom' if multinom else 'poisson'),
                             make_nlopt_body(n, mask, False, multinom, bpat, 'none', True),
                             params=dict(n=n, mask=list(mask), log_opt=False, bounds=bpat, multinom=multinom,
                                         fixed_params_as='none', p0_as_list=True),
                             setup=_setup, min_obligations=12 + 4 * n, expect_paths=1, timeout_s=tmo,
                             query_timeout_ms=120000))
    # (D)
    cnt = 0
    for wname, W in WRAPPERS.items():
        for n in range(1, 5):
            if n == 4 and not thorough and W['mode'] == 'penalty':
                continue
            for mask in masks_for(n, True):
                if W['log'] and W['mode'] == 'bounds':
                    pats = ['both']
                elif thorough:
                    pats = ['both', 'none', 'holes'] if n <= 3 else ['both', 'holes']
                else:
                    pats = [['both'], ['holes'], ['both'], ['none']][cnt % 4] if n >= 2 else ['both', 'none']
                for bpat in pats:
                    mns = [True, False] if (thorough and n <= 2) else [cnt % 2 == 0]
                    for multinom in mns:
                        cnt += 1
                        fp = 'none' if cnt % 2 else 'list'
                        full_output = (cnt % 3 != 0)
                        aslist = (cnt % 4 == 0)
                        us.append(H.Unit('scipy-%s-n%d-%s-%s-%s%s' % (wname, n, mask_name(mask), bpat,
                                                                       'multinom' if multinom else 'poisson',
                                                                       '-full' if full_output else ''),
                                         make_scipy_body(wname, n, mask, multinom, bpat, fp, full_output, aslist),
                                         params=dict(wrapper=wname, n=n, mask=list(mask), bounds=bpat,
                                                     multinom=multinom, fixed_params_as=fp, full_output=full_output,
                                                     p0_as_list=aslist),
                                         setup=_setup, min_obligations=10 + 2 * n,
                                         expect_paths=_scipy_paths(W, n, mask, bpat), timeout_s=tmo,
                                         maxpaths=4000, query_timeout_ms=120000))
    for n in range(1, 4 if not thorough else 5):
        for mask in masks_for(n, True):
            multinom = (sum(mask) % 2 == 0)
            us.append(H.Unit('scipy-optimize_grid-n%d-%s-%s' % (n, mask_name(mask),
                                                                 'multinom' if multinom else 'poisson'),
                             make_grid_body(n, mask, multinom), params=dict(n=n, mask=list(mask), multinom=multinom),
                             setup=_setup, min_obligations=6 + 3 * n, expect_paths=1, timeout_s=tmo))
            if n >= 2 or not any(mask):
                us.append(H.Unit('scipy-optimize_grid-n%d-%s-%s-full' % (n, mask_name(mask),
                                                                          'multinom' if multinom else 'poisson'),
                                 make_grid_body(n, mask, multinom, full=True),
                                 params=dict(n=n, mask=list(mask), multinom=multinom, full_output=True),
                                 setup=_setup, min_obligations=8 + 3 * n, expect_paths=1, timeout_s=tmo))
    # (E)
    cnt = 0
    for n in range(1, 5 if thorough else 4):
        for bpat in ('both', 'holes', 'lower', 'upper', 'none'):
            folds = [1, 2, 3, Fr(1, 2)] if thorough else [[1], [2]][cnt % 2]
            if n == 4 and bpat == 'both':
                folds = [1]   # entries are independent: 4**4 clamp paths, one fold is enough
            for fold in folds:
                cnt += 1
                aslist = (cnt % 2 == 0)
                nb = dict(both=2 * n, holes=n, lower=n, upper=n, none=0)[bpat]
                us.append(H.Unit('perturb-n%d-%s-fold%s%s' % (n, bpat, str(fold).replace('/', 'over'),
                                                               '-list' if aslist else ''),
                                 make_perturb_body(n, bpat, fold, aslist),
                                 params=dict(n=n, bounds=bpat, fold=str(fold), params_as_list=aslist),
                                 setup=_setup, min_obligations=2 + n, expect_paths=1 if nb == 0 else 2,
                                 timeout_s=tmo, maxpaths=4000))
    return us
