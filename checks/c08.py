"""C08 - projection is hypergeometric subsampling: conserving, composable, mask-monotone.

Real code: Spectrum.project / Spectrum._project_one_axis (+ fold/unfold wrapping) and
Numerics._cached_projection / _lncomb.  `gammaln` inside Numerics is replaced by the exact stub
(`esf.gammaln`, log of an exact rational) so that the log-space *formula* evaluates exactly; the data of
the spectra are z3 reals, so every projected entry is an exact linear form in the data symbols and z3
decides "entry == sum_i H(n,m,i,j) * data_i" with H taken from math.comb / Fractions (oracle written
independently: textbook form C(i,j)C(n-i,m-j)/C(n,m), explicit re-indexing for fold/unfold).
"""
import functools
import itertools
import math
from fractions import Fraction as Fr

import numpy as np

from engine import esf
from engine import harness as H
from engine import shims
from engine import symreal as S

META = dict(
    explanation=(
        'Spectrum.project/_project_one_axis and Numerics._cached_projection are executed unmodified on numpy '
        'object arrays of z3 reals (data symbolic; shapes, target sizes, mask patterns and folding enumerated). '
        'Numerics.gammaln is the exact log-rational stub, so the weights the code computes in log space are exact '
        'rationals and every projected entry is an exact linear form in the data. z3 proves, entry by entry, '
        'equality with the hypergeometric expectation sum_i C(i,j)C(n-i,m-j)/C(n,m)*data_i (product over axes), '
        'conservation of the total, two-stage == one-stage, independence of the axis order (every permutation of '
        '_project_one_axis calls, transposed spectra), the theta/i fixed point with symbolic theta; result masks '
        'are compared with "reachable with non-zero weight" computed from H (all mask patterns for small spectra, '
        'single-entry/corner/strided patterns otherwise); folded inputs are compared with an explicit re-indexing '
        'oracle fold(project(unfold)) and fold().project == project().fold(); projecting upward / wrong number '
        'of sizes must raise ValueError; the weight vectors returned by _cached_projection are compared with the '
        'exact rationals for every (n,m,hits) in the bound (incl. the proj_from<proj_to short-circuit), sum to 1 '
        'and vanish outside the least/most window. The projection cache is cleared before each cold unit and '
        'deliberately pre-warmed in a scrambled order (including up-projection keys) in the warm units.'),
    functions=['dadi.Spectrum_mod.Spectrum.project', 'dadi.Spectrum_mod.Spectrum._project_one_axis',
               'dadi.Numerics._cached_projection', 'dadi.Numerics._lncomb', 'dadi.Spectrum_mod.Spectrum.fold',
               'dadi.Spectrum_mod.Spectrum.unfold'],
    files=['dadi/Numerics.py', 'dadi/Spectrum_mod.py'],
    bounds=dict(
        quick='1-D: every n<=40 with all 1<=m<=n (values, total, identity; n in {64,200} with m in {1,2,n-1}); '
              'two-stage n<=12 all n>=k>=m (unmasked and corners+middle masked); theta/i n<=30 all m; 2-D: all shapes '
              'n<=4 all targets, (6,6),(5,6),(6,3) selected targets; 3-D: all shapes n<=2 all targets, (3,3,3) '
              'selected; 4-D: (2,2,2,2),(1,2,2,1),(2,1,1,2) all targets (each with every/6 axis orders, partial '
              'project calls, transposes, a two-stage route); all 2^E mask patterns for spectra with E<=6 entries '
              '(1-D n<=5, 2-D 2x2,2x3,3x2), single-entry+corner+corner-and-one+strided patterns for 1-D n<=24, 2-D '
              'n<=4, (6,6), (2,2,2), (2,2,2,2), (3,2,3); folded: 1-D n<=10 (no/single/pair extra masked entries), 2-D '
              '8 shapes n<=4, (2,2,2), (1,2,1); refusal 1-4-D; weight vectors of _cached_projection: every '
              '(n,m,hits) with n<=40, n in {100,200} with m in {1,n/2,n-1} all hits, and 14 (n,m) pairs that put 127..129 / '
              '255..257 into n, m or n-m (weights-edge-*)',
        thorough='1-D: every n<=40 all m, n in {50,64,100,128,200} with m in {1,2,3,n/2,n-2,n-1,n}; two-stage n<=24; '
                 'theta/i n<=40 and n=64 all m, n in {100,200} selected m; 2-D: all shapes n<=6 all targets, '
                 '(8,8),(10,7),(12,12),(3,20) selected; 3-D: all shapes n<=3 all targets, (4,4,4),(5,3,4) selected; '
                 '4-D: all shapes n<=2 all targets, (3,3,3,3),(3,2,3,2),(2,3,3,1) selected; all 2^E mask patterns '
                 'for spectra with E<=12 entries (1-D n<=11, 2-D up to 2x6/3x4, 3-D 2x2x2 and 2x2x3 shapes), other '
                 'patterns as quick for 1-D n<=40, 2-D n<=5, (3,3,3), (3,3,3,3), (2,1,2,2); folded: 1-D n<=20, 2-D '
                 'all shapes n<=5, (7,6), (3,3,3), (3,2,3), (2,2,2,2), (1,2,2,1); weight vectors: every (n,m,hits) with '
                 'n<=64, n in {100,128,200} with m in {1,2,3,n/2,n-2,n-1} all hits, plus the weights-edge-* pairs of the quick tier'),
    outside=['float accuracy of the log-space weights (gammaln/exp round-off, underflow handling)',
             'sample sizes beyond the per-tier bounds (the property\'s n<=200 is reached only by the weight-vector '
             'units for selected (n,m))', 'target size m=0', 'data values stored under masked result entries',
             'folded inputs whose [0,..,0] corner is unmasked or whose folded-out entries are unmasked / non-zero '
             '(fold() itself masks the corners, so the corner is kept masked in the inputs)',
             'LowPass use of the same weights'],
    stubs=['Numerics.gammaln -> esf.gammaln (exact: ln of a rational; validated against scipy by esf.selftest)',
           'numpy.exp of a log-rational -> the exact rational', 'numpy array constructors inside '
           'Numerics/Spectrum_mod -> object arrays; Spectrum default dtype float -> object'],
    assumptions=['doubles modelled as reals', 'weights evaluated exactly (the formula is checked, not its float '
                 'accuracy)'],
)


# ------------------------------------------------------------------------------------------------
# oracle (independent of dadi): textbook hypergeometric weights, explicit re-indexing
@functools.lru_cache(maxsize=None)
def hyp(n, m, i, j):
    """P(j derived among m chromosomes drawn without replacement | i derived among n)."""
    if j < 0 or j > m or j > i or m - j > n - i:
        return Fr(0)
    return Fr(math.comb(i, j) * math.comb(n - i, m - j), math.comb(n, m))


@functools.lru_cache(maxsize=None)
def axis_w(n, m):
    """for each target count j: tuple of (source count i, weight) with non-zero weight."""
    return tuple(tuple((i, hyp(n, m, i, j)) for i in range(n + 1) if hyp(n, m, i, j) != 0) for j in range(m + 1))


def rev(idx, ns):
    return tuple(n - i for i, n in zip(idx, ns))


class Oracle:
    def __init__(self, env, data, ns):
        self.env = env
        self.data = data
        self.ns = tuple(int(n) for n in ns)
        self.cache = {}

    def entry(self, ms, j):
        key = (tuple(ms), tuple(j))
        if key in self.cache:
            return self.cache[key]
        lists = [axis_w(n, m)[ja] for n, m, ja in zip(self.ns, ms, j)]
        tot = self.env.const(Fr(0))
        for combo in itertools.product(*lists):
            w = Fr(1)
            for c in combo:
                w *= c[1]
            tot = tot + self.env.const(w) * self.data[tuple(c[0] for c in combo)]
        self.cache[key] = tot
        return tot

    def project(self, ms):
        out = np.empty(tuple(m + 1 for m in ms), dtype=object)
        for j in np.ndindex(*out.shape):
            out[j] = self.entry(ms, j)
        return out


def oracle_mask(mask, ns, ms):
    """result entry masked iff some masked source entry reaches it with non-zero weight."""
    out = np.zeros(tuple(m + 1 for m in ms), dtype=bool)
    for j in np.ndindex(*out.shape):
        lists = [[i for i, _ in axis_w(n, m)[ja]] for n, m, ja in zip(ns, ms, j)]
        out[j] = any(mask[idx] for idx in itertools.product(*lists))
    return out


def oracle_unfold(env, data, mask, ns):
    """each folded class {i, rev(i)} is split equally among its (1 or 2) polarisations; an unfolded entry is
    masked iff a live (not folded-out) member of its class is masked."""
    half = sum(ns) // 2
    shape = tuple(n + 1 for n in ns)
    u = np.empty(shape, dtype=object)
    um = np.zeros(shape, dtype=bool)
    for i in np.ndindex(*shape):
        members = sorted({i, rev(i, ns)})
        live = [k for k in members if sum(k) <= half]
        tot = env.const(Fr(0))
        for k in live:
            tot = tot + data[k]
        u[i] = tot * env.const(Fr(1, len(members)))
        um[i] = any(mask[k] for k in live)
    return u, um


def oracle_fold(env, u, um, ns):
    T = sum(ns)
    half = T // 2
    shape = tuple(n + 1 for n in ns)
    f = np.empty(shape, dtype=object)
    fm = np.zeros(shape, dtype=bool)
    for i in np.ndindex(*shape):
        r = rev(i, ns)
        if sum(i) > half:
            f[i] = env.const(Fr(0))
            fm[i] = True
        elif 2 * sum(i) == T:
            f[i] = (u[i] + u[r]) * env.const(Fr(1, 2))
            fm[i] = um[i] or um[r]
        else:
            f[i] = u[i] + u[r]
            fm[i] = um[i] or um[r]
    return f, fm


# ------------------------------------------------------------------------------------------------
def _silence():
    import logging
    for nm in ('Spectrum_mod', 'Numerics', 'dadi', 'dadi.Spectrum_mod', 'dadi.Numerics'):
        logging.getLogger(nm).setLevel(logging.ERROR)


def _setup():
    import dadi
    from dadi import Numerics, Spectrum_mod
    _silence()
    shims.install_numpy(Numerics)
    shims.install_numpy(Spectrum_mod)
    shims.patch_spectrum_dtype(dadi.Spectrum)
    shims.set_attr(Numerics, 'gammaln', esf.gammaln)
    Numerics._projection_cache.clear()


def concrete_setup():
    _silence()


def _cache(env, warm, nmax):
    """cold: start from an empty cache.  warm: fill the cache first in a scrambled order (different from the
    order project() uses), including keys with proj_from < proj_to (short-circuit zero vectors)."""
    from dadi import Numerics
    Numerics._projection_cache.clear()
    if not warm:
        return
    keys = [(to, fr, h) for fr in range(1, nmax + 1) for to in range(1, nmax + 3) for h in range(fr + 1)]
    keys.sort(key=lambda k: ((k[0] * 7 + k[1] * 13 + k[2] * 29) % 31, -k[2], k[0], -k[1]))
    for to, fr, h in keys:
        Numerics._cached_projection(to, fr, h)
    if warm == 'np':
        # the keys project() builds contain numpy integers: warm with those types as well
        for to, fr, h in keys[::3]:
            Numerics._cached_projection(to, np.int64(fr), h)


def _eq(env, label, a, b, seen):
    """env.eq with de-duplication of structurally identical obligations (same z3 terms) inside one body run."""
    if env.symbolic:
        a_, b_ = S.Sym.lift(a), S.Sym.lift(b)
        key = (a_.t.get_id(), b_.t.get_id())
        if key in seen:
            return
        seen[key] = (a_, b_)     # keeps the terms alive (ids are not recycled)
    env.eq(label, a, b)


def _snapshot(fs):
    d = np.ma.getdata(fs)
    return [d[i] for i in np.ndindex(*d.shape)], np.ma.getmaskarray(fs).copy()


def _unchanged(env, label, fs, snap):
    d = np.ma.getdata(fs)
    now = [d[i] for i in np.ndindex(*d.shape)]
    if env.symbolic:
        ok = all(a is b for a, b in zip(now, snap[0]))
    else:
        ok = all(a == b for a, b in zip(now, snap[0]))
    env.holds(label + '/input-data-unchanged', ok)
    env.holds(label + '/input-mask-unchanged', bool(np.all(np.ma.getmaskarray(fs) == snap[1])))


def _total(env, arr):
    tot = env.const(Fr(0))
    for i in np.ndindex(*arr.shape):
        tot = tot + arr[i]
    return tot


def _check(env, tag, p, orc, mask, ms, seen, folded=False, pop_ids=None):
    """p: result of the real code; expected values orc.project(ms) at unmasked entries, expected mask from H."""
    ns = orc.ns
    shape = tuple(m + 1 for m in ms)
    if tuple(p.shape) != shape:
        env.fail(tag + '/shape', '%s != %s' % (tuple(p.shape), shape))
        return
    exp_mask = oracle_mask(mask, ns, ms)
    pm = np.ma.getmaskarray(p)
    env.holds(tag + '/mask', bool(np.all(pm == exp_mask)))
    env.holds(tag + '/folded-flag', p.folded == folded)
    pd = np.ma.getdata(p)
    for j in np.ndindex(*shape):
        if not exp_mask[j]:
            _eq(env, '%s/e%s' % (tag, list(j)), pd[j], orc.entry(ms, j), seen)


def targets_all(ns):
    return [tuple(t) for t in itertools.product(*[range(1, n + 1) for n in ns])]


def targets_sel(ns):
    """a spread of targets for bigger shapes: identity, all-1, n-1, halves, mixed."""
    out = []
    cands = [tuple(ns), tuple(1 for _ in ns), tuple(max(1, n - 1) for n in ns), tuple(max(1, n // 2) for n in ns),
             tuple(n if a % 2 else max(1, n - 2) for a, n in enumerate(ns)),
             tuple(1 if a % 2 else n for a, n in enumerate(ns)),
             tuple(max(1, n - a - 1) for a, n in enumerate(ns)),
             tuple(min(n, a + 1) for a, n in enumerate(ns)),
             tuple(2 if n >= 2 else 1 for n in ns)]
    for c in cands:
        if c not in out:
            out.append(c)
    return out


def _targets(ns, which):
    return targets_all(ns) if which == 'all' else targets_sel(ns)


# ------------------------------------------------------------------------------------------------
def make_values_1d(n, warm, mlist=None):
    """1-D: every entry for every m (or the listed m); total conserved; identity at m=n; result unmasked; input
    untouched."""
    def body(env):
        import dadi
        _cache(env, warm, n)
        d = env.array('d', (n + 1,))
        fs = dadi.Spectrum(d, mask_corners=False, pop_ids=['A'])
        snap = _snapshot(fs)
        orc = Oracle(env, d, (n,))
        nomask = np.zeros(n + 1, dtype=bool)
        seen = {}
        tot_in = _total(env, d)
        for m in (mlist or range(1, n + 1)):
            p = fs.project([m])
            _check(env, 'm%d' % m, p, orc, nomask, (m,), seen, pop_ids=['A'])
            env.eq('m%d/total' % m, _total(env, np.ma.getdata(p)), tot_in)
            # the one-axis routine called directly gives the same
            q = fs._project_one_axis(m, 0)
            _check(env, 'm%d-oneaxis' % m, q, orc, nomask, (m,), seen, pop_ids=None)
        _unchanged(env, 'n%d' % n, fs, snap)
    return body


def make_comp_1d(n):
    """two-stage == one-stage (values at unmasked entries and masks), unmasked and corner+interior-masked."""
    def body(env):
        import dadi
        _cache(env, False, n)
        d = env.array('d', (n + 1,))
        seen = {}
        for variant in ('nomask', 'masked'):
            mask = np.zeros(n + 1, dtype=bool)
            if variant == 'masked':
                mask[0] = mask[n] = mask[n // 2] = True
            fs = dadi.Spectrum(d, mask=mask, mask_corners=False)
            orc = Oracle(env, d, (n,))
            for m in range(1, n + 1):
                one = fs.project([m])
                onem = np.ma.getmaskarray(one)
                exp_mask = oracle_mask(mask, (n,), (m,))
                env.holds('%s/m%d/one-stage-mask' % (variant, m), bool(np.all(onem == exp_mask)))
                for k in range(m, n + 1):
                    two = fs.project([k]).project([m])
                    tag = '%s/k%d-m%d' % (variant, k, m)
                    if two.shape != one.shape:
                        env.fail(tag + '/shape')
                        continue
                    env.holds(tag + '/mask', bool(np.all(np.ma.getmaskarray(two) == onem)))
                    for j in range(m + 1):
                        if not exp_mask[j]:
                            _eq(env, tag + '/e%d' % j, np.ma.getdata(two)[j], np.ma.getdata(one)[j], seen)
                            _eq(env, tag + '/o%d' % j, np.ma.getdata(two)[j], orc.entry((m,), (j,)), seen)
    return body


def make_neutral(nlo, nhi, mlist=None):
    """theta/i (corners masked) projects to theta/j with corners masked, theta symbolic."""
    def body(env):
        import dadi
        _cache(env, False, nhi)
        theta = env.real('theta', lo=0, lo_open=True)
        c0 = env.real('c0')
        cn = env.real('cn')
        for n in range(nlo, nhi + 1):
            d = np.empty(n + 1, dtype=object if env.symbolic else float)
            d[0] = c0
            d[n] = cn
            for i in range(1, n):
                d[i] = theta * env.const(Fr(1, i))
            fs = dadi.Spectrum(d)      # mask_corners=True default
            for m in (mlist or range(1, n + 1)):
                p = fs.project([m])
                exp_mask = np.zeros(m + 1, dtype=bool)
                exp_mask[0] = exp_mask[m] = True
                tag = 'n%d-m%d' % (n, m)
                if p.shape != (m + 1,):
                    env.fail(tag + '/shape')
                    continue
                env.holds(tag + '/mask', bool(np.all(np.ma.getmaskarray(p) == exp_mask)))
                for j in range(1, m):
                    env.eq(tag + '/e%d' % j, np.ma.getdata(p)[j], theta * env.const(Fr(1, j)))
    return body


def make_values_nd(ns, which, warm):
    """D>=2: entries vs product-hypergeometric oracle, total, axis order (all permutations of one-axis calls,
    partial project() calls, transposed spectra)."""
    ns = tuple(ns)
    D = len(ns)

    def body(env):
        import dadi
        _cache(env, warm, max(ns))
        ids = ['p%d' % a for a in range(D)]
        d = env.array('d', tuple(n + 1 for n in ns))
        fs = dadi.Spectrum(d, mask_corners=False, pop_ids=ids)
        snap = _snapshot(fs)
        orc = Oracle(env, d, ns)
        nomask = np.zeros(d.shape, dtype=bool)
        seen = {}
        tot_in = _total(env, d)
        perms = list(itertools.permutations(range(D)))
        if D == 4:
            perms = [perms[k] for k in (0, 5, 9, 14, 18, 23)]
        for ms in _targets(ns, which):
            tag = 'to' + ''.join(map(str, ms))
            p = fs.project(list(ms))
            _check(env, tag, p, orc, nomask, ms, seen, pop_ids=ids)
            if tuple(p.shape) == tuple(m + 1 for m in ms):
                env.eq(tag + '/total', _total(env, np.ma.getdata(p)), tot_in)
            # every order of single-axis projections (incl. n->n which must be the identity)
            for perm in perms:
                out = fs
                for a in perm:
                    out = out._project_one_axis(ms[a], a)
                _check(env, tag + '/order' + ''.join(map(str, perm)), out, orc, nomask, ms, seen, pop_ids=None)
            # partial projections through project(): last axis first
            out = fs
            for a in reversed(range(D)):
                cur = [int(s) for s in out.sample_sizes]
                cur[a] = ms[a]
                out = out.project(cur)
            _check(env, tag + '/partial-rev', out, orc, nomask, ms, seen, pop_ids=ids)
            # two stages through an intermediate size on every axis
            ks = tuple((n + m + 1) // 2 for n, m in zip(ns, ms))
            if ks != ms and ks != ns:
                two = fs.project(list(ks)).project(list(ms))
                _check(env, tag + '/via' + ''.join(map(str, ks)), two, orc, nomask, ms, seen, pop_ids=ids)
            # transposed spectrum, transposed back
            for perm in (perms[-1], perms[1]) if D > 2 else (perms[-1],):
                inv = [perm.index(a) for a in range(D)]
                ft = fs.transpose(perm)
                pt = ft.project([ms[a] for a in perm]).transpose(inv)
                _check(env, tag + '/transposed' + ''.join(map(str, perm)), pt, orc, nomask, ms, seen, pop_ids=ids)
        _unchanged(env, 'in', fs, snap)
    return body


def _patterns(shape, kind):
    """mask patterns (flat index tuples)."""
    E = int(np.prod(shape))
    if kind == 'all':
        for bits in range(1 << E):
            yield tuple(e for e in range(E) if bits >> e & 1)
        return
    yield ()
    for e in range(E):
        yield (e,)
    yield (0, E - 1)
    for e in range(1, E - 1):
        if e % 2 == 1 or E <= 12:
            yield (0, e, E - 1)
    for r in range(3):
        yield tuple(e for e in range(E) if e % 3 == r)
    yield tuple(e for e in range(E) if e % 2 == 0)


def make_masks(ns, kind, which, warm=False, with_comp=False):
    """mask propagation: result mask == reachable-with-non-zero-weight (from H); values at unmasked entries."""
    ns = tuple(ns)
    shape = tuple(n + 1 for n in ns)

    def body(env):
        import dadi
        _cache(env, warm, max(ns))
        d = env.array('d', shape)
        orc = Oracle(env, d, ns)
        seen = {}
        tl = _targets(ns, which)
        for pat in _patterns(shape, kind):
            mask = np.zeros(shape, dtype=bool)
            for e in pat:
                mask.flat[e] = True
            fs = dadi.Spectrum(d, mask=mask.copy(), mask_corners=False)
            ptag = 'mask' + ('-'.join(map(str, pat)) if pat else 'none')
            for ms in tl:
                p = fs.project(list(ms))
                _check(env, '%s/to%s' % (ptag, ''.join(map(str, ms))), p, orc, mask, ms, seen)
                ks = tuple((n + m + 1) // 2 for n, m in zip(ns, ms))
                if with_comp and ks != ms and ks != ns:
                    two = fs.project(list(ks)).project(list(ms))
                    _check(env, '%s/to%s-via%s' % (ptag, ''.join(map(str, ms)), ''.join(map(str, ks))), two, orc,
                           mask, ms, seen)
            env.holds(ptag + '/input-mask-unchanged', bool(np.all(np.ma.getmaskarray(fs) == mask)))
    return body


def _folded_input(env, ns, extra):
    """a well-formed folded spectrum: folded-out entries 0 and masked, corner masked, `extra` flat indices masked."""
    import dadi
    shape = tuple(n + 1 for n in ns)
    half = sum(ns) // 2
    d = env.array('f', shape)
    mask = np.zeros(shape, dtype=bool)
    for i in np.ndindex(*shape):
        if sum(i) > half:
            d[i] = env.const(Fr(0))
            mask[i] = True
    mask.flat[0] = True
    for e in extra:
        mask.flat[e] = True
    ids = ['p%d' % a for a in range(len(ns))]
    fs = dadi.Spectrum(d, mask=mask.copy(), mask_corners=True, data_folded=True, pop_ids=ids)
    fs.extrap_x = env.const(Fr(1, 7))
    return fs, d, mask, ids


def make_folded(ns, which, nextra):
    """folded input: project == fold(project(unfold)) by explicit re-indexing; fold().project == project().fold()."""
    ns = tuple(ns)
    shape = tuple(n + 1 for n in ns)
    half = sum(ns) // 2
    live = [e for e, i in enumerate(np.ndindex(*shape)) if sum(i) <= half and e != 0]

    def extras():
        yield ()
        for e in live:
            yield (e,)
        if nextra >= 2:
            for a, b in itertools.combinations(live, 2):
                if (a + b) % 3 == 0 or len(live) <= 6:
                    yield (a, b)

    def body(env):
        import dadi
        _cache(env, False, max(ns))
        seen = {}
        tl = _targets(ns, which)
        for extra in extras():
            fs, d, mask, ids = _folded_input(env, ns, extra)
            snap = _snapshot(fs)
            u, um = oracle_unfold(env, d, mask, ns)
            orc = Oracle(env, u, ns)
            etag = 'x' + ('-'.join(map(str, extra)) if extra else 'none')
            for ms in tl:
                tag = '%s/to%s' % (etag, ''.join(map(str, ms)))
                p = fs.project(list(ms))
                pu = orc.project(ms)
                pum = oracle_mask(um, ns, ms)
                ef, efm = oracle_fold(env, pu, pum, ms)
                if tuple(p.shape) != tuple(m + 1 for m in ms):
                    env.fail(tag + '/shape')
                    continue
                env.holds(tag + '/mask', bool(np.all(np.ma.getmaskarray(p) == efm)))
                env.holds(tag + '/folded-flag', p.folded is True)
                env.holds(tag + '/labels kept %r' % (p.pop_ids,), p.pop_ids is not None and list(p.pop_ids) == list(ids))
                env.holds(tag + '/extrap_x kept', getattr(p, 'extrap_x', None) is fs.extrap_x)
                for j in np.ndindex(*p.shape):
                    if not efm[j]:
                        _eq(env, '%s/e%s' % (tag, list(j)), np.ma.getdata(p)[j], ef[j], seen)
            _unchanged(env, etag, fs, snap)
        # relational: folding commutes with projection (unfolded symbolic source, corners masked + one entry)
        g = env.array('g', shape)
        for extra in ((), (live[len(live) // 2],)):
            mk = np.zeros(shape, dtype=bool)
            for e in extra:
                mk.flat[e] = True
            U = dadi.Spectrum(g, mask=mk, mask_corners=True)
            for ms in tl:
                a = U.fold().project(list(ms))
                b = U.project(list(ms)).fold()
                tag = 'commute%s/to%s' % (list(extra), ''.join(map(str, ms)))
                if a.shape != b.shape:
                    env.fail(tag + '/shape')
                    continue
                am, bm = np.ma.getmaskarray(a), np.ma.getmaskarray(b)
                env.holds(tag + '/mask', bool(np.all(am == bm)))
                for j in np.ndindex(*a.shape):
                    if not am[j] and not bm[j]:
                        _eq(env, '%s/e%s' % (tag, list(j)), np.ma.getdata(a)[j], np.ma.getdata(b)[j], seen)
    return body


def make_refuse(shapes):
    """projecting upward (any axis, also together with downward axes), wrong number of sizes: ValueError."""
    def body(env):
        import dadi

        def must_raise(tag, fn):
            try:
                fn()
            except ValueError:
                env.holds(tag + '/refused', True)
                return
            except Exception as e:      # noqa
                env.fail(tag, 'raised %s instead of ValueError' % type(e).__name__)
                return
            env.fail(tag, 'accepted')
        for ns in shapes:
            ns = tuple(ns)
            _cache(env, False, max(ns))
            D = len(ns)
            d = env.array('d' + ''.join(map(str, ns)), tuple(n + 1 for n in ns))
            variants = [('unfolded', dadi.Spectrum(d, mask_corners=False)), ('cornered', dadi.Spectrum(d))]
            if sum(ns) >= 2:
                variants.append(('folded', dadi.Spectrum(d).fold()))
            for vname, fs in variants:
                for a in range(D):
                    for up in (1, 2, 7):
                        for others in ('same', 'down'):
                            tgt = [n if others == 'same' else max(1, n - 1) for n in ns]
                            tgt[a] = ns[a] + up
                            tag = '%s-%s/axis%d+%d-%s' % (vname, ''.join(map(str, ns)), a, up, others)
                            must_raise(tag, lambda: fs.project(list(tgt)))
                    if vname != 'folded':
                        must_raise('%s-%s/oneaxis%d' % (vname, ''.join(map(str, ns)), a),
                                   lambda: fs._project_one_axis(ns[a] + 1, a))
                must_raise('%s-%s/too-few-sizes' % (vname, ''.join(map(str, ns))), lambda: fs.project(list(ns[:-1])))
                must_raise('%s-%s/too-many-sizes' % (vname, ''.join(map(str, ns))),
                           lambda: fs.project(list(ns) + [1]))
                # same size is accepted and is the identity
                same = fs.project(list(ns))
                ok = tuple(same.shape) == tuple(fs.shape) and \
                    bool(np.all(np.ma.getmaskarray(same) == np.ma.getmaskarray(fs)))
                env.holds('%s-%s/same-size-mask' % (vname, ''.join(map(str, ns))), ok)
                if ok and vname != 'folded':
                    for j in np.ndindex(*fs.shape):
                        env.eq('%s-%s/same-size%s' % (vname, ''.join(map(str, ns)), list(j)),
                               np.ma.getdata(same)[j], np.ma.getdata(fs)[j])
    return body


def make_sizes_owned(ns):
    """fs.sample_sizes hands out an array the caller owns: editing it (the natural way to say "two fewer in population
    1") neither changes the spectrum's own record nor what project() does with the edited request."""
    ns = tuple(ns)

    def body(env):
        import dadi
        _cache(env, False, max(ns))
        ids = ['p%d' % a for a in range(len(ns))]
        d = env.array('d', tuple(n + 1 for n in ns))
        fs = dadi.Spectrum(d, mask_corners=False, pop_ids=ids)
        orc = Oracle(env, d, ns)
        nomask = np.zeros(d.shape, dtype=bool)
        seen = {}
        req = fs.sample_sizes
        env.holds('sample_sizes', list(req) == list(ns))
        req[0] -= 2
        if len(ns) > 1:
            req[-1] -= 1
        ms = tuple(int(v) for v in req)
        env.holds('the spectrum still reports its own sizes after the caller edited the returned array',
                  list(fs.sample_sizes) == list(ns))
        p = fs.project(req)
        _check(env, 'edited-request/to' + ''.join(map(str, ms)), p, orc, nomask, ms, seen, pop_ids=ids)
        # and the spectrum is still usable afterwards
        p2 = fs.project(list(ms))
        _check(env, 'afterwards/to' + ''.join(map(str, ms)), p2, orc, nomask, ms, seen, pop_ids=ids)
        f2 = fs.fold()
        env.holds('fold afterwards keeps the shape', tuple(f2.shape) == tuple(n + 1 for n in ns))
    return body


def make_weights(pairs, warm):
    """weight vectors of _cached_projection for every hits: equal to the exact hypergeometric rationals, zero
    outside the window, summing to 1; proj_from < proj_to gives zeros; repeated (cached) call returns the same."""
    def body(env):
        from dadi import Numerics
        _cache(env, warm, 6)
        order = list(pairs)
        if warm:
            order = order[::-1]
        for n, m in order:
            hs = list(range(n + 1))
            if warm:
                hs = hs[::2][::-1] + hs[1::2]
            for hits in hs:
                w = Numerics._cached_projection(m, n, hits)
                tag = 'n%d-m%d-h%d' % (n, m, hits)
                if len(w) != m + 1:
                    env.fail(tag + '/length')
                    continue
                ok = True
                tot = env.const(Fr(0))
                for j in range(m + 1):
                    e = hyp(n, m, hits, j)
                    tot = tot + w[j]
                    if env.symbolic:
                        ok = ok and bool(w[j] == e)
                    else:
                        ok = ok and abs(float(w[j]) - float(e)) <= 1e-9
                env.holds(tag + '/weights', ok)
                env.eq(tag + '/sum', tot, env.const(Fr(1)))
                w2 = Numerics._cached_projection(m, n, hits)     # now certainly served from the cache
                env.holds(tag + '/cached-equal', len(w2) == len(w) and all(bool(a == b) for a, b in zip(w2, w)))
        # upward keys: all-zero vector of the target length
        for n, m in order[:40]:
            for up in (1, 2):
                for hits in (0, n // 2, n):
                    z = Numerics._cached_projection(n + up, n, hits)
                    okz = len(z) == n + up + 1 and all(bool(zz == 0) for zz in z)
                    env.holds('n%d-up%d-h%d/zero' % (n, up, hits), okz)
    return body


def stub_validation_body(env):
    """translator validation: the exact gammaln/lncomb stubs agree with scipy on their integer domain (incl. the
    non-positive integers the projection formula feeds them) and the exact weights the *real* formula yields agree
    with the same formula evaluated by the unshimmed float code path (scipy gammaln, numpy.exp)."""
    if not env.symbolic:
        env.holds('stub-validation (symbolic run only)', True)
        return
    import scipy.special as sp
    from dadi import Numerics
    try:
        cnt = esf.selftest()
        bad = 0
        Numerics._projection_cache.clear()
        for n in (1, 2, 5, 9, 17, 30):
            for m in range(1, n + 1):
                for hits in range(n + 1):
                    w = Numerics._cached_projection(m, n, hits)
                    with np.errstate(all='ignore'):
                        k = np.arange(m + 1)
                        lc = lambda N, kk: sp.gammaln(N + 1) - sp.gammaln(kk + 1) - sp.gammaln(N - kk + 1)  # noqa
                        fl = np.exp(lc(m, k) + lc(n - m, hits - k) - lc(n, hits))
                    for j in range(m + 1):
                        cnt += 1
                        if abs(float(w[j].c) - fl[j]) > 1e-10:
                            bad += 1
        Numerics._projection_cache.clear()
    except Exception as e:     # a broken stub is a harness problem, never a finding about dadi
        raise S.ExplorationLimit('exact-special-function stub validation failed: %r' % (e,))
    if bad:
        raise S.ExplorationLimit('exact weights differ from the float evaluation of the same formula (%d)' % bad)
    env.holds('stubs validated against scipy (%d comparisons)' % cnt, cnt > 1000)


# ------------------------------------------------------------------------------------------------
def _shapes(D, nmax):
    return [tuple(s) for s in itertools.product(range(1, nmax + 1), repeat=D)]


def _bigm(n):
    return sorted({1, 2, 3, n // 2, n - 2, n - 1, n})


def units(tier, seed):
    th = tier == 'thorough'
    us = []

    def add(name, body, params, min_ob, timeout=None):
        us.append(H.Unit(name, body, params=params, setup=_setup, min_obligations=min_ob, expect_paths=1,
                         maxpaths=4, timeout_s=timeout or (1500 if th else 400), query_timeout_ms=60000))

    add('stub-validation', stub_validation_body, dict(what='esf.selftest + exact vs float weights'), 1)
    # ---- 1-D values, every m (exhaustive n <= 40 in both tiers)
    for n in range(1, 41):
        add('values1d-n%02d' % n, make_values_1d(n, False), dict(n=n, m='1..n', cache='cold'),
            n * (n + 3) // 2 + 2 * n)
    for n, w in ((5, True), (12, 'np'), (20, True)) + (((33, 'np'),) if th else ()):
        add('values1d-n%02d-warm' % n, make_values_1d(n, w), dict(n=n, m='1..n', cache='prewarmed-scrambled'),
            n * (n + 3) // 2 + 2 * n)
    for n in ((50, 64, 100, 128, 200) if th else (64, 200)):
        ml = _bigm(n) if th else [1, 2, n - 1]
        add('values1d-big-n%d' % n, make_values_1d(n, False, ml), dict(n=n, m=ml, cache='cold'),
            sum(m + 1 for m in ml))
    # ---- 1-D two-stage
    for n in range(2, (24 if th else 12) + 1):
        add('twostage1d-n%02d' % n, make_comp_1d(n), dict(n=n, k='m..n', m='1..n', masks=['none', 'corners+mid']),
            n * (n + 1))
    # ---- neutral fixed point
    nn = 40 if th else 30
    for lo in range(2, nn + 1, 3):
        hi = min(nn, lo + 2)
        add('neutral-n%02d-%02d' % (lo, hi), make_neutral(lo, hi), dict(n=[lo, hi], m='1..n', theta='symbolic>0'),
            sum(n for n in range(lo, hi + 1)))
    if th:
        add('neutral-n64', make_neutral(64, 64), dict(n=64, m='1..n', theta='symbolic>0'), 64)
        for n in (100, 200):
            add('neutral-n%d' % n, make_neutral(n, n, _bigm(n)), dict(n=n, m=_bigm(n), theta='symbolic>0'), 7)
    # ---- multi-D values / axis order / two-stage
    nd = []
    for s in _shapes(2, 6 if th else 4):
        nd.append((s, 'all', False))
    nd += [((6, 6), 'sel', False), ((5, 6), 'sel', False), ((6, 3), 'sel', False)] if not th else \
        [((8, 8), 'sel', False), ((10, 7), 'sel', False), ((12, 12), 'sel', False), ((3, 20), 'sel', False)]
    for s in _shapes(3, 3 if th else 2):
        nd.append((s, 'all', False))
    nd += [((3, 3, 3), 'sel', False)] if not th else [((4, 4, 4), 'sel', False), ((5, 3, 4), 'sel', False)]
    for s in (_shapes(4, 2) if th else [(2, 2, 2, 2), (1, 2, 2, 1), (2, 1, 1, 2)]):
        nd.append((s, 'all', False))
    if th:
        nd += [((3, 3, 3, 3), 'sel', False), ((3, 2, 3, 2), 'sel', False), ((2, 3, 3, 1), 'sel', False)]
    nd += [((3, 4), 'all', True), ((2, 2, 2), 'all', 'np')]
    for s, which, w in nd:
        nt = len(_targets(s, which))
        add('values%dd-%s-%s%s' % (len(s), 'x'.join(map(str, s)), which, '-warm' if w else ''),
            make_values_nd(s, which, w), dict(ns=list(s), targets=which, cache='prewarmed-scrambled' if w else 'cold'),
            3 * nt)
    # ---- masks
    emax = 12 if th else 6
    small = [s for D in (1, 2, 3) for s in _shapes(D, 11) if np.prod([n + 1 for n in s]) <= emax]
    for s in small:
        E = int(np.prod([n + 1 for n in s]))
        add('masks-all-%s' % 'x'.join(map(str, s)), make_masks(s, 'all', 'all', with_comp=(E <= 8)),
            dict(ns=list(s), patterns='all 2^%d' % E, targets='all'), (1 << E) * len(targets_all(s)))
    big = [((n,), 'all') for n in range(emax, (40 if th else 24) + 1)]
    big += [(s, 'all') for s in _shapes(2, 5 if th else 4) if np.prod([n + 1 for n in s]) > emax]
    big += [((6, 6), 'sel'), ((2, 2, 2), 'all'), ((2, 2, 2, 2), 'sel'), ((3, 2, 3), 'sel')]
    if th:
        big += [((3, 3, 3), 'all'), ((3, 3, 3, 3), 'sel'), ((2, 1, 2, 2), 'all')]
    for s, which in big:
        npat = len(list(_patterns(tuple(n + 1 for n in s), 'some')))
        comp = len(s) >= 2 or s[0] <= 12
        add('masks-some-%s-%s' % ('x'.join(map(str, s)), which), make_masks(s, 'some', which, with_comp=comp),
            dict(ns=list(s), patterns='none, every single entry, corners, corners+one, strided', targets=which,
                 two_stage=comp), npat * len(_targets(s, which)))
    add('masks-some-7-warm', make_masks((7,), 'some', 'all', warm=True),
        dict(ns=[7], patterns='some', targets='all', cache='prewarmed-scrambled'), 50)
    # ---- folded
    fl = [((n,), 'all', 2) for n in range(2, (20 if th else 10) + 1)]
    fl += [(s, 'all', 1) for s in ([(1, 1), (1, 2), (2, 2), (3, 2), (2, 3), (3, 3), (4, 3), (4, 4)] if not th else
                                    _shapes(2, 5))]
    fl += [((2, 2, 2), 'all', 1), ((1, 2, 1), 'all', 2)]
    if th:
        fl += [((3, 3, 3), 'sel', 1), ((3, 2, 3), 'all', 1), ((2, 2, 2, 2), 'sel', 1), ((1, 2, 2, 1), 'all', 1),
               ((7, 6), 'sel', 1)]
    for s, which, nx in fl:
        add('folded-%s-%s' % ('x'.join(map(str, s)), which), make_folded(s, which, nx),
            dict(ns=list(s), targets=which, extra_masked='none, every single live entry' +
                 (', pairs' if nx >= 2 else '')), 2 * len(_targets(s, which)))
    # ---- refusal
    add('refuse-1d', make_refuse([(1,), (2,), (5,), (12,)]), dict(shapes=[[1], [2], [5], [12]]), 40)
    add('refuse-2d', make_refuse([(1, 1), (2, 3), (4, 2)]), dict(shapes=[[1, 1], [2, 3], [4, 2]]), 60)
    add('refuse-3d', make_refuse([(1, 2, 1), (2, 2, 3)]), dict(shapes=[[1, 2, 1], [2, 2, 3]]), 60)
    add('refuse-4d', make_refuse([(1, 1, 1, 1), (2, 1, 2, 2)]), dict(shapes=[[1, 1, 1, 1], [2, 1, 2, 2]]), 80)
    # ---- weight vectors: every (n, m, hits), n <= 40 (quick) / n <= 64 (thorough)
    chunks = [(1, 10), (11, 16), (17, 20), (21, 24), (25, 28), (29, 32), (33, 35), (36, 38), (39, 40)]
    if th:
        chunks += [(n, n) for n in range(41, 65)]
    for lo, hi in chunks:
        pairs = [(n, m) for n in range(lo, hi + 1) for m in range(1, n + 1)]
        add('weights-n%02d-%02d' % (lo, hi), make_weights(pairs, False), dict(n=[lo, hi], m='1..n', hits='0..n'),
            3 * sum(n + 1 for n, m in pairs))
    pairs = [(n, m) for n in range(1, 13) for m in range(1, n + 1)]
    add('weights-n01-12-warm', make_weights(pairs, True), dict(n=[1, 12], m='1..n', hits='0..n',
                                                               cache='prewarmed-scrambled, reversed order'),
        3 * sum(n + 1 for n, m in pairs))
    for n in ((100, 128, 200) if th else (100, 200)):
        for m in (_bigm(n)[:-1] if th else [1, n // 2, n - 1]):
            add('weights-big-n%d-m%d' % (n, m), make_weights([(n, m)], False), dict(n=n, m=m, hits='0..n'),
                3 * (n + 1))
    # sizes at and next to powers of two, as n, as m and as n - m (a table of log-factorials / a packed key / a narrow
    # integer type has its edge there; each of the three binomials in the weight sees the size once)
    for n, m in ((127, 1), (128, 1), (128, 127), (129, 1), (129, 128), (130, 2), (130, 128), (255, 254), (256, 1),
                 (256, 255), (257, 1), (257, 256), (258, 2), (258, 256)):
        add('weights-edge-n%d-m%d' % (n, m), make_weights([(n, m)], False), dict(n=n, m=m, hits='0..n'), 3 * (n + 1))
    for ns_ in ((5,), (4, 3)) + (((6, 2, 3),) if th else ()):
        add('sizes-owned-%s' % 'x'.join(map(str, ns_)), make_sizes_owned(ns_), dict(ns=list(ns_)), 4)
    # large sizes requested one after the other in ONE process (memo keys of neighbouring sizes must not collide)
    for tag, pairs in ((('150-151', [(150, 10), (151, 10), (50, 11), (51, 11)]),
                        ('120-121-199-200', [(121, 7), (120, 7), (200, 3), (199, 3), (21, 8), (20, 8)])) +
                       ((('128-129', [(128, 20), (129, 20), (29, 21)]),) if th else ())):
        add('weights-big-hist-' + tag, make_weights(pairs, False), dict(pairs=pairs, hits='0..n'),
            3 * sum(n + 1 for n, m in pairs))
    return us
