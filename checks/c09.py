"""C09 - folding and ancestral misidentification conserve counts; symmetric, idempotent; folding status,
masks and labels survive arithmetic, slicing and likelihood evaluation.

Real code executed on numpy object arrays of z3 reals: Spectrum.fold / Spectrum.unfold /
Numerics.reverse_array / Numerics.apply_anc_state_misid / Numerics.make_anc_state_misid_func / the exec-generated
operator overloads of Spectrum (+ the numpy.ma unary operators it inherits) / Spectrum slicing /
Inference.ll_per_bin, Inference.ll, Inference.optimal_sfs_scaling (auto-fold of the model against folded data).

Shapes, mask patterns, operators and operand kinds are enumerated concretely; every spectrum VALUE (and the
misidentification probability p, and scalar operands) is a z3 real.  The oracles are explicit re-indexing
formulas over index tuples (mirror(idx) = n - idx, t(idx) = sum(idx), N = sum(n)) written here, never a call of
the function under test.
"""
import itertools
import logging
import math
import operator
from fractions import Fraction as Fr

import numpy as np

from engine import harness as H
from engine import shims
from engine import symreal as S

for _n in ('Spectrum_mod', 'Inference', 'Numerics'):
    logging.getLogger(_n).setLevel(logging.CRITICAL)

META = dict(
    explanation=(
        'Spectrum.fold/unfold, Numerics.reverse_array/apply_anc_state_misid/make_anc_state_misid_func, all '
        'binary/reflected/in-place/unary operators of Spectrum, slicing and Inference.ll_per_bin/ll/'
        'optimal_sfs_scaling are executed on Spectrum objects whose entries are z3 reals, for enumerated shapes '
        '(1-5 dimensions, even and odd total sample size) and enumerated boolean mask patterns.  z3 proves entry by '
        'entry: fold(x)[i] = x[i]+x[mirror i] below the diagonal t<N/2, (x[i]+x[mirror i])/2 on it, 0 above; '
        'sum(fold(x)) = sum(x) (all entries, and restricted to the unmasked pairs); fold(mirror x) = fold(x); '
        'mask(fold x) = M[i] or M[mirror i] or folded-out; unfold(y)[i] = (y[i]+y[mirror i])/2 with the mask '
        'reconstructed as the mirror-closure of the non-structural mask; fold(unfold(fold x)) = fold x (data and '
        'mask); apply_anc_state_misid(x,p) = (1-p)x + p mirror(x) for symbolic p in [0,1] (pairwise mass '
        'conservation, fold-invariance, p=0/1/half); operators between equal-folding operands give the entrywise '
        'result on unmasked entries, OR the masks, keep folded and pop_ids, mixed folding raises ValueError (and '
        'leaves in-place targets untouched); slices keep flags and carry the sliced mask; the likelihood of an '
        'unfolded model against folded data equals the explicit Poisson sum over the explicitly folded model.'),
    functions=['dadi.Spectrum_mod.Spectrum.fold', 'dadi.Spectrum_mod.Spectrum.unfold',
               'dadi.Spectrum_mod.Spectrum.__new__', 'dadi.Spectrum_mod.Spectrum._total_per_entry',
               'dadi.Spectrum_mod.Spectrum.__add__/__radd__/__sub__/__rsub__/__mul__/__rmul__/__truediv__/'
               '__rtruediv__/__pow__/__iadd__/__isub__/__imul__/__itruediv__/__ipow__',
               'dadi.Spectrum_mod.Spectrum._check_other_folding', 'dadi.Spectrum_mod.Spectrum.__array_finalize__/'
               '__array_wrap__/_update_from (via -x, +x, abs(x), slicing, copy)', 'dadi.Spectrum_mod.Spectrum.log',
               'dadi.Numerics.reverse_array', 'dadi.Numerics.apply_anc_state_misid',
               'dadi.Numerics.make_anc_state_misid_func', 'dadi.Numerics.intersect_masks',
               'dadi.Inference.ll_per_bin', 'dadi.Inference.ll', 'dadi.Inference.optimal_sfs_scaling'],
    files=['dadi/Spectrum_mod.py', 'dadi/Numerics.py', 'dadi/Inference.py'],
    bounds=dict(
        quick='fold/unfold/misid laws: shapes (2) (3) (4) (5) (6) (7) (2,2) (2,3) (3,2) (3,3) (2,4) (3,4) (2,2,2) '
              '(2,2,3) (3,2,2) (2,2,2,2) (2,3,2,2) (2,2,2,2,2) (total sample size N=1..7, even and odd), plus large sample '
              'sizes (130) (258) (3,130) (131,2) with masks {none, corners} only; all 2^E mask '
              'patterns for E<=8 entries, otherwise {no mask, both corners} x {nothing, every single entry, every '
              'pair of entries}; unfold of directly constructed folded spectra: all patterns on the non-structural '
              'entries by the same rule; operators (add sub mul truediv pow, reflected, in-place, neg pos abs copy; '
              'operand kinds Spectrum / Sym scalar / int / ndarray / masked_array / opposite-folding Spectrum): '
              'shapes (3) (4) (2,3) (3,3) (2,2,2) (2,2,2,2) (2,2,2,2,2), unfolded and folded operands, mask pairs = '
              'all pattern pairs (E<=3), {none, corners, singles}^2 (E<=9), a spread of singles against {none, '
              'corners, itself, next} (larger); slices/index arrays/views: shapes (4) (5) (3,4) (2,3,2) (2,2,2,2) '
              '(2,2,2,2,2); likelihood: shapes (4) (5) (2,3) (3,3) (2,2,2), data mask patterns all (E<=4) or {none, '
              'corners} x {nothing, singles}, model mask in {corners, none, same as data}; p symbolic in [0,1]',
        thorough='fold/unfold/misid laws: every 1-3-D shape with all dims >= 2 and <= 12 entries (N=1..11), plus (1,3) '
                 '(3,1) (1,4), 4-D (2,2,2,2) (3,2,2,2) (2,2,3,2) (3,3,2,2) (2,3,2,3) (3,3,3,2) (3,3,3,3), 5-D '
                 '(2,2,2,2,2) (3,2,2,2,2) (2,2,3,2,2) (2,2,2,2,3) (3,3,2,2,2); all 2^E patterns for E<=12, otherwise '
                 '{none, corners} x {nothing, singles, pairs} (pairs only up to 48 entries); operators additionally '
                 'on (5) (6) (3,4) (2,2,3) (2,3,2,2) (3,2,2,2,2) and all pattern pairs for E<=4; slices additionally '
                 '(6) (4,3) (3,3,2) (3,2,2,2); likelihood additionally (6) (3,4) (2,2,3) (2,2,2,2) with all patterns '
                 'for E<=6 and pairs for E<=9'),
    outside=['float round-off (doubles modelled as reals)',
             'the data laws of fold/unfold are stated on .data of every entry irrespective of the mask (as dadi\'s '
             'own tests do for the totals); operator/misid/likelihood data laws only on unmasked result entries',
             'the absent corner entry [0,..,0] of fold()/unfold() results: the Spectrum constructor masks it by '
             'default even when neither corner of the input was masked (mask law claimed for it only when the union '
             'law implies masking; the masked-total law is stated w.r.t. the actual corner mask)',
             'data values stored under masked entries of operator results', 'floor division and Sym-valued exponents',
             'unfold() of inconsistent folded spectra (structural entries unmasked or non-zero)',
             'pop_ids when the two operands carry different labels (dadi only warns)',
             'likelihood when the folded model is masked where the data is not (warning path formats floats)',
             'extrap_x bookkeeping'],
    stubs=['numpy.ma.log inside Spectrum.log -> fresh real per entry (contract: some real; its argument is proved '
           'equal to the explicitly folded model entry), masked where the argument is <= 0 (numpy.ma domain)',
           'scipy.special.gammaln inside Inference -> fresh real per entry (argument proved equal to data+1)',
           'numpy array constructors -> object arrays; Spectrum.__new__ default dtype float -> object'],
    assumptions=['doubles modelled as reals', 'recorded denominators != 0 (division operands)',
                 'likelihood: model entries > 0, data entries >= 0'],
)

IDS5 = ['popA', 'popB', 'popC', 'popD', 'popE']


# ------------------------------------------------------------------------------------------------
# local contract stubs (likelihood part)
LOGS = []
GAMS = []
_cnt = [0]


def _fresh(prefix):
    _cnt[0] += 1
    return S.R('%s%d' % (prefix, _cnt[0]))


class _MaLog(shims.MaShim):
    """numpy.ma with log -> fresh reals (records (argument, result)); numpy.ma's domain masking (<= 0) kept."""

    def log(self, x):
        xd = np.ma.getdata(x)
        if not shims._has_sym(xd):
            return np.ma.log(x)
        args = np.array(xd, dtype=object)
        res = self._domain(x, lambda v: v <= 0, lambda v: _fresh('LOG'))
        LOGS.append((args, np.ma.getdata(res), np.ma.getmaskarray(res).copy()))
        return res


def _gammaln_stub(x):
    if isinstance(x, np.ma.MaskedArray):
        out = x.copy()
        d = np.ma.getdata(out)
        xd = np.ma.getdata(x)
        args = np.array(xd, dtype=object)
        for idx in np.ndindex(*d.shape):
            d[idx] = _fresh('LGAM')
        GAMS.append((args, np.array(d, dtype=object)))
        return out
    xd = np.asarray(x, dtype=object)
    out = np.empty(xd.shape, dtype=object)
    for idx in np.ndindex(*xd.shape):
        out[idx] = _fresh('LGAM')
    GAMS.append((xd, out))
    return out


_orig_div = S.Sym._div


def _div_total(a, b):
    """Sym division made total: x / (exact 0) is 'some real' (a fresh variable) instead of an exception.  The
    operator overloads divide the *data* of structurally masked (folded-out, exactly zero) entries too; floats
    give inf/nan there, under the mask.  Obligations never read masked entries."""
    if b.c is not None and b.c == 0:
        return _fresh('UNDEF')
    return _orig_div(a, b)


def _setup():
    import dadi
    from dadi import Numerics, Spectrum_mod, Inference
    S.Sym._div = staticmethod(_div_total)
    shims.install_numpy(Numerics)
    sh = shims.install_numpy(Spectrum_mod)
    object.__setattr__(sh, 'ma', _MaLog(np.ma))
    shims.install_numpy(Inference)
    shims.set_attr(Inference, 'gammaln', _gammaln_stub)
    shims.patch_spectrum_dtype(dadi.Spectrum)


# ------------------------------------------------------------------------------------------------
# index helpers (the independent oracle lives on index tuples)
def _mirror(idx, shape):
    return tuple(s - 1 - i for i, s in zip(idx, shape))


def _indices(shape):
    return list(np.ndindex(*shape))


def _mask_from_bits(bits, shape):
    m = np.zeros(shape, dtype=bool)
    flat = m.reshape(-1)
    k = 0
    while bits:
        if bits & 1:
            flat[k] = True
        bits >>= 1
        k += 1
    return m


def _patterns(E, full_limit, pair_limit):
    """All bit patterns when E <= full_limit, else {none, corners} x {nothing, singles, pairs}."""
    if E <= full_limit:
        return list(range(2 ** E))
    out = []
    corners = 1 | (1 << (E - 1))
    for base in (0, corners):
        out.append(base)
        for i in range(E):
            out.append(base | (1 << i))
        if E <= pair_limit:
            for i in range(E):
                for j in range(i + 1, E):
                    out.append(base | (1 << i) | (1 << j))
    return sorted(set(out))


def _chunks(lst, n):
    return [lst[i:i + n] for i in range(0, len(lst), n)]


def _pstr(bits, E):
    return format(bits, '0%db' % E)[::-1]


class _Emit:
    """Obligation emitter.  Symbolic mode: an obligation whose two z3 terms are identical to one already
    emitted on this path is not emitted again (same terms = same obligation; mask patterns do not enter the
    data terms unless the code makes them).  Boolean (structural) facts are aggregated per pattern."""

    def __init__(self, env):
        self.env = env
        self.seen = set()
        self.dups = 0
        self.bad = []
        self.nstruct = 0

    def eq(self, label, a, b):
        env = self.env
        if env.symbolic:
            a_, b_ = S.Sym.lift(a), S.Sym.lift(b)
            key = (a_.t.get_id(), b_.t.get_id())
            if key in self.seen:
                self.dups += 1
                return
            self.seen.add(key)
            env.eq(label, a_, b_)
        else:
            try:
                fa, fb = float(a), float(b)
            except Exception:
                env.fail(label, 'non-numeric')
                return
            if not (math.isfinite(fa) and math.isfinite(fb)):
                return  # replay values outside the domain of the law (division by a zero default value)
            env.eq(label, fa, fb)

    def ok(self, label, cond):
        self.nstruct += 1
        if not bool(cond):
            self.bad.append(label)

    def flush(self, label):
        """One aggregated obligation for all boolean facts since the last flush (each failure separately)."""
        for b in self.bad:
            self.env.fail('%s: %s' % (label, b))
        self.env.holds('%s: %d structural facts' % (label, self.nstruct), not self.bad)
        self.bad = []
        self.nstruct = 0


def _half(env):
    return env.const(Fr(1, 2))


def _fold_oracle(env, x, M, shape):
    """Explicit definition: (data, mask, folded_out) of the folded spectrum of data x with mask M."""
    N = sum(s - 1 for s in shape)
    data = {}
    mask = {}
    fo = {}
    for idx in _indices(shape):
        m = _mirror(idx, shape)
        t = sum(idx)
        if 2 * t < N:
            data[idx] = x[idx] + x[m]
        elif 2 * t == N:
            data[idx] = _half(env) * (x[idx] + x[m])
        else:
            data[idx] = env.const(0)
        fo[idx] = 2 * t > N
        mask[idx] = bool(M[idx]) or bool(M[m]) or fo[idx]
    return data, mask, fo


def _total(env, terms):
    s = env.const(0)
    for v in terms:
        s = s + v
    return s


def _is_spectrum(obj):
    import dadi
    return isinstance(obj, dadi.Spectrum)


def _raises_valueerror(fn):
    try:
        fn()
    except ValueError:
        return True
    except Exception:
        return False
    return False


# ------------------------------------------------------------------------------------------------
def make_fold_body(shape, pats, layout='C'):
    shape = tuple(shape)
    E = int(np.prod(shape))
    ids = IDS5[:len(shape)]
    idxs = _indices(shape)
    zero = tuple(0 for _ in shape)
    last = tuple(s - 1 for s in shape)

    def body(env):
        import dadi
        from dadi import Numerics
        em = _Emit(env)
        x = env.array('x', shape)
        if layout == 'T':
            # same values at the same indices, but held in a transposed (non C-contiguous) view: index order, not
            # memory order, is what folding / reversing / unfolding are defined on
            x = np.ascontiguousarray(x.T).T
        xm = np.empty(shape, dtype=x.dtype)          # explicit mirror image of the data
        for idx in idxs:
            xm[idx] = x[_mirror(idx, shape)]
        for bits in pats:
            ps = _pstr(bits, E)
            M = _mask_from_bits(bits, shape)
            Mm = np.zeros(shape, dtype=bool)
            for idx in idxs:
                Mm[idx] = M[_mirror(idx, shape)]
            fs = dadi.Spectrum(x, mask=(np.ascontiguousarray(M.T).T if layout == 'T' else M.copy()), mask_corners=False,
                               pop_ids=list(ids))
            if layout == 'T':
                em.ok('input is a non-contiguous view', not np.ma.getdata(fs).flags['C_CONTIGUOUS'])
            em.ok('constructed unfolded', fs.folded is False)
            fo = fs.fold()
            od, om, ofo = _fold_oracle(env, x, M, shape)
            corner_implied = om[zero]

            def check_folded(tag, r):
                em.ok(tag + ' type', _is_spectrum(r))
                em.ok(tag + ' folded flag', r.folded is True)
                em.ok(tag + ' pop_ids', list(r.pop_ids) == list(ids))
                em.ok(tag + ' shape', r.shape == shape)
                rm = np.ma.getmaskarray(r)
                rd = np.ma.getdata(r)
                for idx in idxs:
                    if idx == zero and not corner_implied:
                        continue  # constructor default mask_corners (outside the claim)
                    em.ok('%s mask%s' % (tag, list(idx)), bool(rm[idx]) == om[idx])
                for idx in idxs:
                    em.eq('%s[%s] data%s' % (tag, ps, list(idx)), rd[idx], od[idx])
                return rm, rd

            fom, fod = check_folded('fold', fo)
            # the input is not modified
            em.ok('input mask untouched', np.array_equal(np.ma.getmaskarray(fs), M))
            em.ok('input still unfolded', fs.folded is False)
            for idx in idxs:
                em.eq('input data untouched%s' % list(idx), np.ma.getdata(fs)[idx], x[idx])
            # totals: all entries; and the masked total equals the total of the pairs that stay unmasked
            em.eq('fold[%s] total(all entries)' % ps, _total(env, [fod[i] for i in idxs]),
                  _total(env, [x[i] for i in idxs]))
            keep = [i for i in idxs if not fom[i]]
            em.ok('kept entries are below/on the diagonal', all(not ofo[i] for i in keep))
            # an input entry is counted iff it or its mirror image survives unmasked in the folded spectrum
            want = [x[j] for j in idxs if (not fom[j]) or (not fom[_mirror(j, shape)])]
            tot = fo.sum()
            if keep:
                em.eq('fold[%s] masked total' % ps, tot, _total(env, want))
            else:
                em.ok('all-masked total is masked', tot is np.ma.masked)
            em.ok('fold of folded raises', _raises_valueerror(fo.fold))
            # mirror symmetry: explicit mirror image and the library's reverse_array
            fsm = dadi.Spectrum(xm, mask=Mm.copy(), mask_corners=False, pop_ids=list(ids))
            rev = Numerics.reverse_array(fs)
            em.ok('reverse_array type/flags', _is_spectrum(rev) and rev.folded is False
                  and list(rev.pop_ids) == list(ids))
            em.ok('reverse_array mask', np.array_equal(np.ma.getmaskarray(rev), Mm))
            for idx in idxs:
                em.eq('reverse_array data%s' % list(idx), np.ma.getdata(rev)[idx], xm[idx])
            for tag, src in (('fold(mirror)', fsm), ('fold(reverse_array)', rev)):
                r = src.fold()
                rm, rd = check_folded(tag, r)
                em.ok(tag + ' mask identical to fold(x)', np.array_equal(rm, fom))
                for idx in idxs:
                    em.eq('%s[%s] == fold(x)%s' % (tag, ps, list(idx)), rd[idx], fod[idx])
            # unfold: entries shared equally, mask = mirror closure
            un = fo.unfold()
            em.ok('unfold type', _is_spectrum(un))
            em.ok('unfold flag', un.folded is False)
            em.ok('unfold pop_ids', list(un.pop_ids) == list(ids))
            unm, und = np.ma.getmaskarray(un), np.ma.getdata(un)
            for idx in idxs:
                m = _mirror(idx, shape)
                em.eq('unfold(fold)[%s] data%s' % (ps, list(idx)), und[idx], _half(env) * (x[idx] + x[m]))
                if idx in (zero, last) and not (M[zero] or M[last]):
                    continue
                em.ok('unfold(fold) mask%s' % list(idx), bool(unm[idx]) == (bool(M[idx]) or bool(M[m])))
            em.eq('unfold[%s] total' % ps, _total(env, [und[i] for i in idxs]), _total(env, [x[i] for i in idxs]))
            em.ok('unfold of unfolded raises', _raises_valueerror(un.unfold))
            em.ok('unfold leaves input folded', fo.folded is True and np.array_equal(np.ma.getmaskarray(fo), fom))
            # idempotence
            ff = un.fold()
            ffm, ffd = check_folded('fold(unfold(fold))', ff)
            em.ok('fold(unfold(fold)) mask == fold mask', np.array_equal(ffm, fom))
            for idx in idxs:
                em.eq('fold(unfold(fold))[%s] == fold%s' % (ps, list(idx)), ffd[idx], fod[idx])
            em.flush('pattern %s' % ps)
        env.note('identical-term obligations skipped: %d' % em.dups)
    return body


def make_unfold_body(shape, pats):
    """unfold of a consistent folded spectrum with an arbitrary extra mask P on the non-structural entries."""
    shape = tuple(shape)
    ids = IDS5[:len(shape)]
    idxs = _indices(shape)
    N = sum(s - 1 for s in shape)
    low = [i for i in idxs if 2 * sum(i) <= N]
    zero = tuple(0 for _ in shape)
    last = tuple(s - 1 for s in shape)

    def body(env):
        import dadi
        em = _Emit(env)
        yl = env.array('y', (len(low),))
        y = np.empty(shape, dtype=yl.dtype)
        for idx in idxs:
            y[idx] = env.const(0)
        for k, idx in enumerate(low):
            y[idx] = yl[k]
        FO = np.zeros(shape, dtype=bool)
        for idx in idxs:
            FO[idx] = 2 * sum(idx) > N
        for bits in pats:
            ps = _pstr(bits, len(low))
            P = np.zeros(shape, dtype=bool)
            for k, idx in enumerate(low):
                if (bits >> k) & 1:
                    P[idx] = True
            fy = dadi.Spectrum(y, mask=np.logical_or(P, FO), mask_corners=False, data_folded=True,
                               pop_ids=list(ids))
            em.ok('constructed folded', fy.folded is True)
            un = fy.unfold()
            em.ok('type', _is_spectrum(un))
            em.ok('flag', un.folded is False)
            em.ok('pop_ids', list(un.pop_ids) == list(ids))
            unm, und = np.ma.getmaskarray(un), np.ma.getdata(un)
            for idx in idxs:
                m = _mirror(idx, shape)
                em.eq('unfold[%s] data%s' % (ps, list(idx)), und[idx], _half(env) * (y[idx] + y[m]))
                if idx in (zero, last) and not (P[zero] or P[last]):
                    continue
                em.ok('unfold mask%s' % list(idx), bool(unm[idx]) == (bool(P[idx]) or bool(P[m])))
            em.eq('unfold[%s] total' % ps, _total(env, [und[i] for i in idxs]), _total(env, [y[i] for i in idxs]))
            em.ok('input untouched', fy.folded is True and np.array_equal(np.ma.getmaskarray(fy),
                                                                         np.logical_or(P, FO)))
            # folding back: the counts of every mirror pair return to the minor-allele entry
            ff = un.fold()
            ffm, ffd = np.ma.getmaskarray(ff), np.ma.getdata(ff)
            em.ok('refold flag', ff.folded is True)
            for idx in idxs:
                m = _mirror(idx, shape)
                t = sum(idx)
                if 2 * t < N:
                    want = y[idx]
                elif 2 * t == N:
                    want = _half(env) * (y[idx] + y[m])
                else:
                    want = env.const(0)
                em.eq('fold(unfold)[%s] data%s' % (ps, list(idx)), ffd[idx], want)
                if idx == zero and not (P[zero] or P[last]):
                    continue
                em.ok('fold(unfold) mask%s' % list(idx), bool(ffm[idx]) == (bool(P[idx]) or bool(P[m]) or FO[idx]))
            em.flush('pattern %s' % ps)
        env.note('identical-term obligations skipped: %d' % em.dups)
    return body


def make_misid_body(shape, pats):
    shape = tuple(shape)
    E = int(np.prod(shape))
    ids = IDS5[:len(shape)]
    idxs = _indices(shape)
    N = sum(s - 1 for s in shape)
    zero = tuple(0 for _ in shape)

    def body(env):
        import dadi
        from dadi import Numerics
        em = _Emit(env)
        x = env.array('x', shape)
        p = env.real('p', lo=0, hi=1)
        q = env.real('q')
        for pi, bits in enumerate(pats):
            ps = _pstr(bits, E)
            M = _mask_from_bits(bits, shape)
            fs = dadi.Spectrum(x, mask=M.copy(), mask_corners=False, pop_ids=list(ids))
            cases = [('p', p)]
            if pi in (0, len(pats) - 1):
                cases += [('p=0', env.const(0)), ('p=1', env.const(1)), ('p=1/2', _half(env))]
            for ptag, pv in cases:
                r = Numerics.apply_anc_state_misid(fs, pv)
                em.ok(ptag + ' type', _is_spectrum(r))
                em.ok(ptag + ' stays unfolded', r.folded is False)
                em.ok(ptag + ' pop_ids', list(r.pop_ids) == list(ids))
                rm, rd = np.ma.getmaskarray(r), np.ma.getdata(r)
                for idx in idxs:
                    m = _mirror(idx, shape)
                    um = bool(M[idx]) or bool(M[m])
                    em.ok('%s mask%s' % (ptag, list(idx)), bool(rm[idx]) == um)
                    if um:
                        continue
                    # convex mix, written differently from the code: x + p (mirror - x)
                    em.eq('misid[%s,%s] data%s' % (ps, ptag, list(idx)), rd[idx], x[idx] + pv * (x[m] - x[idx]))
                    if ptag == 'p=0':
                        em.eq('misid p=0 identity%s' % list(idx), rd[idx], x[idx])
                    if ptag == 'p=1':
                        em.eq('misid p=1 mirror%s' % list(idx), rd[idx], x[m])
                    if ptag == 'p=1/2':
                        em.eq('misid p=1/2 symmetric%s' % list(idx), rd[idx], rd[m])
                    if idx <= m:
                        em.eq('misid[%s,%s] pair mass%s' % (ps, ptag, list(idx)), rd[idx] + rd[m], x[idx] + x[m])
                em.ok(ptag + ' input untouched', np.array_equal(np.ma.getmaskarray(fs), M) and fs.folded is False)
            # folding forgets misidentification
            r = Numerics.apply_anc_state_misid(fs, p)
            fr, ff = r.fold(), fs.fold()
            em.ok('fold(misid) mask == fold mask', np.array_equal(np.ma.getmaskarray(fr), np.ma.getmaskarray(ff)))
            em.ok('fold(misid) folded', fr.folded is True and list(fr.pop_ids) == list(ids))
            for idx in idxs:
                if np.ma.getmaskarray(ff)[idx]:
                    continue
                em.eq('fold(misid)[%s] == fold%s' % (ps, list(idx)), np.ma.getdata(fr)[idx], np.ma.getdata(ff)[idx])
            if pi in (0, len(pats) - 1):
                # the wrapper: last parameter is p, the rest (and all other arguments) go to the model function
                seen = []

                def model(params, ns, pts, scale=None):
                    seen.append((list(params), ns, pts, scale))
                    return scale * fs

                wrapped = Numerics.make_anc_state_misid_func(model)
                a, b = env.real('a'), env.real('b')
                r2 = wrapped([a, b, p], (3, 4), 17, scale=q)
                em.ok('wrapper name', wrapped.__name__ == 'model_misid')
                em.ok('wrapper forwards arguments', len(seen) == 1 and len(seen[0][0]) == 2
                      and seen[0][1] == (3, 4) and seen[0][2] == 17)
                if len(seen) == 1 and len(seen[0][0]) == 2:
                    em.eq('wrapper param0', seen[0][0][0], a)
                    em.eq('wrapper param1', seen[0][0][1], b)
                    em.eq('wrapper kwarg', seen[0][3], q)
                em.ok('wrapper result flags', _is_spectrum(r2) and r2.folded is False
                      and list(r2.pop_ids) == list(ids))
                r2m, r2d = np.ma.getmaskarray(r2), np.ma.getdata(r2)
                for idx in idxs:
                    m = _mirror(idx, shape)
                    um = bool(M[idx]) or bool(M[m])
                    em.ok('wrapper mask%s' % list(idx), bool(r2m[idx]) == um)
                    if not um:
                        em.eq('wrapper[%s] data%s' % (ps, list(idx)), r2d[idx],
                              q * x[idx] + p * (q * x[m] - q * x[idx]))
            em.flush('pattern %s' % ps)
        env.note('identical-term obligations skipped: %d' % em.dups)
    return body


# ------------------------------------------------------------------------------------------------
BINOPS = [('add', operator.add), ('sub', operator.sub), ('mul', operator.mul), ('truediv', operator.truediv)]
IOPS = [('iadd', operator.iadd), ('isub', operator.isub), ('imul', operator.imul), ('itruediv', operator.itruediv)]


def make_ops_body(shape, pairs, folded):
    shape = tuple(shape)
    E = int(np.prod(shape))
    ids = IDS5[:len(shape)]
    idxs = _indices(shape)

    def body(env):
        import dadi
        em = _Emit(env)
        x = env.array('x', shape)
        y = env.array('y', shape)
        c = env.real('c')
        two = 2

        def mk(data, bits, pop_ids=ids):
            fs = dadi.Spectrum(data, mask=_mask_from_bits(bits, shape), mask_corners=False,
                               pop_ids=None if pop_ids is None else list(pop_ids))
            if not folded:
                return fs
            fs = fs.fold()
            if env.symbolic:
                # fold() leaves Python floats (0.0) in the structural entries of the object array; the float code
                # divides by them silently (inf/nan under the mask) whereas Python floats raise.  Same values,
                # represented as exact Sym constants (division by them is 'some real', see _div_total).
                d = np.ma.getdata(fs)
                for idx in idxs:
                    if not isinstance(d[idx], S.Sym):
                        d[idx] = S.C(d[idx])
            return fs

        for pi, (b1, b2) in enumerate(pairs):
            ps = '%s|%s' % (_pstr(b1, E), _pstr(b2, E))
            A, B = mk(x, b1), mk(y, b2)
            Am, Bm = np.ma.getmaskarray(A).copy(), np.ma.getmaskarray(B).copy()
            Ad, Bd = np.array(np.ma.getdata(A)), np.array(np.ma.getdata(B))
            Z = dadi.Spectrum(y, mask=_mask_from_bits(b2, shape), mask_corners=False, pop_ids=list(ids))
            other_fold = Z if folded else Z.fold()     # operand with the opposite folding status
            yarr = np.array(y)
            mB = np.ma.masked_array(np.array(y), mask=_mask_from_bits(b2, shape))
            mBm = np.ma.getmaskarray(mB).copy()
            first = pi == 0

            def check(tag, r, wantmask, f, ids_want=ids, fresh=()):
                em.ok(tag + ' type', _is_spectrum(r))
                em.ok(tag + ' folded flag', r.folded is folded)
                em.ok(tag + ' pop_ids', r.pop_ids is not None and list(r.pop_ids) == list(ids_want))
                rm, rd = np.ma.getmaskarray(r), np.ma.getdata(r)
                em.ok(tag + ' mask is the OR of the operand masks', np.array_equal(rm, wantmask))
                for idx in idxs:
                    if not wantmask[idx] and not rm[idx]:
                        em.eq('%s[%s] data%s' % (tag, ps, list(idx)), rd[idx], f(idx))
                if fresh:
                    # the operands' masks and data survive what is later done to the RESULT of dadi's own (non-in-place)
                    # operators: mask every entry of the result and overwrite its data, then look back at the operands
                    snap = [(o_, np.ma.getmaskarray(o_).copy(), np.array(np.ma.getdata(o_))) for o_ in fresh]
                    if isinstance(np.ma.getmask(r), np.ndarray):
                        np.ma.getmask(r)[...] = True
                    np.ma.getdata(r)[...] = 0
                    for o_, m0, d0 in snap:
                        d1 = np.ma.getdata(o_)
                        em.ok(tag + ' operand unchanged after the result was masked and overwritten',
                              np.array_equal(np.ma.getmaskarray(o_), m0)
                              and all(d1[i] is d0[i] or bool(d1[i] == d0[i]) for i in idxs))

            for name, op in BINOPS:
                check(name + '(S,S)', op(A, B), Am | Bm, lambda i: op(Ad[i], Bd[i]), fresh=(A, B))
                check(name + '(S,sym)', op(A, c), Am, lambda i: op(Ad[i], c), fresh=(A,))
                check(name + '(sym,S)', op(c, A), Am, lambda i: op(c, Ad[i]), fresh=(A,))
                check(name + '(S,int)', op(A, two), Am, lambda i: op(Ad[i], two), fresh=(A,))
                check(name + '(int,S)', op(two, A), Am, lambda i: op(two, Ad[i]), fresh=(A,))
                check(name + '(S,ndarray)', op(A, yarr), Am, lambda i: op(Ad[i], y[i]), fresh=(A, yarr))
                check(name + '(ndarray,S)', op(yarr, A), Am, lambda i: op(y[i], Ad[i]), fresh=(A, yarr))
                check(name + '(S,masked_array)', op(A, mB), Am | mBm, lambda i: op(Ad[i], y[i]), fresh=(A, mB))
                check(name + '(masked_array,S)', op(mB, A), Am | mBm, lambda i: op(y[i], Ad[i]), fresh=(A, mB))
                em.ok(name + ' mixed folding refused', _raises_valueerror(lambda: op(A, other_fold)))
                em.ok(name + ' mixed folding refused (reflected)', _raises_valueerror(lambda: op(other_fold, A)))
            check('pow(S,2)', A ** 2, Am, lambda i: Ad[i] * Ad[i], fresh=(A,))
            check('pow(S,3)', A ** 3, Am, lambda i: Ad[i] * Ad[i] * Ad[i])
            check('pow(S,sym)', A ** c, Am, lambda i: Ad[i] ** c)          # POW(x, c): uninterpreted, same term
            check('rpow(int,S)', two ** A, Am, lambda i: two ** Ad[i], fresh=(A,))
            check('rpow(sym,S)', c ** A, Am, lambda i: c ** Ad[i])
            em.ok('pow mixed folding refused', _raises_valueerror(lambda: A ** other_fold))
            em.ok('rpow mixed folding refused', _raises_valueerror(lambda: other_fold ** A))
            # unary (inherited numpy.ma machinery + __array_wrap__/__array_finalize__)
            check('neg', -A, Am, lambda i: env.const(0) - Ad[i])
            check('pos', +A, Am, lambda i: Ad[i])
            check('abs', abs(A), Am, lambda i: H.ite(env, Ad[i] >= 0, Ad[i], env.const(0) - Ad[i]))
            check('copy', A.copy(), Am, lambda i: Ad[i], fresh=(A,))
            # in place
            for name, op in IOPS:
                bop = dict(BINOPS)[name[1:]]
                for otag, other, omask, of in (('S', B, Bm, lambda i: Bd[i]), ('sym', c, None, lambda i: c),
                                               ('int', two, None, lambda i: two),
                                               ('ndarray', yarr, None, lambda i: y[i]),
                                               ('masked_array', mB, mBm, lambda i: y[i])):
                    C = A.copy()
                    C0 = C
                    C = op(C, other)
                    em.ok('%s(S,%s) same object' % (name, otag), C is C0)
                    check('%s(S,%s)' % (name, otag), C, Am if omask is None else (Am | omask),
                          lambda i: bop(Ad[i], of(i)))
                C = A.copy()
                em.ok(name + ' mixed folding refused', _raises_valueerror(lambda: op(C, other_fold)))
                check(name + ' refused leaves target', C, Am, lambda i: Ad[i])
            C = A.copy()
            C0 = C
            C **= 2
            em.ok('ipow same object', C is C0)
            check('ipow(S,2)', C, Am, lambda i: Ad[i] * Ad[i])
            # operands are never modified by the non-in-place operators
            em.ok('operands untouched', np.array_equal(np.ma.getmaskarray(A), Am)
                  and np.array_equal(np.ma.getmaskarray(B), Bm) and A.folded is folded and B.folded is folded
                  and np.array_equal(np.ma.getmaskarray(mB), mBm))
            for idx in idxs:
                em.eq('operand A data%s' % list(idx), np.ma.getdata(A)[idx], Ad[idx])
                em.eq('operand B data%s' % list(idx), np.ma.getdata(B)[idx], Bd[idx])
            if first or pi == len(pairs) - 1:
                # labels: a missing label list on one side is filled from the other side
                An, Bn = mk(x, b1, None), mk(y, b2, None)
                for name, op in BINOPS:
                    check(name + '(S nolabel,S)', op(An, B), Am | Bm, lambda i: op(Ad[i], Bd[i]))
                    check(name + '(S,S nolabel)', op(A, Bn), Am | Bm, lambda i: op(Ad[i], Bd[i]))
                    r = op(An, Bn)
                    em.ok(name + ' no labels stays unlabelled', r.pop_ids is None and r.folded is folded)
                for name, op in IOPS:
                    C = A.copy()
                    C = op(C, Bn)
                    check(name + '(S,S nolabel)', C, Am | Bm, lambda i: dict(BINOPS)[name[1:]](Ad[i], Bd[i]))
            em.flush('pattern %s' % ps)
        env.note('identical-term obligations skipped: %d' % em.dups)
    return body


# ------------------------------------------------------------------------------------------------
def _slice_exprs(shape):
    nd = len(shape)
    ex = []
    full = (slice(None),) * nd
    for ax in range(nd):
        n = shape[ax]
        for s in (slice(1, None), slice(None, -1), slice(None, None, -1), slice(0, n, 2)):
            e = list(full)
            e[ax] = s
            ex.append(tuple(e))
        for k in (0, n - 1):
            if nd > 1:
                e = list(full)
                e[ax] = k
                ex.append(tuple(e))
    ex.append(tuple(slice(0, max(1, s - 1)) for s in shape))
    ex.append((Ellipsis, slice(1, None)))
    ex.append((slice(1, None), Ellipsis))
    ex.append(full)
    return ex


def _sl_str(e):
    def one(s):
        if s is Ellipsis:
            return '...'
        if isinstance(s, slice):
            return '%s:%s:%s' % ('' if s.start is None else s.start, '' if s.stop is None else s.stop,
                                 '' if s.step is None else s.step)
        return str(s)
    return '[' + ','.join(one(s) for s in e) + ']'


def make_slice_body(shape, pats):
    shape = tuple(shape)
    E = int(np.prod(shape))
    ids = IDS5[:len(shape)]
    exprs = _slice_exprs(shape)

    def body(env):
        import dadi
        em = _Emit(env)
        x = env.array('x', shape)
        for bits in pats:
            ps = _pstr(bits, E)
            M = _mask_from_bits(bits, shape)
            un = dadi.Spectrum(x, mask=M.copy(), mask_corners=False, pop_ids=list(ids))
            for fs in (un, un.fold()):
                fm = np.ma.getmaskarray(fs).copy()
                fd = np.array(np.ma.getdata(fs))
                st = 'folded' if fs.folded else 'unfolded'
                n0 = shape[0]
                sel = np.array([True] + [False] * (n0 - 2) + [True])
                cases = [(st + _sl_str(e), fs[e], fm[e], fd[e]) for e in exprs]
                # index arrays, boolean selectors and plain views go through the same attribute propagation
                cases += [(st + '[[0,last]]', fs[[0, n0 - 1]], fm[[0, n0 - 1]], fd[[0, n0 - 1]]),
                          (st + '[bool]', fs[sel], fm[sel], fd[sel]),
                          (st + '.view()', fs.view(), fm, fd),
                          (st + '.T', fs.T, fm.T, fd.T)]
                for tag, r, wm, wd in cases:
                    em.ok(tag + ' type', _is_spectrum(r))
                    em.ok(tag + ' folded flag', r.folded is fs.folded)
                    em.ok(tag + ' shape', r.shape == wd.shape)
                    em.ok(tag + ' mask', np.array_equal(np.ma.getmaskarray(r), wm))
                    em.ok(tag + ' pop_ids', r.pop_ids is not None and list(r.pop_ids) == list(ids))
                    if r.shape == wd.shape:
                        rd = np.ma.getdata(r)
                        for idx in np.ndindex(*wd.shape):
                            em.eq('%s[%s] data%s' % (tag, ps, list(idx)), rd[idx], wd[idx])
                em.ok('source untouched', np.array_equal(np.ma.getmaskarray(fs), fm))
            em.flush('pattern %s' % ps)
        env.note('identical-term obligations skipped: %d' % em.dups)
    return body


# ------------------------------------------------------------------------------------------------
def make_ll_body(shape, pats, data_folded, model_mask):
    """Likelihood evaluation: unfolded model against folded (or unfolded) data."""
    shape = tuple(shape)
    E = int(np.prod(shape))
    ids = IDS5[:len(shape)]
    idxs = _indices(shape)

    def body(env):
        import dadi
        from dadi import Inference
        em = _Emit(env)
        mv = np.empty(shape, dtype=object if env.symbolic else float)
        dv = np.empty(shape, dtype=object if env.symbolic else float)
        for idx in idxs:
            sfx = '_'.join(map(str, idx))
            mv[idx] = env.real('m_' + sfx, lo=0, lo_open=True)
            dv[idx] = env.real('d_' + sfx, lo=0)
        for bits in pats:
            ps = _pstr(bits, E)
            Md = _mask_from_bits(bits, shape)
            Mm = np.zeros(shape, dtype=bool)
            if model_mask == 'corners':
                Mm.flat[0] = Mm.flat[-1] = True
            elif model_mask == 'data':
                Mm = Md.copy()
            model = dadi.Spectrum(mv, mask=Mm.copy(), mask_corners=False, pop_ids=list(ids))
            dun = dadi.Spectrum(dv, mask=Md.copy(), mask_corners=False, pop_ids=list(ids))
            data = dun.fold() if data_folded else dun
            datam = np.ma.getmaskarray(data).copy()
            datad = np.array(np.ma.getdata(data))
            if data_folded:
                # the data side is checked against the explicit folding too
                dd, dm, _ = _fold_oracle(env, dv, Md, shape)
                for idx in idxs:
                    if not datam[idx]:
                        em.eq('data fold%s' % list(idx), datad[idx], dd[idx])
                od, om, _ = _fold_oracle(env, mv, Mm, shape)
                om = {i: (om[i] or i == idxs[0]) for i in idxs}   # never stricter than the data mask (see below)
            else:
                od = {i: mv[i] for i in idxs}
                om = {i: bool(Mm[i]) for i in idxs}
            # this unit's scope: the (folded) model is masked only where the data is masked
            if any(om[i] and not datam[i] for i in idxs):
                em.ok('scope', True)
                em.flush('pattern %s (outside scope, skipped)' % ps)
                continue
            joint = {i: bool(datam[i]) or om[i] for i in idxs}
            for variant in ('auto', 'prefolded'):
                if variant == 'prefolded' and not data_folded:
                    continue
                mod = model if variant == 'auto' else model.fold()
                del LOGS[:]
                del GAMS[:]
                r = Inference.ll_per_bin(mod, data)
                em.ok(variant + ' per-bin type', _is_spectrum(r))
                em.ok(variant + ' per-bin folded flag', r.folded is bool(data_folded))
                em.ok(variant + ' per-bin pop_ids', r.pop_ids is not None and list(r.pop_ids) == list(ids))
                rm, rd = np.ma.getmaskarray(r), np.ma.getdata(r)
                em.ok(variant + ' model argument left unfolded', model.folded is False
                      and np.array_equal(np.ma.getmaskarray(model), Mm))
                if env.symbolic:
                    if len(LOGS) != 1 or len(GAMS) != 1:
                        em.ok('one log / one gammaln call (got %d/%d)' % (len(LOGS), len(GAMS)), False)
                        em.flush('pattern %s' % ps)
                        continue
                    largs, lvals, lmask = LOGS[0]
                    gargs, gvals = GAMS[0]
                terms = []
                for idx in idxs:
                    em.ok('%s per-bin mask%s' % (variant, list(idx)), bool(rm[idx]) == joint[idx])
                    if joint[idx]:
                        continue
                    if env.symbolic:
                        em.ok('log not domain-masked%s' % list(idx), not lmask[idx])
                        em.eq('%s[%s] log argument = folded model%s' % (variant, ps, list(idx)), largs[idx], od[idx])
                        em.eq('%s[%s] gammaln argument = data+1%s' % (variant, ps, list(idx)), gargs[idx],
                              datad[idx] + 1)
                        L, G = lvals[idx], gvals[idx]
                    else:
                        L, G = math.log(od[idx]), math.lgamma(datad[idx] + 1)
                    want = env.const(0) - od[idx] + datad[idx] * L - G
                    terms.append(want)
                    em.eq('%s[%s] per-bin value%s' % (variant, ps, list(idx)), rd[idx], want)
                del LOGS[:]
                del GAMS[:]
                tot = Inference.ll(mod, data)
                if terms:
                    if env.symbolic:
                        # same calls again: fresh stub values of the second run, entry by entry
                        if len(LOGS) != 1 or len(GAMS) != 1:
                            em.ok('one log / one gammaln call in ll', False)
                        else:
                            t2 = [env.const(0) - od[i] + datad[i] * LOGS[0][1][i] - GAMS[0][1][i]
                                  for i in idxs if not joint[i]]
                            for i in idxs:
                                if not joint[i]:
                                    em.eq('ll log argument%s' % list(i), LOGS[0][0][i], od[i])
                                    em.eq('ll gammaln argument%s' % list(i), GAMS[0][0][i], datad[i] + 1)
                            em.eq('%s[%s] ll total' % (variant, ps), tot, _total(env, t2))
                    else:
                        em.eq('%s[%s] ll total' % (variant, ps), tot, _total(env, terms))
                else:
                    em.ok('all-masked ll is masked', tot is np.ma.masked)
                # optimal scaling over the jointly unmasked entries of the (folded) model
                sc = Inference.optimal_sfs_scaling(mod, data)
                if terms:
                    num = _total(env, [datad[i] for i in idxs if not joint[i]])
                    den = _total(env, [od[i] for i in idxs if not joint[i]])
                    if env.symbolic:
                        em.eq('%s[%s] optimal scaling' % (variant, ps), sc * den, num)
                    else:
                        em.eq('%s[%s] optimal scaling' % (variant, ps), sc, num / den)
            em.flush('pattern %s' % ps)
        env.note('identical-term obligations skipped: %d' % em.dups)
    return body


# ------------------------------------------------------------------------------------------------
def _shapes_upto(maxE):
    out = []
    for n in range(2, maxE + 1):
        out.append((n,))
    for a in range(2, maxE + 1):
        for b in range(2, maxE + 1):
            if a * b <= maxE:
                out.append((a, b))
    for a in range(2, maxE + 1):
        for b in range(2, maxE + 1):
            for c in range(2, maxE + 1):
                if a * b * c <= maxE:
                    out.append((a, b, c))
    return out


def _name(shape):
    return 'x'.join(map(str, shape))


def units(tier, seed):
    thorough = tier == 'thorough'
    us = []
    T = 1500 if thorough else 600

    def add(kind, shape, maker, pats, chunk, extra=None, min_ob=None, args=()):
        E = int(np.prod(shape))
        chs = _chunks(pats, chunk)
        for ci, ch in enumerate(chs):
            name = '%s-%s%s-part%dof%d' % (kind, _name(shape), ('-' + extra) if extra else '', ci + 1, len(chs))
            us.append(H.Unit(name, maker(shape, ch, *args),
                             params=dict(kind=kind, shape=list(shape), chunk=ci, nchunks=len(chs),
                                         first_pattern=str(ch[0]), patterns=len(ch), extra=extra),
                             setup=_setup, min_obligations=(min_ob if min_ob is not None else E) + len(ch),
                             timeout_s=T, expect_paths=1, maxpaths=4, query_timeout_ms=60000))

    # ---- fold / unfold / misid laws
    if thorough:
        shapes = _shapes_upto(12) + [(1, 3), (3, 1), (1, 4)]
        shapes += [(2, 2, 2, 2), (3, 2, 2, 2), (2, 2, 3, 2), (3, 3, 2, 2), (2, 3, 2, 3), (3, 3, 3, 2), (3, 3, 3, 3)]
        shapes += [(2, 2, 2, 2, 2), (3, 2, 2, 2, 2), (2, 2, 3, 2, 2), (2, 2, 2, 2, 3), (3, 3, 2, 2, 2)]
        full_limit, pair_limit, chunk = 12, 48, 256
    else:
        shapes = [(2,), (3,), (4,), (5,), (6,), (7,), (2, 2), (2, 3), (3, 2), (3, 3), (2, 4), (3, 4), (2, 2, 2),
                  (2, 2, 3), (3, 2, 2), (2, 2, 2, 2), (2, 3, 2, 2), (2, 2, 2, 2, 2)]
        full_limit, pair_limit, chunk = 8, 32, 256
    for shape in shapes:
        E = int(np.prod(shape))
        pats = _patterns(E, full_limit, pair_limit)
        add('fold', shape, make_fold_body, pats, chunk)
        add('misid', shape, make_misid_body, pats, chunk)
        N = sum(s - 1 for s in shape)
        nlow = sum(1 for i in np.ndindex(*shape) if 2 * sum(i) <= N)
        upats = _patterns(nlow, full_limit, pair_limit)
        add('unfold', shape, make_unfold_body, upats, chunk * 2, min_ob=nlow)

    # ---- memory layout: transposed (non C-contiguous) views of the data and the mask
    for shape in ([(2, 3), (3, 4), (2, 2, 3)] + ([(4, 3), (3, 2, 2), (2, 3, 2, 2)] if thorough else [])):
        E = int(np.prod(shape))
        pats = _patterns(E, 6, 0)
        add('fold', shape, make_fold_body, pats, chunk, extra='layoutT', args=('T',))

    # ---- large sample sizes (entry-index arithmetic past 127 / 255 chromosomes per axis): two mask patterns only
    for shape in ([(130,), (258,), (3, 130), (131, 2)] + ([(300,), (129, 2, 2), (2, 258)] if thorough else [])):
        E = int(np.prod(shape))
        big = [0, 1 | (1 << (E - 1))]
        add('fold', shape, make_fold_body, big, 2, extra='largeN')
        add('misid', shape, make_misid_body, big, 2, extra='largeN')
        N = sum(s - 1 for s in shape)
        nlow = sum(1 for i in np.ndindex(*shape) if 2 * sum(i) <= N)
        add('unfold', shape, make_unfold_body, [0], 2, extra='largeN', min_ob=nlow)

    # ---- operators
    oshapes = [(3,), (4,), (2, 3), (3, 3), (2, 2, 2), (2, 2, 2, 2), (2, 2, 2, 2, 2)]
    if thorough:
        oshapes += [(5,), (6,), (3, 4), (2, 2, 3), (2, 3, 2, 2), (3, 2, 2, 2, 2)]
    for shape in oshapes:
        E = int(np.prod(shape))
        if E <= (4 if thorough else 3):
            base = list(range(2 ** E))
        else:
            corners = 1 | (1 << (E - 1))
            base = [0, corners] + [1 << i for i in range(E)]
            if E > 12:
                # singles on a spread of entries (first, last, and every k-th)
                step = max(1, E // 8)
                base = [0, corners] + [1 << i for i in sorted(set(list(range(0, E, step)) + [1, E - 2, E - 1]))]
        if E <= 9:
            pairs = [(a, b) for a in base for b in base]
        else:
            # entrywise operators: every base pattern against {none, corners, itself, its successor}, and as second
            # operand against none
            pairs = []
            for k, a in enumerate(base):
                for b in (0, base[1], a, base[(k + 1) % len(base)]):
                    pairs.append((a, b))
                pairs.append((0, a))
            pairs = sorted(set(pairs))
        for folded in (False, True):
            chs = _chunks(pairs, max(4, 200 // E))
            for ci, ch in enumerate(chs):
                name = 'ops-%s-%s-part%dof%d' % (_name(shape), 'folded' if folded else 'unfolded', ci + 1, len(chs))
                us.append(H.Unit(name, make_ops_body(shape, ch, folded),
                                 params=dict(kind='ops', shape=list(shape), folded=folded, chunk=ci,
                                             nchunks=len(chs), pairs=[[str(a), str(b)] for a, b in ch]),
                                 setup=_setup, min_obligations=len(ch) + 4, timeout_s=T, expect_paths=1,
                                 maxpaths=4, query_timeout_ms=60000))

    # ---- slicing
    sshapes = [(4,), (5,), (3, 4), (2, 3, 2), (2, 2, 2, 2), (2, 2, 2, 2, 2)]
    if thorough:
        sshapes += [(6,), (4, 3), (3, 3, 2), (3, 2, 2, 2)]
    for shape in sshapes:
        E = int(np.prod(shape))
        pats = _patterns(E, 5 if not thorough else 6, 0)
        add('slice', shape, make_slice_body, pats, 64, min_ob=4)

    # ---- likelihood evaluation
    lshapes = [(4,), (5,), (2, 3), (3, 3), (2, 2, 2)]
    if thorough:
        lshapes += [(6,), (3, 4), (2, 2, 3), (2, 2, 2, 2)]
    for shape in lshapes:
        E = int(np.prod(shape))
        pats = _patterns(E, 4 if not thorough else 6, 0 if not thorough else 9)
        for data_folded, model_mask in ((True, 'corners'), (True, 'none'), (True, 'data'), (False, 'data')):
            add('ll', shape, make_ll_body, pats, 16, extra='%s-model_%s' % ('folded' if data_folded else 'unfolded',
                                                                         model_mask),
                min_ob=2, args=(data_folded, model_mask))
    return us
