"""C13 - genotype data become the spectrum and the statistics that direct counting gives.

Real code: Spectrum._from_count_dict / Spectrum.from_data_dict / Spectrum.fold / Numerics._cached_projection,
Misc.count_data_dict, Misc.fragment_data_dict, Misc.bootstraps_from_dd_chunks, Misc.make_data_dict_vcf,
Spectrum.S / pi / Watterson_theta / theta_L / Tajima_D / Fst.

Families of units
  cd-*     symbolic multiplicity (z3 real >= 0) per (called, derived, polarised) key of a count dictionary, exact
           hypergeometric weights (esf.gammaln in Numerics): every entry of the spectrum is the multiplicity-weighted
           sum of per-SNP projections (folded per SNP when unpolarised), total = usable multiplicities, additivity.
  stat-*   S, pi, Watterson, theta_L, Tajima's D on a symbolic 1-D spectrum (entries >= 0, enumerated masks) against
           per-SNP definitions evaluated on explicit genotype vectors with Fractions.
  fst-*    Weir & Cockerham (1984) eqs 2-4 + 10 per SNP with Fractions against Spectrum.Fst on a symbolic spectrum.
  boot-*   bootstraps_from_dd_chunks on symbolic chunk spectra, random.choices scripted over ALL choice vectors.
  count-*  count_data_dict / from_data_dict on enumerated data dictionaries (alleles, outgroup states, call counts).
  frag-*   fragment_data_dict on enumerated key sets (chromosome names with '_' and '.', add-info suffixes).
  vcf-*    make_data_dict_vcf driven with generated VCF text (enumerated genotype matrices / line kinds), with and
           without subsampling (numpy.random.choice scripted over ALL subsets).
"""
import collections
import itertools
import logging
import math
import os
import tempfile
import warnings
from fractions import Fraction as Fr

import numpy as np

from engine import esf
from engine import harness as H
from engine import shims
from engine import symreal as S

SLACK = Fr(1, 2 ** 40)

META = dict(
    explanation=(
        'The unmodified dadi code is run on count dictionaries whose per-key multiplicities are z3 reals >= 0 (one '
        'variable per (called, derived, polarised) key; the keys - integer call counts - are enumerated) with exact '
        'hypergeometric weights (scipy gammaln replaced by exact log-rationals): z3 proves that every entry of '
        'Spectrum._from_count_dict equals sum_k m_k * prod_pop C(d,j)C(c-d,p-j)/C(c,p) (math.comb), that unpolarised '
        'runs equal the sum of per-SNP folded projections (minor-allele entry, ambiguous entries split in halves), '
        'that keys with fewer calls than the projection contribute nothing, that the total equals the sum of the '
        'usable multiplicities and that spectra of two count dictionaries add up to the spectrum of their union.  '
        'S, pi, Watterson theta, theta_L, Tajima D (numerator and radicand of the code\'s quotient, SQRT peeled by '
        'congruence) and Fst (numerator and denominator of the code\'s ratio) are proved equal, for every non-negative '
        'spectrum and every enumerated mask, to sums over SNP classes of per-SNP definitions evaluated on explicit '
        'genotype vectors (pair counting, Weir-Cockerham eqs 2-4 with b=0, eq 10).  bootstraps_from_dd_chunks is run '
        'on symbolic chunk spectra with random.choices scripted through every choice vector.  The string/dict layer '
        '(count_data_dict, from_data_dict, fragment_data_dict, make_data_dict_vcf incl. subsampling with '
        'numpy.random.choice scripted through every subset) has no real-valued inputs: it is decided by exhaustive '
        'enumeration of the stated finite input families against independent reference implementations, all '
        'arithmetic exact.'),
    functions=['dadi.Spectrum_mod.Spectrum._from_count_dict', 'dadi.Spectrum_mod.Spectrum.from_data_dict',
               'dadi.Spectrum_mod.Spectrum.fold', 'dadi.Numerics._cached_projection', 'dadi.Numerics._lncomb',
               'dadi.Misc.count_data_dict', 'dadi.Misc.fragment_data_dict', 'dadi.Misc.bootstraps_from_dd_chunks',
               'dadi.Misc.make_data_dict_vcf', 'dadi.Misc._get_popinfo',
               'dadi.Spectrum_mod.Spectrum.S', 'dadi.Spectrum_mod.Spectrum.pi',
               'dadi.Spectrum_mod.Spectrum.Watterson_theta', 'dadi.Spectrum_mod.Spectrum.theta_L',
               'dadi.Spectrum_mod.Spectrum.Tajima_D', 'dadi.Spectrum_mod.Spectrum.Fst'],
    files=['dadi/Misc.py', 'dadi/Spectrum_mod.py', 'dadi/Numerics.py'],
    bounds=dict(
        quick='count dict (symbolic multiplicities): 1 pop proj 2..5 (called proj-1..proj+2, every derived count, both '
              'polarisation flags), 2 pops proj (2,2),(2,3),(3,2) (called proj-1..proj+1 per pop), 3 pops (2,2,2) '
              '(called 2..3), polarised/unpolarised x mask_corners on/off; statistics n=2..9 chromosomes with up to 4 '
              'mask patterns (Tajima D n>=4); Fst sample sizes (2,2),(2,3),(3,3),(3,2) with 3 mask patterns; bootstraps '
              '2 and 3 chunks, all 4 / 27 choice vectors, shapes (4,),(3,3); data dictionaries: every single SNP over 5 '
              'allele tuples (incl. multi-character, tri-allelic, mono-allelic) x 5-6 outgroup states (absent, "-", '
              'allele 1, allele 2, other base, N) x calls 0..2 per allele for 1 and 2 queried populations (of 3 '
              'present, order swapped), the per-state groups and the dictionary of all SNPs with duplicates, '
              'projections (2),(3),(2,2),(3,2); fragment_data_dict: 6 chromosome-name pairs/styles x every subset of '
              'positions 1..6 x chunk sizes 1,2,3,5,100; VCF: 4 sample columns (2+1 diploids in 2 populations + 1 '
              'unlisted sample + 1 popinfo sample absent from the VCF), every genotype combination over '
              '{0/0,0/1,1/1,./.,1|0} x 20 line kinds (2500 lines per file), FORMAT GT / GT:GQ / GQ:GT:PL, filter '
              'on/off, subsampling {A:1,B:1} and {A:2} with every subset choice',
        thorough='count dict: 1 pop proj 2..8, 2 pops up to (4,4) called proj-1..proj+2 (proj+1 when sum>6), 3 pops '
                 '(2,2,2),(2,3,2),(3,3,3); statistics n=2..16, up to 6 mask patterns; Fst additionally (4,4),(2,5),'
                 '(5,5),(2,2,2),(2,3,2) and a 4th mask pattern; bootstraps up to 4 chunks (256 choice vectors) and '
                 'shape (2,3,2); data dictionaries calls 0..4 (1 pop), 0..3 (2 pops), 3 populations; fragment: '
                 'positions 1..8, chunk sizes 1,2,3,4,5,7,100; VCF: 6 sample columns (3+2 diploids; 4^5 genotype '
                 'combinations x 20 line kinds), haploid and triploid genotypes, subsampling {A:2,B:1} with all 10 '
                 'selector values'),
    outside=['float round-off (doubles modelled as reals; where dadi itself forms float constants such as 1./arange '
             'or arange/n the claim is |code-ref| <= 2^-40 * total mass)',
             'gzip/zip containers and flanking_info / calc_coverage / extract_ploidy options of make_data_dict_vcf',
             'Misc.make_data_dict (SNP text format), dd_from_SLiM_files; bootstraps_subsample_vcf only as a composition '
             '(diploid VCF units with a subsample: one replicate with the chunk resampling scripted to "every chunk once" '
             'equals the spectrum of the subsampled data, populations requested in reverse order)',
             'the random number streams themselves (numpy.random.choice / random.choices are scripted: the claim is '
             'for every possible outcome of the draw)',
             'sample sizes > 16 chromosomes (statistics), > 8 (projection), > 5 diploids per population (VCF)',
             'Tajima D / Fst where the radicand / denominator is not positive (Tajima D with n <= 3 chromosomes is 0/0 '
             'for every data set: variance coefficients e1 = e2 = 0)',
             'additional-info suffixes that themselves contain "_" (ambiguous in the documented key format), positions '
             'written with leading zeros',
             'DP / AD based missingness in make_data_dict_vcf (only GT-based missingness "." is in the claim)',
             'the mask of the absent-in-all corner of a folded result when mask_corners=False was requested (fold() '
             're-wraps with the default mask_corners=True); its data is still checked'],
    stubs=['scipy.special.gammaln inside Numerics -> exact log-rational (engine/esf.py)',
           'numpy array constructors inside Numerics / Spectrum_mod -> object arrays',
           'SQRT uninterpreted: Tajima D is compared as quotient num/SQRT(v) by congruence (num and v proved)',
           'Misc.random.choices / Misc.numpy.random.choice -> scripted chooser enumerating every outcome',
           'Misc.Spectrum.from_data_dict -> returns the symbolic chunk spectrum (boot-* units only)'],
    assumptions=['doubles modelled as reals', 'multiplicities / spectrum entries >= 0',
                 'chunks are the 1-based windows [k*c+1, (k+1)*c] of each chromosome (position 0 joins the first window)',
                 'a genotype with any missing allele makes the individual unavailable for subsampling; without '
                 'subsampling every called allele is counted',
                 'at least one segregating site for Tajima D', 'recorded denominators != 0'],
)


# ----------------------------------------------------------------------------------------------------------------
def _setup():
    import dadi
    from dadi import Numerics, Spectrum_mod
    for nm in ('Numerics', 'Spectrum_mod', 'Misc', 'Inference'):
        logging.getLogger(nm).setLevel(logging.ERROR)
    warnings.simplefilter('ignore')
    shims.install_numpy(Numerics)
    shims.install_numpy(Spectrum_mod)
    shims.patch_spectrum_dtype(dadi.Spectrum)
    shims.set_attr(Numerics, 'gammaln', esf.gammaln)
    Numerics._projection_cache.clear()


def concrete_setup():
    warnings.simplefilter('ignore')
    for nm in ('Numerics', 'Spectrum_mod', 'Misc', 'Inference'):
        logging.getLogger(nm).setLevel(logging.ERROR)


# ----------------------------------------------------------------------------------------------------------------
# independent oracles (Fractions, math.comb)
def hyp(j, p, c, d):
    """P(j derived among p drawn without replacement from c calls of which d derived); 0 if c < p."""
    if c < p or j < 0 or j > p or d < 0 or d > c:
        return Fr(0)
    return Fr(math.comb(d, j) * math.comb(c - d, p - j), math.comb(c, p))


def proj_weights(proj, called, derived):
    """dict idx -> weight of the per-SNP projection (product over populations)."""
    out = {}
    for idx in itertools.product(*[range(p + 1) for p in proj]):
        w = Fr(1)
        for j, p, c, d in zip(idx, proj, called, derived):
            w *= hyp(j, p, c, d)
        out[idx] = w
    return out


def fold_weights(proj, w):
    """Per-SNP folding: the SNP is entered under its minor-allele configuration; when the minor allele is
    ambiguous (total = half) it is split in halves between the two configurations."""
    ntot = sum(proj)
    out = {}
    for idx in w:
        rev = tuple(p - j for p, j in zip(proj, idx))
        t = sum(idx)
        if 2 * t < ntot:
            out[idx] = w[idx] + w[rev]
        elif 2 * t == ntot:
            out[idx] = (w[idx] + w[rev]) / 2
        else:
            out[idx] = Fr(0)
    return out


def folded_out(proj, idx):
    return 2 * sum(idx) > sum(proj)


def lin(env, pairs):
    """sum of coefficient(Fraction) * value over pairs; polymorphic."""
    tot = env.const(Fr(0))
    for c, v in pairs:
        if c != 0:
            tot = tot + env.const(c) * v
    return tot


# ----------------------------------------------------------------------------------------------------------------
# family cd: symbolic multiplicities
def cd_keys(proj, lo_off, hi_off):
    keys = []
    called_ranges = [range(max(1, p + lo_off), p + hi_off + 1) for p in proj]
    for called in itertools.product(*called_ranges):
        for derived in itertools.product(*[range(c + 1) for c in called]):
            for pol in (True, False):
                keys.append((tuple(called), tuple(derived), pol))
    return keys


def make_cd_body(proj, lo_off, hi_off, polarized, mask_corners, additivity):
    proj = tuple(proj)

    def body(env):
        import dadi
        from dadi import Numerics
        if env.symbolic:
            Numerics._projection_cache.clear()
        pop_ids = ['P%d' % i for i in range(len(proj))]
        keys = cd_keys(proj, lo_off, hi_off)
        mult = {}
        cd = collections.defaultdict(int)
        for k in keys:
            nm = 'm_%s_%s_%d' % ('.'.join(map(str, k[0])), '.'.join(map(str, k[1])), int(k[2]))
            mult[k] = env.real(nm, lo=0)
            cd[k] = mult[k]
        with np.errstate(all='ignore'):
            fs = dadi.Spectrum._from_count_dict(cd, list(proj), polarized, pop_ids, mask_corners=mask_corners)
        # expected coefficients per entry
        coef = {idx: [] for idx in itertools.product(*[range(p + 1) for p in proj])}
        usable = []
        for k in keys:
            called, derived, pol = k
            if polarized and not pol:
                continue
            w = proj_weights(proj, called, derived)
            if not polarized:
                w = fold_weights(proj, w)
            for idx in coef:
                coef[idx].append((w[idx], mult[k]))
            if all(c >= p for c, p in zip(called, proj)):
                usable.append(mult[k])
        env.holds('shape', tuple(fs.shape) == tuple(p + 1 for p in proj))
        env.holds('type', isinstance(fs, dadi.Spectrum))
        env.holds('folded-flag', bool(fs.folded) == (not polarized))
        env.holds('pop_ids', list(fs.pop_ids) == pop_ids)
        data = np.asarray(np.ma.getdata(fs))
        mask = np.ma.getmaskarray(fs)
        zero = tuple(0 for _ in proj)
        full = tuple(proj)
        for idx in coef:
            corner = idx in (zero, full)
            if not polarized and folded_out(proj, idx):
                env.holds('mask-folded-out%s' % (list(idx),), bool(mask[idx]))
                continue
            if corner and mask_corners:
                env.holds('mask-corner%s' % (list(idx),), bool(mask[idx]))
                continue
            if not (corner and not polarized):
                # (folding re-wraps the result with the default mask_corners=True: the absent-in-all corner of a
                # folded result is masked whatever was requested; its data is still checked below)
                env.holds('unmasked%s' % (list(idx),), not bool(mask[idx]))
            env.eq('entry%s' % (list(idx),), data[idx], lin(env, coef[idx]))
        if not mask_corners:
            tot = data.sum()
            ref = env.const(Fr(0))
            for m in usable:
                ref = ref + m
            env.eq('total=usable-multiplicities', tot, ref)
        if additivity:
            # split every multiplicity m = m' + m'' into two dictionaries with overlapping key sets
            cd1 = collections.defaultdict(int)
            cd2 = collections.defaultdict(int)
            for i, k in enumerate(keys):
                if i % 3 == 0:
                    cd1[k] = mult[k]
                elif i % 3 == 1:
                    cd2[k] = mult[k]
                else:
                    part = env.real('s' + str(i), lo=0)
                    cd1[k] = part
                    cd2[k] = mult[k] - part
            with np.errstate(all='ignore'):
                f1 = dadi.Spectrum._from_count_dict(cd1, list(proj), polarized, pop_ids, mask_corners=mask_corners)
                f2 = dadi.Spectrum._from_count_dict(cd2, list(proj), polarized, pop_ids, mask_corners=mask_corners)
                fsum = f1 + f2
            env.holds('add-mask', bool(np.all(np.ma.getmaskarray(fsum) == mask)))
            dsum = np.asarray(np.ma.getdata(fsum))
            for idx in coef:
                if not mask[idx]:
                    env.eq('add%s' % (list(idx),), dsum[idx], data[idx])
    return body


# ----------------------------------------------------------------------------------------------------------------
# family stat: 1-D statistics against per-SNP definitions on explicit genotype vectors
def snp_S(g):
    return Fr(1) if len(set(g)) == 2 else Fr(0)


def snp_pi(g):
    n = len(g)
    diff = sum(1 for a, b in itertools.combinations(g, 2) if a != b)
    return Fr(diff, math.comb(n, 2))


def snp_thetaL(g):
    n = len(g)
    i = sum(g)
    return Fr(i, n - 1) if 0 < i < n else Fr(0)


def mask_patterns_1d(n, tier):
    pats = [('corners', None, True), ('none', None, False)]
    if n >= 3:
        m = [False] * (n + 1)
        m[1] = True
        pats.append(('corners+1', m, True))
    if n >= 4:
        m = [False] * (n + 1)
        m[n // 2] = True
        m[n - 1] = True
        pats.append(('mid+last', m, False))
    if tier == 'thorough' and n >= 5:
        m = [False] * (n + 1)
        m[2] = True
        pats.append(('two', m, True))
        m = [False] * (n + 1)
        m[0] = True
        m[n - 2] = True
        pats.append(('zero+n-2', m, False))
    return pats


def make_stat_body(n, maskl, mc):
    def body(env):
        import dadi
        f = env.array('f', (n + 1,), lo=0)
        if maskl is None:
            fs = dadi.Spectrum(f, mask_corners=mc)
        else:
            fs = dadi.Spectrum(f, mask=np.array(maskl, dtype=bool), mask_corners=mc)
        mask0 = np.ma.getmaskarray(fs).copy()
        unm = [i for i in range(n + 1) if not mask0[i]]
        geno = {i: [1] * i + [0] * (n - i) for i in range(n + 1)}
        tot = env.const(Fr(0))
        for i in range(n + 1):
            tot = tot + f[i]
        a1 = sum(Fr(1, k) for k in range(1, n))
        a2 = sum(Fr(1, k * k) for k in range(1, n))
        S_ref = lin(env, [(snp_S(geno[i]), f[i]) for i in unm])
        pi_ref = lin(env, [(snp_pi(geno[i]), f[i]) for i in unm])
        W_ref = lin(env, [(snp_S(geno[i]) / a1, f[i]) for i in unm])
        L_ref = lin(env, [(snp_thetaL(geno[i]), f[i]) for i in unm])
        with np.errstate(all='ignore'):
            Sv = fs.S()
            env.holds('S-mask-restored', bool(np.all(np.ma.getmaskarray(fs) == mask0)))
            env.eq('S', Sv, S_ref)
            env.eq('pi', fs.pi(), pi_ref, slack=SLACK, scale=tot)
            env.eq('Watterson', fs.Watterson_theta(), W_ref, slack=SLACK, scale=tot)
            env.eq('theta_L', fs.theta_L(), L_ref)
            env.holds('mask-unchanged', bool(np.all(np.ma.getmaskarray(fs) == mask0)))
            env.same('data-unchanged', np.asarray(np.ma.getdata(fs)), f)
            # Tajima's D (Tajima 1989): D = (pi - S/a1) / sqrt(e1 S + e2 S (S-1)); for n <= 3 both e1 and e2 are
            # exactly zero (D is 0/0 for every data set): outside the claim
            if n <= 3:
                return
            nn = Fr(n)
            b1 = (nn + 1) / (3 * (nn - 1))
            b2 = 2 * (nn * nn + nn + 3) / (9 * nn * (nn - 1))
            c1 = b1 - 1 / a1
            c2 = b2 - (nn + 2) / (a1 * nn) + a2 / a1 ** 2
            e1 = c1 / a1
            e2 = c2 / (a1 ** 2 + a2)
            env.assume(S_ref >= 1)
            num_ref = pi_ref - W_ref
            v_ref = env.const(e1) * S_ref + env.const(e2) * S_ref * (S_ref - 1)
            D = fs.Tajima_D()
            if env.symbolic:
                import z3
                t = D.t if isinstance(D, S.Sym) else None
                if t is None or not (z3.is_app(t) and t.decl().kind() == z3.Z3_OP_DIV
                                     and z3.is_app(t.arg(1)) and t.arg(1).decl().name() == 'SQRT'):
                    env.fail('Tajima_D: result is not a quotient num/SQRT(v)')
                else:
                    num = S.Sym(t.arg(0))
                    v = S.Sym(t.arg(1).arg(0))
                    env.eq('D-numerator', num, num_ref, slack=SLACK, scale=tot)
                    # v is a polynomial in the linear form S only: abstract S by one variable s >= 1 (the claim
                    # for every s implies the claim for s = S(f)); S itself was proved equal to S_ref above.
                    s_abs = env.real('s_abs', lo=1)
                    Sterm = Sv.t
                    v_abs = S.Sym(z3.substitute(v.t, (Sterm, s_abs.t)))
                    left = set(S.free_vars([v_abs.t]).keys()) - {'s_abs'}
                    if left:
                        env.fail('Tajima_D: radicand depends on the spectrum other than through S')
                    else:
                        vr_abs = env.const(e1) * s_abs + env.const(e2) * s_abs * (s_abs - 1)
                        env.eq('D-radicand', v_abs, vr_abs, slack=SLACK, scale=s_abs * s_abs + s_abs)
            elif v_ref > 0:
                env.eq('Tajima_D', D, num_ref / math.sqrt(v_ref))
    return body


# ----------------------------------------------------------------------------------------------------------------
# family fst: Weir & Cockerham 1984
def wc_components(ks, ns):
    """Weir & Cockerham (1984) variance components of one SNP with allele counts ks in samples of sizes ns:
    returns (a, a+b+c) from eqs (2)-(4), the unobserved heterozygosity hbar fixed by b = 0 (random mating)."""
    r = len(ns)
    ns = [Fr(x) for x in ns]
    ps = [Fr(k) / n for k, n in zip(ks, ns)]
    nbar = sum(ns) / r
    nc = (r * nbar - sum(n * n for n in ns) / (r * nbar)) / (r - 1)
    pbar = sum(n * p for n, p in zip(ns, ps)) / (r * nbar)
    s2 = sum(n * (p - pbar) ** 2 for n, p in zip(ns, ps)) / ((r - 1) * nbar)
    core = pbar * (1 - pbar) - Fr(r - 1, r) * s2
    hbar = 4 * nbar / (2 * nbar - 1) * core           # from b = 0 in eq (3)
    a = nbar / nc * (s2 - 1 / (nbar - 1) * (core - hbar / 4))
    b = nbar / (nbar - 1) * (core - (2 * nbar - 1) / (4 * nbar) * hbar)
    c = hbar / 2
    assert b == 0
    return a, a + b + c


def fst_masks(ns, tier):
    shape = tuple(n + 1 for n in ns)
    pats = [('corners', None, True), ('none', None, False)]
    m = np.zeros(shape, dtype=bool)
    idx = tuple(1 if n >= 1 else 0 for n in ns)
    m[idx] = True
    pats.append(('corners+inner', m.tolist(), True))
    if tier == 'thorough':
        m = np.zeros(shape, dtype=bool)
        m[tuple([0] * (len(ns) - 1) + [ns[-1]])] = True
        m[tuple([ns[0]] + [0] * (len(ns) - 1))] = True
        pats.append(('private-fixed', m.tolist(), False))
    return pats


def make_fst_body(ns, maskl, mc):
    ns = tuple(ns)

    def body(env):
        import dadi
        shape = tuple(n + 1 for n in ns)
        f = env.array('f', shape, lo=0)
        if maskl is None:
            fs = dadi.Spectrum(f, mask_corners=mc)
        else:
            fs = dadi.Spectrum(f, mask=np.array(maskl, dtype=bool), mask_corners=mc)
        mask0 = np.ma.getmaskarray(fs).copy()
        tot = env.const(Fr(0))
        apairs, dpairs = [], []
        for idx in np.ndindex(*shape):
            tot = tot + f[idx]
            if mask0[idx]:
                continue
            a, abc = wc_components(idx, ns)
            apairs.append((a, f[idx]))
            dpairs.append((abc, f[idx]))
        A_ref = lin(env, apairs)
        D_ref = lin(env, dpairs)
        with np.errstate(all='ignore'):
            r = fs.Fst()
        env.holds('mask-unchanged', bool(np.all(np.ma.getmaskarray(fs) == mask0)))
        if env.symbolic:
            import z3
            t = r.t if isinstance(r, S.Sym) else None
            if t is None or not (z3.is_app(t) and t.decl().kind() == z3.Z3_OP_DIV):
                env.fail('Fst: result is not a quotient')
            else:
                env.eq('Fst-numerator', S.Sym(t.arg(0)), A_ref, slack=SLACK, scale=tot)
                env.eq('Fst-denominator', S.Sym(t.arg(1)), D_ref, slack=SLACK, scale=tot)
        else:
            env.assume(abs(D_ref) > 1e-9)
            env.eq('Fst', r, A_ref / D_ref)
    return body


# ----------------------------------------------------------------------------------------------------------------
# family boot: bootstraps are sums of chunk spectra (symbolic chunk spectra, scripted random.choices)
class _ScriptedRandom:
    def __init__(self, script):
        self.script = list(script)
        self.calls = 0

    def choices(self, population, weights=None, cum_weights=None, k=1):
        sel = self.script[self.calls]
        self.calls += 1
        assert len(sel) == k == len(population)
        return [population[i] for i in sel]


def make_boot_body(shape, K, polarized, mask_corners):
    shape = tuple(shape)

    def body(env):
        import dadi
        from dadi import Misc
        pop_ids = ['P%d' % i for i in range(len(shape))]
        proj = [s - 1 for s in shape]
        chunks = []
        for k in range(K):
            arr = env.array('c%d' % k, shape, lo=0)
            sp = dadi.Spectrum(arr, mask_corners=mask_corners, pop_ids=pop_ids)
            if not polarized:
                sp = sp.fold()
            chunks.append(sp)
        frags = [{'chunk': k} for k in range(K)]
        script = list(itertools.product(range(K), repeat=K))

        class SpecStub(dadi.Spectrum):
            @staticmethod
            def from_data_dict(dd, pids, projections, mc=True, pol=True):
                assert list(pids) == pop_ids and list(projections) == proj and mc == mask_corners and pol == polarized
                return chunks[dd['chunk']]
        old = (Misc.Spectrum, Misc.random)
        rnd = _ScriptedRandom(script)
        Misc.Spectrum = SpecStub
        Misc.random = rnd
        try:
            with np.errstate(all='ignore'):
                boots = Misc.bootstraps_from_dd_chunks(frags, len(script), pop_ids, proj, mask_corners, polarized)
        finally:
            Misc.Spectrum, Misc.random = old
        env.holds('count', len(boots) == len(script) and rnd.calls == len(script))
        cm = np.ma.getmaskarray(chunks[0])
        for b, sel in enumerate(script):
            fs = boots[b]
            env.holds('b%d-type' % b, isinstance(fs, dadi.Spectrum) and bool(fs.folded) == (not polarized)
                      and list(fs.pop_ids) == pop_ids)
            m = np.ma.getmaskarray(fs)
            env.holds('b%d-mask' % b, bool(np.all(m == cm)))
            d = np.asarray(np.ma.getdata(fs))
            for idx in np.ndindex(*shape):
                if cm[idx]:
                    continue
                ref = env.const(Fr(0))
                for k in sel:
                    ref = ref + np.ma.getdata(chunks[k])[idx]
                env.eq('b%d%s' % (b, list(idx)), d[idx], ref)
    return body


# ----------------------------------------------------------------------------------------------------------------
# family count: count_data_dict / from_data_dict on enumerated data dictionaries
def ref_count_dict(dd, pop_ids):
    """Reference: biallelic SNPs only; polarised iff the outgroup allele is one of the two alleles (then that
    allele is ancestral), otherwise the first allele stands in as 'ancestral' and the SNP is marked unpolarised."""
    out = {}
    for snp in dd.values():
        seg = tuple(snp['segregating'])
        if len(seg) != 2:
            continue
        og = snp.get('outgroup_allele')
        pol = og is not None and og != '-' and og in seg
        anc = og if pol else seg[0]
        der = 1 if seg[0] == anc else 0
        key = (tuple(sum(snp['calls'][p]) for p in pop_ids), tuple(snp['calls'][p][der] for p in pop_ids), pol)
        out[key] = out.get(key, 0) + 1
    return out


def ref_spectrum_from_dd(dd, pop_ids, proj, polarized):
    """Direct count: sum over usable SNPs of the per-SNP hypergeometric projection (dict idx -> Fraction)."""
    proj = tuple(proj)
    tot = {idx: Fr(0) for idx in itertools.product(*[range(p + 1) for p in proj])}
    nus = 0
    for snp in dd.values():
        seg = tuple(snp['segregating'])
        if len(seg) != 2:
            continue
        og = snp.get('outgroup_allele')
        pol = og is not None and og != '-' and og in seg
        if polarized and not pol:
            continue
        anc = og if pol else seg[0]
        der = 1 if seg[0] == anc else 0
        called = tuple(sum(snp['calls'][p]) for p in pop_ids)
        derived = tuple(snp['calls'][p][der] for p in pop_ids)
        w = proj_weights(proj, called, derived)
        if not polarized:
            w = fold_weights(proj, w)
        for idx in tot:
            tot[idx] += w[idx]
        if all(c >= p for c, p in zip(called, proj)):
            nus += 1
    return tot, nus


def check_spectrum(env, label, fs, ref, proj, polarized, mask_corners, nus=None):
    """Entries of a dadi spectrum against a reference dict idx -> Fraction (unmasked / non-folded-out entries)."""
    proj = tuple(proj)
    data = np.asarray(np.ma.getdata(fs))
    mask = np.ma.getmaskarray(fs)
    ok_shape = tuple(fs.shape) == tuple(p + 1 for p in proj)
    env.holds(label + ':shape', ok_shape)
    if not ok_shape:
        return
    zero, full = tuple(0 for _ in proj), tuple(proj)
    for idx in ref:
        if not polarized and folded_out(proj, idx):
            env.holds('%s:folded-out-masked%s' % (label, list(idx)), bool(mask[idx]))
            continue
        if idx in (zero, full) and mask_corners:
            env.holds('%s:corner-masked%s' % (label, list(idx)), bool(mask[idx]))
            continue
        if not (idx == zero and not polarized):
            env.holds('%s:unmasked%s' % (label, list(idx)), not bool(mask[idx]))
        env.eq('%s:entry%s' % (label, list(idx)), data[idx], env.const(ref[idx]))
    if nus is not None and not mask_corners:
        env.eq(label + ':total=usable-SNPs', data.sum(), env.const(Fr(nus)))


ALLELES = [('A', 'T'), ('T', 'A'), ('AT', 'G'), ('A', 'T', 'G'), ('A',)]


def outgroup_states(seg):
    st = [None, '-', seg[0], 'C', 'N']
    if len(seg) > 1:
        st.insert(3, seg[1])
    return st


def make_count_body(pop_ids, cmax, projs):
    pop_ids = list(pop_ids)

    def body(env):
        import dadi
        from dadi import Misc, Numerics
        if env.symbolic:
            Numerics._projection_cache.clear()
        allpops = ['A', 'B', 'C']
        callopts = [(a, b) for a in range(cmax + 1) for b in range(cmax + 1)]
        big = {}
        nsnp = 0
        for seg in ALLELES:
            for og in outgroup_states(seg):
                grp = {}
                ok = True
                for calls in itertools.product(callopts, repeat=len(pop_ids)):
                    snp = {'segregating': seg, 'calls': {p: (1, 2) for p in allpops}, 'context': '---'}
                    for p, c in zip(pop_ids, calls):
                        snp['calls'][p] = c
                    if og is not None:
                        snp['outgroup_allele'] = og
                    nsnp += 1
                    key = 'chr1_%d' % nsnp
                    # single-SNP dictionary
                    got = dict(Misc.count_data_dict({key: snp}, pop_ids))
                    if got != ref_count_dict({key: snp}, pop_ids):
                        ok = False
                    grp[key] = snp
                    big[key] = snp
                    big[key + '.dup'] = snp
                env.holds('singles seg=%s og=%s' % ('/'.join(seg), og), ok)
                got = dict(Misc.count_data_dict(grp, pop_ids))
                env.holds('group seg=%s og=%s' % ('/'.join(seg), og), got == ref_count_dict(grp, pop_ids))
                if len(seg) == 2 or og is None:
                    for proj in projs:
                        for polarized in (True, False):
                            mc = bool((len(seg) + sum(proj) + int(polarized)) % 2)
                            fs = dadi.Spectrum.from_data_dict(grp, pop_ids, list(proj), mask_corners=mc,
                                                              polarized=polarized)
                            ref, nus = ref_spectrum_from_dd(grp, pop_ids, proj, polarized)
                            check_spectrum(env, 'fs seg=%s og=%s proj=%s pol=%d' % ('/'.join(seg), og, list(proj),
                                                                                   polarized),
                                           fs, ref, proj, polarized, mc, nus)
                            env.holds('fs-labels seg=%s og=%s' % ('/'.join(seg), og),
                                      list(fs.pop_ids) == pop_ids and bool(fs.folded) == (not polarized))
        got = dict(Misc.count_data_dict(big, pop_ids))
        env.holds('all-SNPs-dictionary', got == ref_count_dict(big, pop_ids))
        env.holds('all-SNPs-dictionary-int-counts', all(isinstance(v, int) for v in got.values()))
        for proj in projs:
            for polarized in (True, False):
                fs = dadi.Spectrum.from_data_dict(big, pop_ids, list(proj), mask_corners=False, polarized=polarized)
                ref, nus = ref_spectrum_from_dd(big, pop_ids, proj, polarized)
                check_spectrum(env, 'fs-all proj=%s pol=%d' % (list(proj), polarized), fs, ref, proj, polarized,
                               False, nus)
    return body


# ----------------------------------------------------------------------------------------------------------------
# family frag: fragment_data_dict partitions the SNPs by chromosome and 1-based window
def parse_key(k):
    """chromosome_position[.additional_info] (chromosome may contain '_' and '.')."""
    head, last = k.rsplit('_', 1)
    pos = last.split('.', 1)[0]
    return head, int(pos)


def check_fragments(dd, frags, chunk):
    """None if frags is the partition of dd by (chromosome, 1-based window of `chunk` bp), else a message."""
    seen = {}
    for i, fr in enumerate(frags):
        for k, v in fr.items():
            if k not in dd:
                return 'unknown key %r' % k
            if k in seen:
                return 'key %r in two fragments' % k
            if v is not dd[k]:
                return 'value of %r replaced' % k
            seen[k] = i
    if set(seen) != set(dd):
        return 'keys lost: %r' % sorted(set(dd) - set(seen))
    frag_win, win_frag = {}, {}
    for k in dd:
        chrom, pos = parse_key(k)
        w = (chrom, (pos - 1) // chunk if pos > 0 else 0)
        i = seen[k]
        if frag_win.setdefault(i, w) != w:
            return 'fragment %d spans windows %r and %r (key %r)' % (i, frag_win[i], w, k)
        if win_frag.setdefault(w, i) != i:
            return 'window %r is split over fragments %d and %d (key %r)' % (w, win_frag[w], i, k)
    return None


def _snp(i):
    segs = [('A', 'G'), ('C', 'T'), ('G', 'A')]
    ogs = ['A', 'T', '-', 'G', 'C']
    return {'segregating': segs[i % 3], 'outgroup_allele': ogs[i % 5],
            'calls': {'A': ((i * 7) % 4, (i * 3 + 1) % 4), 'B': ((i + 1) % 3, (i * 5) % 3)}}


def make_frag_body(chrA, chrB, style, npos, chunks):
    def body(env):
        import dadi
        from dadi import Misc, Numerics
        if env.symbolic:
            Numerics._projection_cache.clear()
        universe = list(range(1, npos + 1))
        fixedB = [1, 3, 4, 9, 10, 11, 23]
        for chunk in chunks:
            bad = None
            nsub = 0
            for r in range(len(universe) + 1):
                for sub in itertools.combinations(universe, r):
                    dd = {}
                    i = 0
                    for p in sub:
                        i += 1
                        if style == 'plain':
                            dd['%s_%d' % (chrA, p)] = _snp(i)
                        elif style == 'info':       # every key carries additional info; recurrent mutations
                            dd['%s_%d.m%d' % (chrA, p, i)] = _snp(i)
                            if p % 2 == 0:
                                dd['%s_%d.r%d' % (chrA, p, i)] = _snp(i + 1)
                        else:                       # mixed: info on some positions, never two keys per position
                            if p % 3 == 0:
                                dd['%s_%d.x.y' % (chrA, p)] = _snp(i)
                            else:
                                dd['%s_%d' % (chrA, p)] = _snp(i)
                    for p in fixedB:
                        i += 1
                        dd['%s_%d' % (chrB, p)] = _snp(i)
                    frags = Misc.fragment_data_dict(dd, chunk)
                    nsub += 1
                    msg = check_fragments(dd, frags, chunk)
                    if msg and bad is None:
                        bad = '%s: %s' % (sorted(dd), msg)
            env.note('chunk %d: %d dictionaries' % (chunk, nsub))
            env.holds('partition chunk=%d%s' % (chunk, (' ' + bad) if bad else ''), bad is None)
            # chunk spectra add up to the whole (last dictionary: all positions)
            for polarized in (True, False):
                whole = dadi.Spectrum.from_data_dict(dd, ['A', 'B'], [2, 2], mask_corners=False, polarized=polarized)
                parts = [dadi.Spectrum.from_data_dict(fr, ['A', 'B'], [2, 2], mask_corners=False, polarized=polarized)
                         for fr in frags]
                acc = parts[0]
                for q in parts[1:]:
                    acc = acc + q
                wm = np.ma.getmaskarray(whole)
                env.holds('sum-mask chunk=%d pol=%d' % (chunk, polarized), bool(np.all(np.ma.getmaskarray(acc) == wm)))
                for idx in np.ndindex(*whole.shape):
                    if not wm[idx]:
                        env.eq('chunk-sum chunk=%d pol=%d %s' % (chunk, polarized, list(idx)),
                               np.ma.getdata(acc)[idx], np.ma.getdata(whole)[idx])
                ref, nus = ref_spectrum_from_dd(dd, ['A', 'B'], (2, 2), polarized)
                check_spectrum(env, 'whole chunk=%d pol=%d' % (chunk, polarized), whole, ref, (2, 2), polarized,
                               False, nus)
    return body


def frag_recurrent_body(env):
    """Documented key format: the additional info is optional and distinguishes recurrent mutations at the same
    site; a site whose first mutation has no suffix and whose second has one must be chunked like any other."""
    from dadi import Misc
    for keys in (['chr1_5', 'chr1_5.2', 'chr1_17'], ['sc.2_3.b', 'sc.2_3', 'sc.2_4']):
        dd = {k: _snp(i) for i, k in enumerate(keys)}
        for chunk in (1, 4, 10):
            try:
                frags = Misc.fragment_data_dict(dd, chunk)
            except Exception as e:
                env.fail('fragment_data_dict(%r, %d) raised %s: %s' % (keys, chunk, type(e).__name__, e))
                continue
            msg = check_fragments(dd, frags, chunk)
            env.holds('partition %r chunk=%d %s' % (keys, chunk, msg or ''), msg is None)


# ----------------------------------------------------------------------------------------------------------------
# family vcf: make_data_dict_vcf on generated VCF text
LINE_KINDS = [
    # (tag, FILTER, REF, ALT, INFO)
    ('aa-ref', 'PASS', 'A', 'G', 'AA=A'),
    ('aa-alt', '.', 'A', 'G', 'AA=G'),
    ('lower', 'PASS', 'a', 'g', 'DP=10;AA=g'),
    ('aa-mismatch', 'PASS', 'C', 'T', 'AA=G'),
    ('aa-absent', 'PASS', 'A', 'G', '.'),
    ('aa-pipes', 'PASS', 'A', 'G', 'NS=3;AA=g|||;AF=0.5'),
    ('aa-N', 'PASS', 'A', 'G', 'AA=N'),
    ('aa-dot', 'PASS', 'A', 'G', 'AA=.'),
    ('aa-multichar', 'PASS', 'A', 'G', 'AA=AG'),
    ('aa-ensembl', 'PASS', 'T', 'C', 'AA_ensembl=C'),
    ('aa-chimp', 'PASS', 'T', 'C', 'AA_chimp=t'),
    ('aa-otherfield', 'PASS', 'A', 'G', 'XAA=G;AAX=G'),
    ('filtered', 'q10', 'A', 'G', 'AA=A'),
    ('filtered2', 'LowQual;q10', 'A', 'G', 'AA=G'),
    ('multichar-ref', 'PASS', 'AT', 'G', 'AA=G'),
    ('multichar-alt', 'PASS', 'A', 'GT', 'AA=A'),
    ('multiallelic', 'PASS', 'A', 'G,T', 'AA=A'),
    ('alt-missing', 'PASS', 'A', '.', 'AA=A'),
    ('ref-N', 'PASS', 'N', 'G', 'AA=G'),
    ('symbolic-alt', 'PASS', 'A', '<DEL>', 'AA=A'),
]
CHROMS = ['1', 'chr_1', 'sc.2', 'a_b.c_d']
ACGT = ('A', 'C', 'G', 'T')


def gt_alleles(gt):
    return gt.replace('|', '/').split('/')


def ref_parse_line(kind, gts_by_pop, filt):
    """Reference for one VCF line: None if the line is not a usable biallelic SNP line, else
    (segregating, outgroup allele, {pop: list of per-individual allele lists})."""
    tag, flt, ref, alt, info = kind
    if filt and flt not in ('PASS', '.'):
        return None
    ref, alt = ref.upper(), alt.upper()
    if ref not in ACGT or alt not in ACGT:
        return None
    aa = '-'
    for fld in info.split(';'):
        if '=' in fld and fld.split('=')[0] in ('AA', 'AA_ensembl', 'AA_chimp'):
            aa = fld.split('=', 1)[1].upper().split('|')[0]
            if aa not in ACGT:
                aa = '-'
            break
    return (ref, alt), aa, {p: [gt_alleles(g) for g in gl] for p, gl in gts_by_pop.items()}


def make_vcf_body(layout, alphabet, fmt, filt, subsample, nsel):
    """layout: list of (sample name, pop or None) in VCF column order."""
    def body(env):
        import dadi
        from dadi import Misc, Numerics
        if env.symbolic:
            Numerics._projection_cache.clear()
        listed = [i for i, (s, p) in enumerate(layout) if p is not None]
        pops = []
        for s, p in layout:
            if p is not None and p not in pops:
                pops.append(p)
        tmp = tempfile.mkdtemp(prefix='c13_', dir='/tmp')
        vcf = os.path.join(tmp, 'in.vcf')
        popf = os.path.join(tmp, 'popinfo.txt')
        try:
            with open(popf, 'w') as f:
                f.write('# population assignments\nSAMPLE\tPOP\n')
                for s, p in layout:
                    if p is not None:
                        f.write('%s\t%s\n' % (s, p))
                f.write('\nGhost\tB\n')
            expected = {}
            order = []
            with open(vcf, 'w') as f:
                f.write('##fileformat=VCFv4.2\n##source=c13\n')
                f.write('#CHROM\tPOS\tID\tREF\tALT\tQUAL\tFILTER\tINFO\tFORMAT\t' + '\t'.join(s for s, p in layout)
                        + '\n')
                pos = 0
                for kind in LINE_KINDS:
                    for combo in itertools.product(alphabet, repeat=len(listed)):
                        pos += 1
                        chrom = CHROMS[pos % len(CHROMS)]
                        gts = []
                        byp = {p: [] for p in pops}
                        it = iter(combo)
                        for s, p in layout:
                            g = next(it) if p is not None else alphabet[(pos // 3) % len(alphabet)]
                            gts.append(g)
                            if p is not None:
                                byp[p].append(g)
                        if fmt == 'GT':
                            cells = gts
                        elif fmt == 'GT:GQ':
                            cells = ['%s:%d' % (g, 30 + i) for i, g in enumerate(gts)]
                        else:  # 'GQ:GT:PL'
                            cells = ['%d:%s:0,1,2' % (20 + i, g) for i, g in enumerate(gts)]
                        f.write('\t'.join([chrom, str(pos), 'rs%d' % pos, kind[2], kind[3], '50', kind[1], kind[4],
                                           fmt] + cells) + '\n')
                        key = '%s_%d' % (chrom, pos)
                        order.append((key, kind[0]))
                        expected[key] = (kind, ref_parse_line(kind, byp, filt))
            combos_cache = {}
            draws = []

            class _Rand:
                @staticmethod
                def seed(x):
                    pass

                @staticmethod
                def choice(a, size=None, replace=True, p=None):
                    a = list(a)
                    assert replace is False and p is None
                    ck = (len(a), size)
                    if ck not in combos_cache:
                        combos_cache[ck] = list(itertools.combinations(range(len(a)), size))
                    cs = combos_cache[ck]
                    sel = cs[nsel % len(cs)]
                    draws.append((len(a), size, sel))
                    return np.array([a[i] for i in sel][::-1] if nsel % 2 else [a[i] for i in sel])

            class _NP:
                random = _Rand

                def __getattr__(self, k):
                    return getattr(np, k)
            old = Misc.numpy
            if subsample is not None:
                Misc.numpy = _NP()
            try:
                with warnings.catch_warnings():
                    warnings.simplefilter('ignore')
                    dd = Misc.make_data_dict_vcf(vcf, popf, subsample=subsample, filter=filt)
                    boot_got = None
                    if subsample is not None and len(gt_alleles(alphabet[0])) == 2:
                        # bootstraps_subsample_vcf = subsample + chunk + resample chunks: with the chunk resampling
                        # scripted to "every chunk once" one replicate is the spectrum of the subsampled data itself;
                        # populations requested in an order different from the subsample dictionary's
                        bpops = [p_ for p_ in pops if p_ in subsample][::-1]

                        class _IdRandom:
                            @staticmethod
                            def choices(seq, k=None, **kw):
                                return list(seq)
                        oldr = Misc.random
                        Misc.random = _IdRandom
                        try:
                            boot_got = [Misc.bootstraps_subsample_vcf(vcf, popf, subsample, 1, 7, list(bpops), filter=filt,
                                                                      mask_corners=mc_, polarized=pol_)[0]
                                        for pol_, mc_ in ((True, True), (False, False))]
                        finally:
                            Misc.random = oldr
            finally:
                Misc.numpy = old
        finally:
            for fn in (vcf, popf):
                if os.path.exists(fn):
                    os.remove(fn)
            os.rmdir(tmp)

        # reference data dictionary
        refdd = {}
        di = 0
        for key, tag in order:
            kind, parsed = expected[key]
            if parsed is None:
                continue
            seg, aa, inds = parsed
            calls = {}
            keep = True
            if subsample is None:
                for p in pops:
                    al = [x for ind in inds[p] for x in ind]
                    calls[p] = (al.count('0'), al.count('1'))
            else:
                for p in pops:
                    if p not in subsample:
                        continue
                    full = [ind for ind in inds[p] if '.' not in ind]
                    if len(full) < subsample[p]:
                        keep = False
                        break
                    cs = list(itertools.combinations(range(len(full)), subsample[p]))
                    sel = cs[nsel % len(cs)]
                    al = [x for i in sel for x in full[i]]
                    calls[p] = (al.count('0'), al.count('1'))
            if keep:
                refdd[key] = dict(segregating=seg, outgroup_allele=aa, calls=calls)
        # per line kind: keys and entries
        bykind = collections.defaultdict(list)
        for key, tag in order:
            bykind[tag].append(key)
        for tag, keys in bykind.items():
            bad = None
            for k in keys:
                if (k in dd) != (k in refdd):
                    bad = '%s: present=%s expected=%s' % (k, k in dd, k in refdd)
                    break
                if k in dd:
                    got = dd[k]
                    want = refdd[k]
                    if tuple(got['segregating']) != want['segregating'] or got['outgroup_allele'] != \
                            want['outgroup_allele'] or dict(got['calls']) != want['calls']:
                        bad = '%s: got %r want %r' % (k, {x: got[x] for x in ('segregating', 'outgroup_allele',
                                                                             'calls')}, want)
                        break
            env.holds('vcf %s%s' % (tag, (' ' + bad) if bad else ''), bad is None)
        env.holds('no-extra-keys', set(dd) == set(refdd))
        if subsample is not None:
            # exactly the requested number of individuals per SNP and population
            ploidy = len(gt_alleles(alphabet[0]))
            ok = all(sum(dd[k]['calls'][p]) == ploidy * subsample[p] for k in dd for p in subsample)
            env.holds('subsample-size-exact', ok)
            # every draw asked for exactly the requested number out of the fully called individuals
            env.holds('subsample-draws', len(draws) > 0 and all(sz in subsample.values() and len(sel) == sz and n >= sz
                                                                for n, sz, sel in draws))
        if subsample is not None and len(gt_alleles(alphabet[0])) == 2:
            env.holds('bootstraps_subsample_vcf ran', boot_got is not None and len(boot_got) == 2)
            _f = lambda a_: np.array([float(v_.c) if isinstance(v_, S.Sym) else float(v_) for v_ in np.ma.getdata(a_).flat], dtype=float)
            for bfs, (pol_, mc_) in zip(boot_got or [], ((True, True), (False, False))):
                want = dadi.Spectrum.from_data_dict(dd, list(bpops), [2 * subsample[p_] for p_ in bpops],
                                                    mask_corners=mc_, polarized=pol_)
                tagb = 'bootstraps_subsample_vcf pol=%d order=%s' % (pol_, ''.join(bpops))
                okb = (tuple(bfs.shape) == tuple(want.shape) and list(bfs.pop_ids) == list(bpops)
                       and bool(bfs.folded) == (not pol_)
                       and np.array_equal(np.ma.getmaskarray(bfs), np.ma.getmaskarray(want))
                       and np.allclose(_f(bfs), _f(want), rtol=1e-12, atol=1e-12))
                env.holds('%s shape %s total %r (want %s, %r)' % (tagb, tuple(bfs.shape), float(_f(bfs).sum()),
                                                                 tuple(want.shape), float(_f(want).sum())), okb)
        # chunking the VCF-derived dictionary (chromosome names with '_' and '.') partitions its SNPs
        for chunk in (7, 1000):
            frags = Misc.fragment_data_dict(dd, chunk)
            msg = check_fragments(dd, frags, chunk)
            env.holds('vcf-chunks chunk=%d %s' % (chunk, msg or ''), msg is None)
        # spectrum from the VCF = direct count over the genotype matrix
        qpops = [p for p in pops if subsample is None or p in subsample]
        ploidy = len(gt_alleles(alphabet[0]))
        if subsample is None:
            proj = tuple(min(2 * ploidy, 3 + i) for i, p in enumerate(qpops))
        else:
            proj = tuple(ploidy * subsample[p] for p in qpops)
        for polarized in (True, False):
            mc = not polarized
            fs = dadi.Spectrum.from_data_dict(dd, qpops, list(proj), mask_corners=mc, polarized=polarized)
            ref, nus = ref_spectrum_from_dd(refdd, qpops, proj, polarized)
            check_spectrum(env, 'vcf-fs pol=%d' % polarized, fs, ref, proj, polarized, mc, nus)
    return body


# ----------------------------------------------------------------------------------------------------------------
def units(tier, seed):
    us = []
    thorough = tier == 'thorough'
    # ---- cd
    cfgs = []
    for p in (range(2, 9) if thorough else range(2, 6)):
        cfgs.append(((p,), -1, 2))
    if thorough:
        for pr in ((2, 2), (2, 3), (3, 2), (3, 3), (4, 4), (3, 4)):
            cfgs.append((pr, -1, 2 if sum(pr) <= 6 else 1))
        cfgs += [((2, 2, 2), -1, 1), ((2, 3, 2), 0, 1), ((3, 3, 3), 0, 1)]
    else:
        for pr in ((2, 2), (2, 3), (3, 2)):
            cfgs.append((pr, -1, 1))
        cfgs.append(((2, 2, 2), 0, 1))
    for proj, lo, hi in cfgs:
        for polarized in (True, False):
            for mc in (False, True):
                nm = 'cd-proj%s-%s-mc%d' % ('x'.join(map(str, proj)), 'pol' if polarized else 'unpol', int(mc))
                additivity = len(proj) <= 2
                nent = int(np.prod([p + 1 for p in proj]))
                us.append(H.Unit(nm, make_cd_body(proj, lo, hi, polarized, mc, additivity),
                                 params=dict(proj=list(proj), called_offsets=[lo, hi], polarized=polarized,
                                             mask_corners=mc),
                                 setup=_setup, min_obligations=4 + nent, expect_paths=1,
                                 timeout_s=900 if thorough else 170, query_timeout_ms=60000))
    # ---- stat
    for n in (range(2, 17) if thorough else range(2, 10)):
        for pname, maskl, mc in mask_patterns_1d(n, tier):
            us.append(H.Unit('stat-n%d-%s' % (n, pname), make_stat_body(n, maskl, mc),
                             params=dict(n=n, mask=maskl, mask_corners=mc), setup=_setup, min_obligations=8,
                             expect_paths=1, timeout_s=900 if thorough else 170, query_timeout_ms=60000))
    # ---- fst
    fcfg = [(2, 2), (2, 3), (3, 3), (3, 2)]
    if thorough:
        fcfg += [(4, 4), (2, 5), (5, 5), (2, 2, 2), (2, 3, 2)]
    for ns in fcfg:
        for pname, maskl, mc in fst_masks(ns, tier):
            us.append(H.Unit('fst-%s-%s' % ('x'.join(map(str, ns)), pname), make_fst_body(ns, maskl, mc),
                             params=dict(ns=list(ns), mask=maskl, mask_corners=mc), setup=_setup, min_obligations=3,
                             expect_paths=1, timeout_s=900 if thorough else 170, query_timeout_ms=60000))
    # ---- boot
    bcfg = [((4,), 2), ((3, 3), 2), ((4,), 3)]
    if thorough:
        bcfg += [((3, 3), 3), ((3,), 4), ((2, 3, 2), 2)]
    for shape, K in bcfg:
        for polarized in (True, False):
            for mc in (True, False):
                if not mc and not polarized and K > 2:
                    continue
                us.append(H.Unit('boot-%s-K%d-%s-mc%d' % ('x'.join(map(str, shape)), K,
                                                          'pol' if polarized else 'unpol', int(mc)),
                                 make_boot_body(shape, K, polarized, mc),
                                 params=dict(shape=list(shape), chunks=K, polarized=polarized, mask_corners=mc),
                                 setup=_setup, min_obligations=K ** K * 3, expect_paths=1,
                                 timeout_s=900 if thorough else 170))
    # ---- count
    ccfg = [(['A'], 2, [(2,), (3,)]), (['B', 'A'], 2, [(2, 2), (3, 2)])]
    if thorough:
        ccfg += [(['A'], 4, [(2,), (5,)]), (['C', 'A', 'B'], 1, [(1, 2, 1), (2, 2, 2)]), (['B', 'A'], 3, [(2, 4)])]
    for pops, cmax, projs in ccfg:
        us.append(H.Unit('count-%s-calls0to%d' % (''.join(pops), cmax), make_count_body(pops, cmax, projs),
                         params=dict(pop_ids=pops, max_calls_per_allele=cmax, projections=[list(p) for p in projs]),
                         setup=_setup, min_obligations=60, expect_paths=1, timeout_s=900 if thorough else 170))
    # ---- frag
    fcs = [('1', 'chr_2', 'plain'), ('chr_2', 'sc.3', 'plain'), ('a_b.c_d', 'sc.3', 'info'), ('sc.3', '1', 'mixed'),
           ('chr_2', 'a_b.c_d', 'info'), ('a_b.c_d', 'x', 'mixed')]
    for chrA, chrB, style in fcs:
        us.append(H.Unit('frag-%s-%s-%s' % (chrA, chrB, style),
                         make_frag_body(chrA, chrB, style, 8 if thorough else 6,
                                        (1, 2, 3, 4, 5, 7, 100) if thorough else (1, 2, 3, 5, 100)),
                         params=dict(chromosomes=[chrA, chrB], style=style), setup=_setup, min_obligations=20,
                         expect_paths=1, timeout_s=900 if thorough else 170))
    us.append(H.Unit('frag-recurrent-site-optional-suffix', frag_recurrent_body, setup=_setup, min_obligations=6,
                     expect_paths=1))
    # ---- vcf
    lay3 = [('I1', 'A'), ('X9', None), ('I2', 'A'), ('I3', 'B')]
    lay5 = [('I1', 'A'), ('I2', 'B'), ('X9', None), ('I3', 'A'), ('I4', 'B'), ('I5', 'A')]
    dip = ['0/0', '0/1', '1/1', './.', '1|0']
    vc = [(lay3, dip, 'GT', True, None, 0), (lay3, dip, 'GQ:GT:PL', False, None, 0),
          (lay3, dip, 'GT:GQ', True, None, 0)]
    for nsel in range(3):
        vc.append((lay3, dip, 'GT', True, {'A': 1, 'B': 1}, nsel))
        vc.append((lay3, dip, 'GQ:GT:PL', True, {'A': 2}, nsel))
    vc.append((lay3, dip, 'GT', True, {'A': 2, 'B': 1}, 1))      # unequal sizes (bootstrap projections per population)
    if thorough:
        hap = ['0', '1', '.']
        tri = ['0/0/1', '1|1|1', '././.', '0/1/0']
        vc += [(lay5, ['0/0', '0/1', '1/1', './.'], 'GT', True, None, 0), (lay5, hap, 'GT:GQ', True, None, 0),
               (lay3, tri, 'GT', True, None, 0), (lay3, tri, 'GT:GQ', False, {'A': 1, 'B': 1}, 1)]
        for nsel in range(10):
            vc.append((lay5, ['0/0', '0/1', '1/1', './.'], 'GT', True, {'A': 2, 'B': 1}, nsel))
        for nsel in range(3):
            vc.append((lay5, hap, 'GT', False, {'A': 2, 'B': 2}, nsel))
    for layout, alphabet, fmt, filt, sub, nsel in vc:
        nm = 'vcf-%dsamples-%s-%s-filter%d-%s' % (
            len(layout), 'ploidy%d' % len(gt_alleles(alphabet[0])), fmt.replace(':', '.'), int(filt),
            'nosub' if sub is None else 'sub%s-sel%d' % (''.join('%s%d' % kv for kv in sorted(sub.items())), nsel))
        us.append(H.Unit(nm, make_vcf_body(layout, alphabet, fmt, filt, sub, nsel),
                         params=dict(layout=[list(x) for x in layout], genotype_alphabet=alphabet, format=fmt,
                                     filter=filt, subsample=sub, selector=nsel),
                         setup=_setup, min_obligations=len(LINE_KINDS) + 4, expect_paths=1,
                         timeout_s=900 if thorough else 170))
    return us
