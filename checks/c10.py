"""C10 - population bookkeeping on spectra equals explicit index arithmetic, keeps labels.

Real code: Spectrum.marginalize / filter_pops / reorder_pops / combine_pops / combine_two_pops /
scramble_pop_ids (+ fold / unfold / project where they are composed with those) and Misc.combine_pops,
executed on Spectrum objects whose data are numpy object arrays of z3 reals (one variable per entry).

Oracles (o_*) are explicit re-indexing loops over numpy.ndindex with math.comb / Fraction weights written in
this file; they never call a dadi function.  Every result is compared entry by entry (z3: unsat of the
negation), masks / labels / folded flag / shapes are concrete and compared directly.
"""
import itertools
import logging
import math
from fractions import Fraction as Fr

import numpy as np

from engine import esf
from engine import harness as H
from engine import shims
from engine import symreal as S

META = dict(
    explanation=(
        'Spectrum.marginalize/filter_pops/reorder_pops/combine_pops/combine_two_pops/scramble_pop_ids and '
        'Misc.combine_pops (and Spectrum.fold/unfold/project where composed with them) are executed unmodified on '
        'Spectrum objects whose entries are distinct z3 reals; shapes (2-6 populations, unequal sample sizes), the '
        'population subsets / permutations / merge sets, labels on/off, corner masking on/off and folded/unfolded '
        'inputs are enumerated, the entry values are quantified by z3.  For every call z3 proves entry by entry that '
        'the result equals an explicit re-indexing sum written in the check (sum over dropped axes; permuted index; '
        'sum over all index tuples with the same merged allele count; pooled 1-D spectrum re-dealt with exact '
        'hypergeometric weights prod C(n_p,c_p)/C(N,sum c) from math.comb), that totals are conserved, and the mask, '
        'shape, folded flag and population labels are compared concretely.  Folded inputs are arbitrary well-formed '
        'folded spectra (symbolic on the kept half, zero and masked on the folded-out half) and are compared with '
        'explicit fold(op(unfold(F))).  Commutation laws op(project(fs))=project(op(fs)) and op(fold(fs))=fold(op(fs)) '
        'are proved between two runs of the real code and against the composed oracles on unmasked data.  Projection '
        'and scrambling weights inside dadi are made exact by the ESF stub for gammaln (ln of exact rationals).'),
    functions=['dadi.Spectrum.marginalize', 'dadi.Spectrum.filter_pops', 'dadi.Spectrum.reorder_pops',
               'dadi.Spectrum.combine_pops', 'dadi.Spectrum.combine_two_pops', 'dadi.Spectrum.scramble_pop_ids',
               'dadi.Misc.combine_pops', 'dadi.Spectrum.fold', 'dadi.Spectrum.unfold', 'dadi.Spectrum.project',
               'dadi.Spectrum._project_one_axis', 'dadi.Numerics._cached_projection', 'dadi.Numerics._lncomb',
               'dadi.Numerics.reverse_array', 'dadi.Spectrum.__new__'],
    files=['dadi/Spectrum_mod.py', 'dadi/Misc.py', 'dadi/Numerics.py'],
    bounds=dict(
        quick='shapes (entries per axis = sample size + 1): 2-D (2,3),(3,4),(4,2); 3-D (2,3,4),(3,2,2),(4,3,2); 4-D '
              '(2,3,4,2),(3,2,2,4); 5-D (2,3,2,3,2); 6-D (2,3,2,2,3,2).  marginalize/filter_pops: every non-empty proper '
              'subset of axes (<=5-D), 20 subsets for 6-D, given ascending and rotated; reorder_pops: every permutation '
              '(<=4-D), 12+ (5-D) / 8+ (6-D) permutations, and rejection of 4 non-permutations; combine_pops: every merge '
              'set of size >=2 given in non-sorted order (<=5-D), 14 for 6-D; combine_two_pops: every ordered pair (<=4-D), '
              '10 pairs for 5-D/6-D; scramble_pop_ids: all shapes; Misc.combine_pops: all 2-D/3-D shapes x its idx values.  '
              'Each with and without labels; input without mask and with masked corners (combine/reorder also with two '
              'interior masked entries); mask_corners True/False where the function has it; unfolded inputs and folded '
              'inputs (marginalize/scramble <=5-D, reorder all, filter <=3-D); commutation with project / fold on <=5-D '
              'shapes (all patterns <=3-D, 6 subsets / 5 permutations / 5 merge sets above); combine_pops / '
              'combine_two_pops also on folded inputs (<=5-D / <=4-D); large sample size: shapes (258,2),(2,259),(130,2,2): fold, marginalize-then-fold, '
              'reorder-then-fold and scramble_pop_ids (allele counts past 255 in one population).',
        thorough='quick shapes plus (4,3),(5,3),(2,4,3),(3,5,4),(3,4,2,3),(4,3,4,2),(3,2,3,2,2),(2,2,3,3,2),(3,2,4,2,3),'
                 '(2,2,3,2,3,3),(3,2,2,2,2,3),(3,2,2,3,2,4) (sample sizes up to 4); every subset / merge set / ordered pair '
                 'for all dimensions, every permutation <=5-D and 60+ for 6-D, folded inputs and commutation laws for all '
                 'dimensions (10 subsets / 9 permutations / 9 merge sets per shape above 3-D).'),
    outside=['float round-off (doubles modelled as reals; hypergeometric weights exact rationals instead of '
             'exp(gammaln differences))',
             'spectra with internal masked entries (dadi itself warns the operation is not well defined); only '
             '"no mask" and "corners masked" (plus the folded-out half for folded inputs) are covered',
             'data stored underneath masked entries of a result',
             'marginalising over all populations, repeated / out-of-range population numbers (except that '
             'reorder_pops rejects a non-permutation)',
             'Misc.combine_pops on folded or >3-D spectra and idx values other than [0,1],[0,2],[1,2] (it calls exit())',
             'scramble_pop_ids drops pop_ids/extrap_x (not claimed either way)',
             'extrap_x bookkeeping', 'more than 6 populations / sample sizes above 3 (except the large-sample-size units: 257 and 258 chromosomes in one population)'],
    stubs=['scipy.special.gammaln inside dadi.Numerics -> engine.esf.gammaln (exact ln of factorials; validated against '
           'scipy by esf.selftest)', 'numpy array constructors inside dadi.Numerics / Spectrum_mod / Misc -> object arrays',
           'Sym (+,-,*,/) numpy.ma.masked -> numpy.ma.masked (numpy.ma semantics for scalars; patched onto Sym._bin in the '
           'worker process)',
           'Spectrum.__new__ default dtype float -> object'],
    assumptions=['doubles modelled as reals', 'spectrum entries are arbitrary reals (no sign / integrality assumed)'],
)

NAMES = ['zeta', 'alpha', 'mid', 'beta', 'omega', 'chi']


# ---------------------------------------------------------------------------------------------
# setup (symbolic worker only)
def _patch_sym_masked():
    """numpy.ma semantics `x (+,-,*,/) masked = masked` for Sym scalars (numpy.ma would otherwise call .ndim on the
    Sym returned by its object loop).  Local to the symbolic worker process; the float code yields masked too."""
    if getattr(S.Sym, '_c10_masked', False):
        return
    orig = S.Sym._bin

    def _bin(self, o, rev, op):
        if o is np.ma.masked:
            return np.ma.masked
        return orig(self, o, rev, op)
    S.Sym._bin = _bin
    S.Sym._c10_masked = True


def _quiet():
    for n in ('Spectrum_mod', 'Numerics', 'Misc', 'dadi', 'dadi.Spectrum_mod'):
        logging.getLogger(n).setLevel(logging.CRITICAL)


def _setup():
    import dadi
    from dadi import Numerics, Spectrum_mod, Misc
    _quiet()
    shims.install_numpy(Numerics)
    shims.install_numpy(Spectrum_mod)
    _patch_sym_masked()
    shims.install_numpy(Misc)
    shims.patch_spectrum_dtype(dadi.Spectrum)
    shims.set_attr(Numerics, 'gammaln', esf.gammaln)
    Numerics._projection_cache.clear()


def concrete_setup():
    import warnings
    _quiet()
    warnings.filterwarnings('ignore')


# ---------------------------------------------------------------------------------------------
# explicit oracles on (data, mask) pairs; data: any array whose entries support + and *
def _zeros(env, shape):
    a = np.empty(shape, dtype=object)
    z = env.const(Fr(0))
    for i in np.ndindex(*shape):
        a[i] = z
    return a


def _corners(shape):
    m = np.zeros(shape, dtype=bool)
    m[tuple(0 for _ in shape)] = True
    m[tuple(s - 1 for s in shape)] = True
    return m


def _rev(idx, shape):
    return tuple(s - 1 - i for i, s in zip(idx, shape))


def o_marg(env, D, M, over, mask_corners):
    kept = [a for a in range(D.ndim) if a not in over]
    oshape = tuple(D.shape[a] for a in kept)
    OD = _zeros(env, oshape)
    cnt = np.zeros(oshape, dtype=int)
    for idx in np.ndindex(*D.shape):
        if M[idx]:
            continue
        k = tuple(idx[a] for a in kept)
        OD[k] = OD[k] + D[idx]
        cnt[k] += 1
    OM = cnt == 0
    if mask_corners:
        OM = OM | _corners(oshape)
    return OD, OM


def o_fold(env, D, M):
    shape = D.shape
    N = sum(shape) - len(shape)
    OD = _zeros(env, shape)
    OM = _corners(shape)
    half = env.const(Fr(1, 2))
    for k in np.ndindex(*shape):
        t = sum(k)
        r = _rev(k, shape)
        if 2 * t > N:
            OM[k] = True
            continue
        if M[k] or M[r]:
            OM[k] = True
        if 2 * t == N:
            OD[k] = (D[k] + D[r]) * half
        else:
            OD[k] = D[k] + D[r]
    return OD, OM


def o_unfold(env, F, M):
    shape = F.shape
    N = sum(shape) - len(shape)
    OD = _zeros(env, shape)
    OM = _corners(shape)
    half = env.const(Fr(1, 2))

    def explicit(k):     # masked for a reason other than "folded out"
        return bool(M[k]) and not (2 * sum(k) > N)
    for k in np.ndindex(*shape):
        r = _rev(k, shape)
        OD[k] = (F[k] + F[r]) * half
        if explicit(k) or explicit(r):
            OM[k] = True
    return OD, OM


def _hyp(n, m, i, j):
    """P(j derived among m drawn | i derived among n)."""
    if j < 0 or j > m or i - j < 0 or i - j > n - m:
        return Fr(0)
    return Fr(math.comb(m, j) * math.comb(n - m, i - j), math.comb(n, i))


def o_project(env, D, M, ns_new):
    shape = D.shape
    oshape = tuple(n + 1 for n in ns_new)
    OD = _zeros(env, oshape)
    OM = np.zeros(oshape, dtype=bool)
    for j in np.ndindex(*oshape):
        for i in np.ndindex(*shape):
            w = Fr(1)
            for a in range(len(shape)):
                w *= _hyp(shape[a] - 1, ns_new[a], i[a], j[a])
                if w == 0:
                    break
            if w == 0:
                continue
            OD[j] = OD[j] + env.const(w) * D[i]
            if M[i]:
                OM[j] = True
    return OD, OM


def o_combine(env, D, M, tocombine):
    tc = sorted(t - 1 for t in tocombine)
    gone = tc[1:]
    kept = [a for a in range(D.ndim) if a not in gone]
    oshape = []
    for a in kept:
        oshape.append(D.shape[a] if a != tc[0] else sum(D.shape[t] - 1 for t in tc) + 1)
    oshape = tuple(oshape)
    OD = _zeros(env, oshape)
    OM = _corners(oshape)
    for idx in np.ndindex(*D.shape):
        k = tuple(idx[a] if a != tc[0] else sum(idx[t] for t in tc) for a in kept)
        OD[k] = OD[k] + D[idx]
        if M[idx]:
            OM[k] = True
    return OD, OM


def o_reorder(env, D, M, neworder):
    axes = [n - 1 for n in neworder]
    oshape = tuple(D.shape[a] for a in axes)
    OD = _zeros(env, oshape)
    OM = np.zeros(oshape, dtype=bool)
    for idx in np.ndindex(*D.shape):
        j = tuple(idx[a] for a in axes)
        OD[j] = D[idx]
        OM[j] = M[idx]
    return OD, OM


def o_scramble(env, D, M, mask_corners):
    """pool all chromosomes, re-deal without replacement; returns data, mask, unclaimed (entries fed by a
    masked input class)."""
    shape = D.shape
    ns = [s - 1 for s in shape]
    N = sum(ns)
    pooled = [env.const(Fr(0)) for _ in range(N + 1)]
    bad = set()
    for idx in np.ndindex(*shape):
        if M[idx]:
            bad.add(sum(idx))
        else:
            pooled[sum(idx)] = pooled[sum(idx)] + D[idx]
    OD = _zeros(env, shape)
    U = np.zeros(shape, dtype=bool)
    for c in np.ndindex(*shape):
        num = 1
        for n, cc in zip(ns, c):
            num *= math.comb(n, cc)
        OD[c] = env.const(Fr(num, math.comb(N, sum(c)))) * pooled[sum(c)]
        U[c] = sum(c) in bad
    OM = _corners(shape) if mask_corners else np.zeros(shape, dtype=bool)
    return OD, OM, U


# ---------------------------------------------------------------------------------------------
def _interior(shape):
    """two non-corner entries (used as an explicit interior mask for combine / reorder)."""
    a = [0] * len(shape)
    a[0] = 1
    b = [s - 1 for s in shape]
    b[-1] -= 1
    out = [tuple(a)]
    if tuple(b) != tuple(a):
        out.append(tuple(b))
    return out


def mk(env, shape, labels, corners, folded=False, name='d', interior=False):
    """Input spectrum with one symbolic value per entry.  folded=True: arbitrary well-formed folded spectrum
    (symbolic on the kept half, 0 and masked on the folded-out half), built without calling fold()."""
    import dadi
    D = env.array(name, shape)
    pop_ids = list(NAMES[:len(shape)]) if labels else None
    M = np.zeros(shape, dtype=bool)
    if folded:
        N = sum(shape) - len(shape)
        fo = np.indices(shape).sum(axis=0) * 2 > N
        D = D.copy()
        D[fo] = env.const(Fr(0))
        M = fo.copy()
        if corners:
            M |= _corners(shape)
        fs = dadi.Spectrum(D, mask=M.copy(), mask_corners=corners, data_folded=True, pop_ids=pop_ids)
    else:
        if corners:
            M = _corners(shape)
        if interior:
            for k in _interior(shape):
                M[k] = True
        fs = dadi.Spectrum(D, mask=M.copy(), mask_corners=corners, pop_ids=pop_ids)
    return fs, D, M


def total(env, D, M=None):
    t = env.const(Fr(0))
    for idx in np.ndindex(*D.shape):
        if M is None or not M[idx]:
            t = t + D[idx]
    return t


def compare(env, lab, res, OD, OM, labels='skip', folded='skip', unclaimed=None):
    """res (a real dadi result) against the oracle: type, shape, mask exactly; data on unmasked entries."""
    import dadi
    env.holds(lab + ':is-Spectrum', isinstance(res, dadi.Spectrum))
    if tuple(res.shape) != tuple(OD.shape):
        env.fail(lab + ':shape', '%s != %s' % (tuple(res.shape), tuple(OD.shape)))
        return
    env.holds(lab + ':shape', True)
    rm = np.ma.getmaskarray(res)
    rd = np.ma.getdata(res)
    okm = True
    for idx in np.ndindex(*OD.shape):
        if unclaimed is not None and unclaimed[idx]:
            continue
        if bool(rm[idx]) != bool(OM[idx]):
            okm = False
            env.fail(lab + ':mask%s' % (list(idx),), 'got %s want %s' % (bool(rm[idx]), bool(OM[idx])))
            break
    if okm:
        env.holds(lab + ':mask', True)
    for idx in np.ndindex(*OD.shape):
        if OM[idx] or rm[idx] or (unclaimed is not None and unclaimed[idx]):
            continue
        env.eq('%s%s' % (lab, list(idx)), rd[idx], OD[idx])
    if labels != 'skip':
        got = res.pop_ids
        env.holds(lab + ':labels', (got is None and labels is None) or
                  (got is not None and labels is not None and list(got) == list(labels)))
    if folded != 'skip':
        env.holds(lab + ':folded-flag', res.folded is folded or res.folded == folded)


def same_spectra(env, lab, a, b, flag=True):
    """two real results agree: shape, mask, data on unmasked entries, labels, folded flag."""
    if tuple(a.shape) != tuple(b.shape):
        env.fail(lab + ':shape')
        return
    am, bm = np.ma.getmaskarray(a), np.ma.getmaskarray(b)
    env.holds(lab + ':mask', bool(np.array_equal(am, bm)))
    ad, bd = np.ma.getdata(a), np.ma.getdata(b)
    for idx in np.ndindex(*a.shape):
        if not am[idx] and not bm[idx]:
            env.eq('%s%s' % (lab, list(idx)), ad[idx], bd[idx])
    env.holds(lab + ':labels', a.pop_ids == b.pop_ids)
    if flag:
        env.holds(lab + ':folded-flag', a.folded == b.folded)


def untouched(env, lab, fs, D, M, labels):
    """the operation must not modify its input."""
    ok = bool(np.array_equal(np.ma.getmaskarray(fs), M))
    fd = np.ma.getdata(fs)
    for idx in np.ndindex(*D.shape):
        if fd[idx] is not D[idx] and not (not env.symbolic and fd[idx] == D[idx]):
            ok = False
    ok = ok and (fs.pop_ids == (list(NAMES[:D.ndim]) if labels else None))
    env.holds(lab + ':input-untouched', ok)


def _lab(x):
    return ''.join(str(v) for v in x)


# ---------------------------------------------------------------------------------------------
# bodies
def body_marg(shape, subsets, labels, folded, via_filter):
    def body(env):
        nd = len(shape)
        for corners in (True, False):
            fs, D, M = mk(env, shape, labels, corners, folded)
            for over in subsets:
                kept = [a for a in range(nd) if a not in over]
                want_ids = [NAMES[a] for a in kept] if labels else None
                for mc in (True, False):
                    lab = 'marg%s-c%d-mc%d' % (_lab(over), corners, mc)
                    if via_filter:
                        # "unordered set", numbered from 1: give it in reversed order
                        res = fs.filter_pops([a + 1 for a in reversed(kept)], mask_corners=mc)
                    else:
                        # `over` is an unordered set: ascending for mc=True, rotated (descending for pairs) otherwise
                        res = fs.marginalize(list(over) if mc else list(over[1:]) + list(over[:1]), mask_corners=mc)
                    if folded:
                        UD, UM = o_unfold(env, D, M)
                        XD, XM = o_marg(env, UD, UM, over, mc)
                        OD, OM = o_fold(env, XD, XM)
                    else:
                        OD, OM = o_marg(env, D, M, over, mc)
                    compare(env, lab, res, OD, OM, labels=want_ids, folded=bool(folded))
                    # conservation
                    if not folded and not corners and not mc:
                        env.eq(lab + ':total', res.sum(), total(env, D))
                    # (folded inputs: fold() always masks the corner of the *result*, which collects non-corner
                    # input entries, so no clean conservation statement exists there; entries are compared above)
                    if via_filter:
                        same_spectra(env, lab + ':filter==marginalize', res,
                                     fs.marginalize(list(over), mask_corners=mc))
                        if mc:   # default value of the parameter
                            same_spectra(env, lab + ':filter-default', res,
                                         fs.filter_pops([a + 1 for a in kept]))
            untouched(env, 'c%d' % corners, fs, D, M, labels)
    return body


def body_reorder(shape, perms, labels, folded):
    def body(env):
        nd = len(shape)
        for corners, interior in ((True, False), (False, False)) + (((True, True),) if not folded else ()):
            fs, D, M = mk(env, shape, labels, corners, folded, interior=interior)
            for p in perms:
                lab = 'reorder%s-c%d%s' % (_lab(p), corners, '-imask' if interior else '')
                res = fs.reorder_pops(list(p))
                OD, OM = o_reorder(env, D, M, p)
                compare(env, lab, res, OD, OM, labels=[NAMES[n - 1] for n in p] if labels else None,
                        folded=bool(folded))
                env.eq(lab + ':total', res.sum(), total(env, D, M))
            untouched(env, 'c%d%d' % (corners, interior), fs, D, M, labels)
        # a non-permutation is rejected
        fs, D, M = mk(env, shape, labels, True, folded)
        for badp in ([1] * nd, list(range(nd)), list(range(1, nd)), list(range(2, nd + 2))):
            try:
                fs.reorder_pops(badp)
                env.fail('reorder%s accepted' % _lab(badp))
            except ValueError:
                env.holds('reorder%s rejected' % _lab(badp), True)
    return body


def body_combine(shape, sets, labels, two, folded=False):
    """folded=True: the input is an arbitrary well-formed folded spectrum; adding allele counts keeps the total
    per entry, so the merged spectrum is the sum of the folded entries, folded-out half masked, flagged folded."""
    def body(env):
        nd = len(shape)
        for corners, interior in ((True, False), (False, False)) + (((True, True),) if not folded else ()):
            fs, D, M = mk(env, shape, labels, corners, folded, interior=interior)
            for tc in sets:
                lab = 'combine%s-c%d%s' % (_lab(tc), corners, '-imask' if interior else '')
                res = fs.combine_two_pops(list(tc)) if two else fs.combine_pops(list(tc))
                OD, OM = o_combine(env, D, M, tc)
                st = sorted(tc)
                want = None
                if labels:
                    want = []
                    for a in range(nd):
                        if a + 1 == st[0]:
                            want.append('+'.join(NAMES[t - 1] for t in st))
                        elif a + 1 not in st:
                            want.append(NAMES[a])
                compare(env, lab, res, OD, OM, labels=want, folded=bool(folded))
                # conservation: the corners of the result are exactly the corners of the input (always masked)
                if not interior:
                    env.eq(lab + ':total', res.sum(), total(env, D, M | _corners(shape)))
                if not two and len(tc) == 2:
                    same_spectra(env, lab + ':pops==two_pops', res, fs.combine_two_pops(list(tc)))
            untouched(env, 'c%d%d' % (corners, interior), fs, D, M, labels)
    return body


def body_misc_combine(shape):
    def body(env):
        from dadi import Misc
        nd = len(shape)
        idxs = [[0, 1]] if nd == 2 else [[0, 1], [0, 2], [1, 2]]
        for corners in (True, False):
            fs, D, M = mk(env, shape, True, corners)
            for idx in idxs:
                lab = 'misc-combine%s-c%d' % (_lab(idx), corners)
                res = Misc.combine_pops(fs, list(idx))
                # Misc.combine_pops works on the data (numpy.array(fs)): masks of the input are ignored
                OD, OM = o_combine(env, D, np.zeros(shape, dtype=bool), [i + 1 for i in idx])
                # the combined population is always returned on the first axis
                pos = idx[0]
                if OD.ndim == 2 and pos != 0:
                    OD, OM = OD.T, OM.T
                compare(env, lab, res, OD, OM, folded=False)
                env.eq(lab + ':total', res.sum(), total(env, D, _corners(shape)))
                # agrees with the newer method up to the axis order
                new = fs.combine_pops([i + 1 for i in idx])
                if corners is False:
                    nw = new if (new.ndim == 1 or pos == 0) else new.transpose()
                    nm, ndta = np.ma.getmaskarray(nw), np.ma.getdata(nw)
                    rm, rd = np.ma.getmaskarray(res), np.ma.getdata(res)
                    env.holds(lab + ':mask==method', bool(np.array_equal(nm, rm)))
                    for k in np.ndindex(*res.shape):
                        if not rm[k] and not nm[k]:
                            env.eq('%s:==method%s' % (lab, list(k)), rd[k], ndta[k])
            untouched(env, 'c%d' % corners, fs, D, M, True)
    return body


class _Prefixed:
    """Env proxy that prefixes variable names (several independent spectra within one unit body)."""
    def __init__(self, env, prefix):
        self._e, self._p = env, prefix
        self.symbolic = env.symbolic

    def __getattr__(self, k):
        return getattr(self._e, k)

    def real(self, name, *a, **kw):
        return self._e.real(self._p + name, *a, **kw)

    def array(self, name, *a, **kw):
        return self._e.array(self._p + name, *a, **kw)

    def eq(self, label, *a, **kw):
        return self._e.eq(self._p + ':' + label, *a, **kw)

    def holds(self, label, *a, **kw):
        return self._e.holds(self._p + ':' + label, *a, **kw)


def body_scramble(shape, labels, folded):
    def body(env):
        for corners in (True, False):
            fs, D, M = mk(env, shape, labels, corners, folded)
            for mc in (True, False):
                lab = 'scramble-c%d-mc%d' % (corners, mc)
                res = fs.scramble_pop_ids(mask_corners=mc)
                if folded:
                    UD, UM = o_unfold(env, D, M)
                    XD, XM, U = o_scramble(env, UD, UM, mc)
                    # an entry fed by a masked class folds onto its mirror image as well
                    U2 = U.copy()
                    for k in np.ndindex(*shape):
                        if U[k]:
                            U2[_rev(k, shape)] = True
                    OD, OM = o_fold(env, XD, XM | U2)
                    compare(env, lab, res, OD, OM, folded=True)
                else:
                    OD, OM, U = o_scramble(env, D, M, mc)
                    compare(env, lab, res, OD, OM, folded=False, unclaimed=U)
                    if not corners and not mc:
                        env.eq(lab + ':total', res.sum(), total(env, D))
                    if mc:
                        # pooled-and-redealt: total over the non-corner classes is conserved
                        env.eq(lab + ':total-noncorner', res.sum(), total(env, D, _corners(shape)))
            untouched(env, 'c%d' % corners, fs, D, M, labels)
    return body


def body_commute_fold(shape, subsets, perms, sets, do_scramble):
    """op(fold(fs)) == fold(op(fs)) on unmasked data, both sides run by the real code, and == composed oracle."""
    def body(env):
        nd = len(shape)
        fs, D, M = mk(env, shape, True, False)
        ff = fs.fold()
        FD, FM = o_fold(env, D, M)
        compare(env, 'fold', ff, FD, FM, labels=NAMES[:nd], folded=True)
        for over in subsets:
            for mc in (True, False):
                lab = 'fold-marg%s-mc%d' % (_lab(over), mc)
                a = ff.marginalize(list(over), mask_corners=mc)
                b = fs.marginalize(list(over), mask_corners=mc).fold()
                same_spectra(env, lab, a, b)
                OD, OM = o_fold(env, *o_marg(env, D, M, over, mc))
                compare(env, lab + ':oracle', a, OD, OM, folded=True)
        for p in perms:
            lab = 'fold-reorder%s' % _lab(p)
            a = ff.reorder_pops(list(p))
            b = fs.reorder_pops(list(p)).fold()
            same_spectra(env, lab, a, b)
            OD, OM = o_fold(env, *o_reorder(env, D, M, p))
            compare(env, lab + ':oracle', a, OD, OM, folded=True)
        for tc in sets:
            lab = 'fold-combine%s' % _lab(tc)
            a = ff.combine_pops(list(tc))
            b = fs.combine_pops(list(tc)).fold()
            # data, mask, labels and the folded flag commute
            same_spectra(env, lab, a, b)
            OD, OM = o_fold(env, *o_combine(env, D, M, tc))
            compare(env, lab + ':oracle', a, OD, OM, folded=True)
        if do_scramble:
            for mc in (True, False):
                lab = 'fold-scramble-mc%d' % mc
                a = ff.scramble_pop_ids(mask_corners=mc)
                b = fs.scramble_pop_ids(mask_corners=mc).fold()
                same_spectra(env, lab, a, b)
                XD, XM, U = o_scramble(env, D, M, mc)
                OD, OM = o_fold(env, XD, XM)
                compare(env, lab + ':oracle', a, OD, OM, folded=True)
    return body


def _proj_targets(shape):
    """two projection targets: every axis down by one where possible; only the largest axes reduced."""
    ns = [s - 1 for s in shape]
    t1 = [max(1, n - 1) for n in ns]
    t2 = [n if n < max(ns) else max(1, n - 2) for n in ns]
    out = [t1]
    if t2 != t1 and t2 != ns:
        out.append(t2)
    return out


def body_commute_project(shape, subsets, perms, sets):
    def body(env):
        nd = len(shape)
        ns = [s - 1 for s in shape]
        fs, D, M = mk(env, shape, True, False)
        for tg in _proj_targets(shape):
            pf = fs.project(list(tg))
            PD, PM = o_project(env, D, M, tg)
            compare(env, 'project%s' % _lab(tg), pf, PD, PM, labels=NAMES[:nd], folded=False)
            for over in subsets:
                kept = [a for a in range(nd) if a not in over]
                lab = 'project%s-marg%s' % (_lab(tg), _lab(over))
                a = pf.marginalize(list(over), mask_corners=False)
                b = fs.marginalize(list(over), mask_corners=False).project([tg[k] for k in kept])
                same_spectra(env, lab, a, b)
                OD, OM = o_marg(env, PD, PM, over, False)
                compare(env, lab + ':oracle', b, OD, OM, folded=False)
            for p in perms:
                lab = 'project%s-reorder%s' % (_lab(tg), _lab(p))
                a = pf.reorder_pops(list(p))
                b = fs.reorder_pops(list(p)).project([tg[n - 1] for n in p])
                same_spectra(env, lab, a, b)
                OD, OM = o_reorder(env, PD, PM, p)
                compare(env, lab + ':oracle', b, OD, OM, folded=False)
            for tc in sets:
                # project only the populations that are not merged
                tg2 = [ns[a] if a + 1 in tc else tg[a] for a in range(nd)]
                if tg2 == ns:
                    continue
                st = sorted(tc)
                lab = 'project%s-combine%s' % (_lab(tg2), _lab(tc))
                a = fs.project(tg2).combine_pops(list(tc))
                cns = []
                for k in range(nd):
                    if k + 1 == st[0]:
                        cns.append(sum(ns[t - 1] for t in st))
                    elif k + 1 not in st:
                        cns.append(tg2[k])
                b = fs.combine_pops(list(tc)).project(cns)
                same_spectra(env, lab, a, b)
                CD, CM = o_combine(env, D, M, tc)
                OD, OM = o_project(env, CD, CM, cns)
                # the masked corners of the merged spectrum project onto the corners only
                compare(env, lab + ':oracle', b, OD, OM, folded=False)
    return body


def body_filter_mask_corners(shape):
    """filter_pops(tokeep, mask_corners=False) must leave the corners of the result unmasked (documented
    parameter), exactly as marginalize(complement, mask_corners=False).  (Defect found by this check: the
    parameter was ignored; fixed in /repo d4e102a.)"""
    def body(env):
        nd = len(shape)
        fs, D, M = mk(env, shape, True, False)
        for kept in ([0], list(range(1, nd))):
            over = [a for a in range(nd) if a not in kept]
            res = fs.filter_pops([a + 1 for a in kept], mask_corners=False)
            OD, OM = o_marg(env, D, M, over, False)
            compare(env, 'filter_pops%s-mask_corners=False' % _lab(kept), res, OD, OM,
                    labels=[NAMES[a] for a in kept], folded=False)
    return body


def body_combine_folded_flag(shape):
    """combine_pops of a folded spectrum returns folded data (and the folded-out half masked) - its folded
    flag must say so.  (Defect found by this check: the flag was dropped; fixed in /repo 6755447.)"""
    def body(env):
        fs, D, M = mk(env, shape, True, False)
        a = fs.fold().combine_pops([1, 2])
        b = fs.combine_pops([1, 2]).fold()
        same_spectra(env, 'combine_pops(fold)', a, b, flag=False)
        env.holds('combine_pops(fold):folded-flag', a.folded == b.folded)
        c = fs.fold().combine_two_pops([2, 1])
        same_spectra(env, 'combine_two_pops(fold)', c, b, flag=False)
        env.holds('combine_two_pops(fold):folded-flag', c.folded is True or c.folded == True)  # noqa: E712
    return body


# ---------------------------------------------------------------------------------------------
def _subsets(nd):
    out = []
    for r in range(1, nd):
        out += [list(c) for c in itertools.combinations(range(nd), r)]
    return out


def _merge_sets(nd, seed):
    """every subset of {1..nd} of size >= 2, each given in a non-sorted order."""
    out = []
    for r in range(2, nd + 1):
        for c in itertools.combinations(range(1, nd + 1), r):
            c = list(c)
            k = (sum(c) + seed) % len(c)
            c = c[k:] + c[:k]
            if c == sorted(c):
                c = c[::-1]
            out.append(c)
    return out


def _pick(lst, n, seed):
    """deterministic spread of n elements (first, last and evenly spaced ones)."""
    if len(lst) <= n:
        return list(lst)
    step = (len(lst) - 1) / float(n - 1)
    idx = sorted(set(int(round((i * step + seed) % len(lst))) % len(lst) if 0 < i < n - 1 else (0 if i == 0 else len(lst) - 1)
                     for i in range(n)))
    return [lst[i] for i in idx]


def _perms(nd, n, seed):
    allp = [tuple(x + 1 for x in p) for p in itertools.permutations(range(nd))]
    if n is None or len(allp) <= n:
        return allp
    picked = _pick(allp, n, seed)
    # always include a rotation and a single swap of unequal-size neighbours
    rot = tuple(list(range(2, nd + 1)) + [1])
    sw = tuple([2, 1] + list(range(3, nd + 1)))
    for extra in (rot, sw, tuple(reversed(range(1, nd + 1)))):
        if extra not in picked:
            picked.append(extra)
    return picked


def _chunks(lst, n):
    return [lst[i:i + n] for i in range(0, len(lst), n)]


def units(tier, seed):
    thorough = tier == 'thorough'
    shapes = [(2, 3), (3, 4), (4, 2), (2, 3, 4), (3, 2, 2), (4, 3, 2), (2, 3, 4, 2), (3, 2, 2, 4), (2, 3, 2, 3, 2),
              (2, 3, 2, 2, 3, 2)]
    if thorough:
        shapes += [(4, 3), (5, 3), (2, 4, 3), (3, 5, 4), (3, 4, 2, 3), (4, 3, 4, 2), (3, 2, 3, 2, 2), (2, 2, 3, 3, 2),
                   (3, 2, 4, 2, 3), (2, 2, 3, 2, 3, 3), (3, 2, 2, 2, 2, 3), (3, 2, 2, 3, 2, 4)]
    to = 1500 if thorough else 400
    us = []

    def add(name, body, params, min_ob):
        us.append(H.Unit(name, body, params=params, setup=_setup, min_obligations=min_ob, timeout_s=to,
                         expect_paths=1, maxpaths=8, query_timeout_ms=60000))

    for shape in shapes:
        nd = len(shape)
        sn = 'x'.join(map(str, shape))
        nent = int(np.prod(shape))
        subs = _subsets(nd)
        msets = _merge_sets(nd, seed)
        if nd == 6 and not thorough:
            subs = _pick(subs, 20, seed)
            msets = _pick(msets, 14, seed)
        if nd <= 4:
            nperm = None
        elif thorough:
            nperm = None if nd == 5 else 60
        else:
            nperm = 12 if nd == 5 else 8
        perms = _perms(nd, nperm, seed)
        fold_ok = thorough or nd <= 5
        # ---- marginalize / filter_pops
        for labels in (True, False):
            for folded in ((False, True) if fold_ok else (False,)):
                for ci, ch in enumerate(_chunks(subs, 16 if nd <= 5 else 8)):
                    us_name = 'marginalize-%s-%s-%s-part%d' % (sn, 'labels' if labels else 'nolabels',
                                                               'folded' if folded else 'unfolded', ci)
                    add(us_name, body_marg(shape, ch, labels, folded, False),
                        dict(op='marginalize', shape=list(shape), over=ch, labels=labels, folded=folded), 8 * len(ch))
        for ci, ch in enumerate(_chunks(subs, 16)):
            for folded in ((False, True) if nd <= 3 else (False,)):
                add('filter_pops-%s-%s-part%d' % (sn, 'folded' if folded else 'unfolded', ci),
                    body_marg(shape, ch, True, folded, True),
                    dict(op='filter_pops', shape=list(shape), over=ch, folded=folded), 8 * len(ch))
        # ---- reorder_pops
        for labels in (True, False):
            for folded in (False, True):
                for ci, ch in enumerate(_chunks(perms, 12)):
                    add('reorder_pops-%s-%s-%s-part%d' % (sn, 'labels' if labels else 'nolabels',
                                                          'folded' if folded else 'unfolded', ci),
                        body_reorder(shape, ch, labels, folded),
                        dict(op='reorder_pops', shape=list(shape), perms=[list(p) for p in ch], labels=labels,
                             folded=folded), 4 * len(ch) + 4)
        # ---- combine_pops / combine_two_pops
        for labels in (True, False):
            for ci, ch in enumerate(_chunks(msets, 8)):
                add('combine_pops-%s-%s-part%d' % (sn, 'labels' if labels else 'nolabels', ci),
                    body_combine(shape, ch, labels, False),
                    dict(op='combine_pops', shape=list(shape), sets=ch, labels=labels), 8 * len(ch))
        if fold_ok:
            for ci, ch in enumerate(_chunks(msets, 8)):
                add('combine_pops-%s-folded-part%d' % (sn, ci), body_combine(shape, ch, True, False, True),
                    dict(op='combine_pops', shape=list(shape), sets=ch, folded=True), 8 * len(ch))
        pairs = [list(p) for p in itertools.permutations(range(1, nd + 1), 2)]
        if nd >= 5 and not thorough:
            pairs = _pick(pairs, 10, seed)
        for ci, ch in enumerate(_chunks(pairs, 12)):
            add('combine_two_pops-%s-part%d' % (sn, ci), body_combine(shape, ch, True, True),
                dict(op='combine_two_pops', shape=list(shape), pairs=ch), 8 * len(ch))
            if nd <= 4:
                add('combine_two_pops-%s-folded-part%d' % (sn, ci), body_combine(shape, ch, False, True, True),
                    dict(op='combine_two_pops', shape=list(shape), pairs=ch, folded=True), 8 * len(ch))
        if nd <= 3:
            add('Misc.combine_pops-%s' % sn, body_misc_combine(shape), dict(op='Misc.combine_pops', shape=list(shape)),
                8)
        # ---- scramble_pop_ids
        for labels in (True, False):
            add('scramble_pop_ids-%s-%s-unfolded' % (sn, 'labels' if labels else 'nolabels'),
                body_scramble(shape, labels, False), dict(op='scramble_pop_ids', shape=list(shape), labels=labels),
                nent)
        if fold_ok:
            add('scramble_pop_ids-%s-folded' % sn, body_scramble(shape, True, True),
                dict(op='scramble_pop_ids', shape=list(shape), folded=True), nent // 2)
        # ---- commutation with fold / project
        if thorough or nd <= 5:
            npk = 10 if thorough else 6
            csubs = subs if nd <= 3 else _pick(subs, npk, seed)
            cperms = perms if nd <= 3 else _pick(perms, npk - 1, seed)
            csets = msets if nd <= 3 else _pick(msets, npk - 1, seed)
            add('commute-fold-%s' % sn, body_commute_fold(shape, csubs, cperms, csets, True),
                dict(op='commute-fold', shape=list(shape), over=csubs, perms=[list(p) for p in cperms], sets=csets),
                nent // 2)
            add('commute-project-%s' % sn, body_commute_project(shape, csubs, cperms, csets),
                dict(op='commute-project', shape=list(shape), over=csubs, perms=[list(p) for p in cperms], sets=csets),
                8)
    # ---- large sample sizes (per-entry allele-count arithmetic past 255 chromosomes in one population: an index grid
    #      held in a narrow integer type wraps there; the object-array shim does not hide this because the counts come
    #      from numpy.indices / shape arithmetic, not from shimmed constructors)
    for shape in [(258, 2), (2, 259), (130, 2, 2)]:
        sn = 'x'.join(map(str, shape))
        nd = len(shape)
        lsubs = [[i] for i in range(nd)]
        lperm = [tuple(range(nd, 0, -1))]
        add('commute-fold-%s-largeN' % sn, body_commute_fold(shape, lsubs, lperm, [], False),
            dict(op='commute-fold', shape=list(shape), over=lsubs, perms=[list(q) for q in lperm], sets=[]),
            int(np.prod(shape)) // 2)
        add('scramble_pop_ids-%s-nolabels-unfolded-largeN' % sn, body_scramble(shape, False, False),
            dict(op='scramble_pop_ids', shape=list(shape), labels=False), int(np.prod(shape)))
    # ---- the two defects found by this check (fixed in /repo: d4e102a, 6755447), kept as dedicated units
    for shape in [(2, 3), (2, 3, 4)]:
        sn = 'x'.join(map(str, shape))
        add('filter_pops-mask_corners-False-%s' % sn, body_filter_mask_corners(shape),
            dict(op='filter_pops', shape=list(shape), mask_corners=False), 4)
        add('combine_pops-folded-flag-%s' % sn, body_combine_folded_flag(shape),
            dict(op='combine_pops', shape=list(shape), folded=True), 4)
    # ---- call history: the same operations on spectra that share the number of populations and the total sample size
    #      but split it differently, within one process (a memo keyed on too little would go stale)
    def body_hist(shapes):
        bodies = [body_scramble(sh, False, False) for sh in shapes]

        def body(env):
            for k, b_ in enumerate(bodies):
                b_(_Prefixed(env, 'h%d' % k))
        return body
    for shapes in ([(2, 4), (4, 2), (3, 3)], [(4, 2), (2, 4)], [(2, 2, 3), (3, 2, 2), (2, 3, 2)]):
        add('hist-scramble-' + '_'.join('x'.join(map(str, sh)) for sh in shapes), body_hist(shapes),
            dict(op='scramble_pop_ids history', shapes=[list(sh) for sh in shapes]), 10)
    return us
